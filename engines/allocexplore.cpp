// Engine allocexplore (C16): explicit-state BFS over histories of the pool allocator
// (Malloc / Realloc / Clear / copy / move / destroy) with a tiny chunk capacity so chunk
// edges are reached in 2-3 steps.  Oracle after every step: alignment, containment in a
// chunk obtained from the tracking base (or the user buffer), pairwise disjointness, contents
// intact, Realloc preserves the prefix and grows in place when it must, zero size -> null,
// Size()/Capacity() accounting, chunks returned to the base exactly once and only when the
// last copy dies, user buffer never freed.
// Built with -fno-access-control: private fields are read ONLY to build the canonical state
// key used for de-duplication (never asserted).
#include <sys/mman.h>

#include <memory>
#include <set>

#include "common/histbfs.hpp"
#include "common/runner.hpp"
#include "sonic/allocator.h"

#if defined(__SANITIZE_ADDRESS__)
extern "C" size_t __sanitizer_get_current_allocated_bytes();
static size_t heap_bytes() { return __sanitizer_get_current_allocated_bytes(); }
#else
static size_t heap_bytes() { return 0; }
#endif

using namespace sonic_json;

struct BaseLedger {
  std::map<char*, size_t> live;  // ordered: containment queries
  int errors = 0;
  std::string first_error;
  uint64_t mallocs = 0, frees = 0;
  bool fail_next = false;  // environment answer: the next request to the base allocator fails (returns null)
  uint64_t fails = 0;
  void err(const std::string& e) {
    if (!errors) first_error = e;
    errors++;
  }
  // chunks above kBigChunk are address space only (mmap, MAP_NORESERVE): the huge-request configurations never touch
  // more than a few pages of them
  static constexpr size_t kBigChunk = (size_t)1 << 24;
  static void release(char* p, size_t size) {
    if (size >= kBigChunk)
      munmap(p, (size + 4095) & ~(size_t)4095);
    else
      std::free(p);
  }
  size_t small_bytes() const {
    size_t n = 0;
    for (auto& kv : live)
      if (kv.second < kBigChunk) n += kv.second + sizeof(std::_Rb_tree_node<std::pair<char* const, size_t>>);
      else n += sizeof(std::_Rb_tree_node<std::pair<char* const, size_t>>);
    return n;
  }
  void reset() {
    for (auto& kv : live) release(kv.first, kv.second);
    live.clear();
    errors = 0;
    first_error.clear();
    mallocs = frees = 0;
    fail_next = false;
    fails = 0;
  }
};
static BaseLedger& BL() {
  static BaseLedger l;
  return l;
}
class TrackBase {
 public:
  void* Malloc(size_t size) {
    if (!size) return nullptr;
    if (BL().fail_next) {
      BL().fail_next = false;
      BL().fails++;
      return nullptr;
    }
    char* p;
    if (size >= BaseLedger::kBigChunk) {
      p = (char*)mmap(nullptr, (size + 4095) & ~(size_t)4095, PROT_READ | PROT_WRITE, MAP_PRIVATE | MAP_ANONYMOUS | MAP_NORESERVE, -1, 0);
      if (p == (char*)MAP_FAILED) {
        BL().err("harness: mmap of a huge chunk failed");
        return nullptr;
      }
    } else {
      p = (char*)std::malloc(size);
      std::memset(p, 0xEE, size);
    }
    BL().live[p] = size;
    BL().mallocs++;
    return p;
  }
  void* Realloc(void* o, size_t, size_t n) {
    (void)o;
    BL().err("base Realloc is never used by the pool");
    return Malloc(n);
  }
  static void Free(void* p) {
    if (!p) return;
    auto it = BL().live.find((char*)p);
    if (it == BL().live.end()) {
      BL().err("chunk freed twice or foreign pointer passed to the base allocator");
      return;
    }
    size_t sz = it->second;
    BL().live.erase(it);
    BL().frees++;
    BaseLedger::release((char*)p, sz);
  }
  static constexpr bool kNeedFree = true;
};

static const size_t kSizesSmall[12] = {0, 1, 7, 8, 9, 16, 56, 63, 64, 65, 128, 200};
// requests around the 32-bit boundary: any size arithmetic done in a narrower type than size_t shows here
static const size_t kSizesHuge[12] = {0, 8, 64, 200, ((size_t)1 << 31) + 8, ((size_t)1 << 32) - 8, ((size_t)1 << 32) - 1, (size_t)1 << 32, ((size_t)1 << 32) + 1, ((size_t)1 << 32) + 8, ((size_t)1 << 32) + 64, ((size_t)1 << 33) + 24};
static constexpr size_t kProbe = 4096;  // blocks larger than 2*kProbe are written / checked at both ends only
static size_t al8(size_t x) { return (x + 7) & ~(size_t)7; }

enum Cfg { MANY_OWNERS = 13, FAILING_BASE = 12, HUGE_REQUESTS = 11, DEFAULT_BASE = 0, OWN_BASE = 1, USERBUF_EXACT = 2, USERBUF_8 = 3, USERBUF_64 = 4, USERBUF_MISALIGNED = 5, USERBUF_NOBASE = 6, USERBUF_ODD69 = 7, CHUNK_ODD100 = 8, USERBUF_MIS1 = 9, USERBUF_MIS3 = 10 };

template <class Policy, int CFG>
struct AllocSim {
  using Pool = MemoryPoolAllocator<TrackBase, Policy>;
  static constexpr size_t kChunk = 64;
  static constexpr const size_t* kSizes = CFG == HUGE_REQUESTS ? kSizesHuge : kSizesSmall;
  static constexpr size_t kHdr = sizeof(void*) * 7;  // upper bound used only to size the user buffer; real header sizes are read from the type
  TrackBase base;
  alignas(16) char userbuf[512];
  char* ub_begin = nullptr;
  size_t ub_len = 0;
  Pool* h[3] = {nullptr, nullptr, nullptr};
  int hstate[3] = {0, 0, 0};  // 0 none, 1 alive, 2 moved-from (only destructible)
  struct Blk {
    char* p;
    size_t size;
    uint8_t pat;
    bool live;
    size_t acct = 0;  // aligned size the allocator accounted for this block (size at allocation / last growth)
  };
  std::vector<Blk> blocks;
  int last = -1;  // index of the most recent allocation since the last Clear (-1: none)
  size_t model_size = 0;
  uint8_t next_pat = 1;
  bool pool_dead = false;
  size_t heap0 = 0;

  AllocSim() {
    BL().reset();
    blocks.reserve(64);
    heap0 = heap_bytes();
    std::memset(userbuf, 0xDD, sizeof userbuf);
    const size_t hdr = Pool::SIZEOF_SHARED_DATA + Pool::SIZEOF_CHUNK_HEADER;
    switch (CFG) {
      case DEFAULT_BASE: case HUGE_REQUESTS: case FAILING_BASE: h[0] = new Pool(kChunk, &base); break;
      case MANY_OWNERS:
        // non-initial state: the pool already has 2^32 - 2 owners that the explorer does not hold (their handles would be
        // 2^32 - 2 real copies; the owner count is a private field, set here directly). Copies made by the explorer take
        // the count across 2^32; no owner the explorer destroys is ever the last one.
        h[0] = new Pool(kChunk, &base);
        h[0]->shared_->refcount = (decltype(h[0]->shared_->refcount))(((uint64_t)1 << 32) - 1);
        break;
      case OWN_BASE: h[0] = new Pool(kChunk); break;
      case USERBUF_EXACT: ub_begin = userbuf; ub_len = hdr; h[0] = new Pool(ub_begin, ub_len, kChunk, &base); break;
      case USERBUF_8: ub_begin = userbuf; ub_len = hdr + 8; h[0] = new Pool(ub_begin, ub_len, kChunk, &base); break;
      case USERBUF_64: ub_begin = userbuf; ub_len = hdr + 64; h[0] = new Pool(ub_begin, ub_len, kChunk, &base); break;
      case USERBUF_MISALIGNED: ub_begin = userbuf + 3; ub_len = hdr + 64 + 5; h[0] = new Pool(ub_begin, ub_len, kChunk, &base); break;
      case USERBUF_NOBASE: ub_begin = userbuf; ub_len = hdr + 16; h[0] = new Pool(ub_begin, ub_len, kChunk); break;
      case USERBUF_ODD69: ub_begin = userbuf; ub_len = hdr + 69; h[0] = new Pool(ub_begin, ub_len, kChunk, &base); break;  // capacity not a multiple of 8
      case CHUNK_ODD100: h[0] = new Pool(100, &base); break;
      // misaligned by 1 / by 3 with a few spare bytes behind the last full 8-byte slot
      case USERBUF_MIS1: ub_begin = userbuf + 1; ub_len = hdr + 7 + 64 + 4; h[0] = new Pool(ub_begin, ub_len, kChunk, &base); break;
      case USERBUF_MIS3: ub_begin = userbuf + 3; ub_len = hdr + 5 + 64 + 6; h[0] = new Pool(ub_begin, ub_len, kChunk, &base); break;                                                                  // chunk size not a multiple of 8
    }
    hstate[0] = 1;
  }
  ~AllocSim() {
    for (int i = 0; i < 3; i++)
      if (h[i]) delete h[i];
  }

  static unsigned menu_size() { return CFG == FAILING_BASE ? 91 : 90; }
  static std::string op_name(unsigned op) {
    if (op < 12) return "Malloc(" + std::to_string(kSizes[op]) + ")";
    if (op < 24) return "Malloc(" + std::to_string(kSizes[op - 12]) + ")@copy";
    if (op < 72) return "Realloc(blk" + std::to_string((op - 24) / 12) + "," + std::to_string(kSizes[(op - 24) % 12]) + ")";
    if (op < 84) return "Realloc(null," + std::to_string(kSizes[op - 72]) + ")";
    switch (op) {
      case 84: return "Clear";
      case 85: return "CopyConstruct";
      case 86: return "CopyAssign(h1=h0)";
      case 87: return "MoveConstruct";
      case 88: return "DestroyLastHandle";
      case 89: return "SelfAssign(h0=h0)";
      case 90: return "[the next request to the base allocator will fail]";
    }
    return "?";
  }
  int first_alive() const {
    for (int i = 0; i < 3; i++)
      if (hstate[i] == 1) return i;
    return -1;
  }
  int last_alive() const {
    for (int i = 2; i >= 0; i--)
      if (hstate[i] == 1) return i;
    return -1;
  }
  int alive_count() const { return (hstate[0] == 1) + (hstate[1] == 1) + (hstate[2] == 1); }
  int free_slot() const {
    for (int i = 0; i < 3; i++)
      if (hstate[i] == 0) return i;
    return -1;
  }
  struct Live {  // no heap allocation: the heap-balance oracle runs while this is alive
    int v[8];
    size_t n = 0;
    size_t size() const { return n; }
    int operator[](size_t i) const { return v[i]; }
  };
  Live live_idx() const {
    Live l;
    for (size_t i = 0; i < blocks.size() && l.n < 8; i++)
      if (blocks[i].live) l.v[l.n++] = (int)i;
    return l;
  }
  bool enabled(unsigned op) const {
    int fa = first_alive();
    if (fa < 0) return false;
    auto lv = live_idx();
    if (op < 12) return lv.size() < 4;
    if (op < 24) return lv.size() < 4 && alive_count() >= 2;
    if (op < 72) {
      if (!((op - 24) / 12 < lv.size())) return false;
      // growing a multi-gigabyte block may legitimately copy it: only shrinking / same-size Reallocs of such blocks
      const Blk& ob = blocks[(size_t)lv[(op - 24) / 12]];
      if (ob.size > ((size_t)1 << 24) && al8(kSizes[(op - 24) % 12]) > al8(ob.size)) return false;
      return true;
    }
    if (op < 84) return lv.size() < 4;
    switch (op) {
      case 84: return true;
      case 85: return free_slot() >= 0;
      case 86: return hstate[0] == 1 && hstate[1] == 1;
      case 87: return free_slot() >= 0;
      case 88: return true;
      case 89: return hstate[0] == 1;
      case 90: return CFG == FAILING_BASE && !BL().fail_next;
    }
    return false;
  }

  // ---- oracle helpers ----
  bool in_some_chunk(char* p, size_t n, char** chunk_end) const {
    // tracked chunk?
    auto it = BL().live.upper_bound(p);
    if (it != BL().live.begin()) {
      --it;
      if (p >= it->first && p + n <= it->first + it->second) {
        if (chunk_end) *chunk_end = it->first + it->second;
        return true;
      }
    }
    if (ub_begin && p >= ub_begin && p + n <= ub_begin + ub_len) {
      if (chunk_end) *chunk_end = ub_begin + ub_len;
      return true;
    }
    return false;
  }
  static void fill_range(char* p, size_t n, uint8_t pat) {
    if (n <= 2 * kProbe) {
      std::memset(p, pat, n);
      return;
    }
    std::memset(p, pat, kProbe);
    std::memset(p + n - kProbe, pat, kProbe);
  }
  // first index in [0,n) (probed part only) whose byte differs from pat, or n
  static size_t first_diff(const char* p, size_t n, uint8_t pat) {
    if (n <= 2 * kProbe) {
      for (size_t i = 0; i < n; i++)
        if ((uint8_t)p[i] != pat) return i;
      return n;
    }
    for (size_t i = 0; i < kProbe; i++)
      if ((uint8_t)p[i] != pat) return i;
    for (size_t i = n - kProbe; i < n; i++)
      if ((uint8_t)p[i] != pat) return i;
    return n;
  }
  void fill(Blk& b) { fill_range(b.p, b.size, b.pat); }
  void verify(vr::Ctx& ctx, const std::string& tr) {
    if (BL().errors) ctx.violation("base_ledger", "alloc_base_ledger", tr, "%s", BL().first_error.c_str());
    for (auto& b : blocks) {
      if (!b.live) continue;
      // a block that does not lie inside a chunk was already reported; touching it could fault
      if (!in_some_chunk(b.p, b.size, nullptr)) continue;
      size_t i = first_diff(b.p, b.size, b.pat);
      if (i < b.size)
        ctx.violation("contents_disturbed", "alloc_contents_disturbed", tr, "block of %zu bytes at %p: byte %zu changed from %02x to %02x", b.size, (void*)b.p, i, b.pat, (uint8_t)b.p[i]);
    }
#if defined(__SANITIZE_ADDRESS__)
    {
      // heap footprint, every step: everything the pool holds must be explained by the chunks it obtained
      // from the base allocator, the handle objects, and at most one self-created base allocator object
      size_t ledger = 0;
      ledger = BL().small_bytes();
      size_t nh = (h[0] != nullptr) + (h[1] != nullptr) + (h[2] != nullptr);
      long slack = (long)heap_bytes() - (long)heap0 - (long)ledger - (long)(nh * sizeof(Pool));
      long lo = (CFG == OWN_BASE && !pool_dead) ? (long)sizeof(TrackBase) : 0;
      long hi = ((CFG == OWN_BASE || CFG == USERBUF_NOBASE) && !pool_dead) ? (long)sizeof(TrackBase) : 0;
      if (slack < lo || slack > hi)
        ctx.violation("heap_footprint", "alloc_heap_footprint", tr, "heap holds %ld bytes that are neither chunks, handles nor the single own base allocator (allowed %ld..%ld)", slack, lo, hi);
    }
#endif
    int fa = first_alive();
    if (fa >= 0) {
      size_t sz = h[fa]->Size(), cap = h[fa]->Capacity();
      if (sz != model_size) ctx.violation("size_accounting", "alloc_size_accounting", tr, "Size()=%zu but %zu bytes were handed out since the last Clear", sz, model_size);
      if (sz > cap) ctx.violation("size_gt_capacity", "alloc_size_gt_capacity", tr, "Size()=%zu > Capacity()=%zu", sz, cap);
      for (int i = 0; i < 3; i++)
        for (int j = 0; j < 3; j++)
          if (hstate[i] == 1 && hstate[j] == 1 && !(*h[i] == *h[j])) ctx.violation("copies_not_equal", "alloc_copies_not_equal", tr, "handles %d and %d do not compare equal although they are copies", i, j);
      if (h[fa]->Shared() != (alive_count() > 1 || CFG == MANY_OWNERS)) ctx.violation("shared_flag", "alloc_shared_flag", tr, "Shared()=%d with %d live copies", (int)h[fa]->Shared(), alive_count());
    }
  }
  void new_block(char* p, size_t size, vr::Ctx& ctx, const std::string& tr, const char* how) {
    if (((uintptr_t)p & 7) != 0) ctx.violation("misaligned", "alloc_misaligned", tr, "%s returned %p, not 8-byte aligned", how, (void*)p);
    if (!in_some_chunk(p, al8(size), nullptr)) ctx.violation("outside_chunk", "alloc_outside_chunk", tr, "%s(%zu) returned %p which does not lie wholly inside one chunk", how, size, (void*)p);
    for (auto& b : blocks)
      if (b.live && p < b.p + al8(b.size) && b.p < p + al8(size)) ctx.violation("overlap", "alloc_overlap", tr, "%s(%zu) returned %p overlapping the live block %p+%zu", how, size, (void*)p, (void*)b.p, b.size);
  }

  void do_malloc(Pool* a, size_t s, vr::Ctx& ctx, const std::string& tr) {
    const uint64_t fails0 = BL().fails;
    char* p = (char*)a->Malloc(s);
    if (s == 0) {
      if (p) ctx.violation("zero_size", "alloc_zero_size", tr, "Malloc(0) returned non-null");
      return;
    }
    if (!p) {
      // legitimate only when the base allocator refused a chunk during this very call; nothing was handed out
      if (BL().fails == fails0) ctx.violation("null_result", "alloc_null_result", tr, "Malloc(%zu) returned null", s);
      return;
    }
    new_block(p, s, ctx, tr, "Malloc");
    Blk b{p, s, next_pat++, true, al8(s)};
    if (next_pat == 0) next_pat = 1;
    if (in_some_chunk(b.p, b.size, nullptr)) fill(b);
    blocks.push_back(b);
    last = (int)blocks.size() - 1;
    model_size += al8(s);
  }

  void apply(unsigned op, vr::Ctx& ctx, const std::string& tr) {
    int fa = first_alive();
    auto lv = live_idx();
    if (op < 12) {
      do_malloc(h[fa], kSizes[op], ctx, tr);
    } else if (op < 24) {
      do_malloc(h[last_alive()], kSizes[op - 12], ctx, tr);
    } else if (op < 72) {
      int bi = lv[(op - 24) / 12];
      size_t ns = kSizes[(op - 24) % 12];
      Blk old = blocks[bi];
      char* chunk_end = nullptr;
      bool tracked = in_some_chunk(old.p, al8(old.size), &chunk_end);
      const uint64_t fails0 = BL().fails;
      char* p = (char*)h[fa]->Realloc(old.p, old.size, ns);
      if (ns != 0 && !p && BL().fails != fails0) {
        // the base allocator refused the new chunk: the caller keeps the old block, which stays as it was
      } else if (ns == 0) {
        if (p) ctx.violation("zero_size", "alloc_zero_size", tr, "Realloc(p,%zu,0) returned non-null", old.size);
        // the old block is given up by the caller
        blocks[bi].live = false;
        if (last == bi) last = -2;  // the bump pointer still sits behind it
      } else if (!p) {
        ctx.violation("null_result", "alloc_null_result", tr, "Realloc(p,%zu,%zu) returned null", old.size, ns);
      } else {
        size_t keep = std::min(old.size, ns);
        if (in_some_chunk(p, keep, nullptr)) {
          // (for blocks probed at both ends only, the prefix is checked where the old block was written)
          size_t i = keep <= 2 * kProbe || old.size == keep ? first_diff(p, keep, old.pat) : first_diff(p, std::min(keep, kProbe), old.pat);
          size_t lim = keep <= 2 * kProbe || old.size == keep ? keep : std::min(keep, kProbe);
          if (i < lim)
            ctx.violation("realloc_prefix", "alloc_realloc_prefix", tr, "Realloc(p,%zu,%zu): byte %zu of the result is %02x, expected the old contents %02x", old.size, ns, i, (uint8_t)p[i], old.pat);
        }
        if (al8(ns) <= al8(old.size)) {
          // shrinking or same aligned size: nothing new is handed out; any in-bounds answer holding the prefix is fine,
          // but a *new* pointer must be a valid fresh block
          if (p != old.p) {
            blocks[bi].live = false;
            new_block(p, ns, ctx, tr, "Realloc(shrink)");
            model_size += al8(ns);
            Blk b{p, ns, old.pat, true, al8(ns)};
            blocks.push_back(b);
            last = (int)blocks.size() - 1;
          } else {
            blocks[bi].size = ns;
          }
        } else {
          // in-place growth is demanded only when the caller's idea of the block size is the one the
          // allocator accounted (a block shrunk through Realloc keeps its footprint; growing it again
          // with the smaller size may legitimately move it)
          bool must_inplace = (last == bi) && tracked && old.p + al8(ns) <= chunk_end && al8(old.size) == old.acct;
          if (must_inplace && p != old.p)
            ctx.violation("realloc_not_inplace", "alloc_realloc_not_inplace", tr, "Realloc(p,%zu,%zu) of the most recent block moved although the chunk has room", old.size, ns);
          if (p == old.p) {
            // grown in place: the extension must not collide with anything
            blocks[bi].live = false;
            new_block(p, ns, ctx, tr, "Realloc(in place)");
            blocks[bi].live = true;
            blocks[bi].size = ns;
            blocks[bi].acct = al8(ns);
            model_size += al8(ns) - al8(old.size);
            if (last != bi) ctx.violation("realloc_inplace_not_last", "alloc_realloc_inplace_not_last", tr, "Realloc grew a block in place that was not the most recent allocation");
          } else {
            blocks[bi].live = false;
            new_block(p, ns, ctx, tr, "Realloc(moved)");
            Blk b{p, ns, old.pat, true, al8(ns)};
            blocks.push_back(b);
            last = (int)blocks.size() - 1;
            model_size += al8(ns);
          }
          Blk& nb = (p == old.p) ? blocks[bi] : blocks.back();
          // fill the new tail with the block's pattern so that later disturbance is visible
          if (in_some_chunk(nb.p, nb.size, nullptr)) fill(nb);
        }
        Blk& nb = (p == old.p) ? blocks[bi] : blocks.back();
        if (in_some_chunk(nb.p, nb.size, nullptr)) fill(nb);
      }
    } else if (op < 84) {
      size_t ns = kSizes[op - 72];
      const uint64_t fails0 = BL().fails;
      char* p = (char*)h[fa]->Realloc(nullptr, 0, ns);
      if (ns == 0) {
        if (p) ctx.violation("zero_size", "alloc_zero_size", tr, "Realloc(null,0,0) returned non-null");
      } else if (!p && BL().fails != fails0) {
        // refused by the base allocator
      } else if (!p) {
        ctx.violation("null_result", "alloc_null_result", tr, "Realloc(null,0,%zu) returned null", ns);
      } else {
        new_block(p, ns, ctx, tr, "Realloc(null)");
        Blk b{p, ns, next_pat++, true, al8(ns)};
        if (next_pat == 0) next_pat = 1;
        if (in_some_chunk(b.p, b.size, nullptr)) fill(b);
        blocks.push_back(b);
        last = (int)blocks.size() - 1;
        model_size += al8(ns);
      }
    } else if (op == 84) {
      h[fa]->Clear();
      for (auto& b : blocks) b.live = false;
      last = -1;
      model_size = 0;
    } else if (op == 85) {
      int s = free_slot();
      h[s] = new Pool(*h[fa]);
      hstate[s] = 1;
    } else if (op == 86) {
      *h[1] = *h[0];
    } else if (op == 87) {
      int s = free_slot();
      int src = last_alive();
      h[s] = new Pool(std::move(*h[src]));
      hstate[s] = 1;
      hstate[src] = 2;
    } else if (op == 88) {
      int la = last_alive();
      size_t chunks_before = BL().live.size();
      bool was_last = alive_count() == 1 && CFG != MANY_OWNERS;
      delete h[la];
      h[la] = nullptr;
      hstate[la] = 0;
      if (!was_last && BL().live.size() != chunks_before)
        ctx.violation("early_release", "alloc_early_release", tr, "destroying one of %d copies released memory to the base allocator", alive_count() + 1);
      if (was_last) {
        pool_dead = true;
        for (auto& b : blocks) b.live = false;
        // moved-from shells may remain; they own nothing
        if (!BL().live.empty())
          ctx.violation("leak", "alloc_chunks_leaked", tr, "%zu blocks obtained from the base allocator are still live after the last copy died", BL().live.size());
        for (int i = 0; i < 3; i++)
          if (hstate[i] == 2) {
            delete h[i];
            h[i] = nullptr;
            hstate[i] = 0;
          }
        size_t hb = heap_bytes();
        if (hb != heap0) ctx.violation("heap_imbalance", "alloc_heap_imbalance", tr, "heap bytes %zu before the pool was created, %zu after its last copy died", heap0, hb);
      }
    } else if (op == 89) {
      Pool& r = *h[0];
      *h[0] = r;
    } else if (op == 90) {
      BL().fail_next = true;
    }
    if (ub_begin) {
      // the user buffer must never be handed to the base allocator
      for (size_t i = 0; i < sizeof userbuf; i++) {
        char* q = userbuf + i;
        if ((q < ub_begin || q >= ub_begin + ub_len) && (uint8_t)*q != 0xDD) {
          ctx.violation("userbuf_overrun", "alloc_userbuf_overrun", tr, "byte %zu outside the user-supplied buffer was modified", i);
          break;
        }
      }
    }
    verify(ctx, tr);
  }

  std::string key() const {
    std::string k;
    char buf[96];
    int fa = first_alive();
    size_t lbytes = 0;
    for (auto& kv : BL().live) lbytes += kv.second;
    snprintf(buf, sizeof buf, "H%d%d%d|led%zu/%zu%s|", hstate[0], hstate[1], hstate[2], BL().live.size(), lbytes, BL().fail_next ? "F" : "");
    k += buf;
    if (fa < 0) return k + "dead";
    // private state, for de-duplication only
    Pool* a = h[fa];
    snprintf(buf, sizeof buf, "rc%zu,cp%zu,own%d,", a->shared_->refcount, (size_t)a->cp_.min_chunk_size_, a->shared_->ownBaseAllocator ? 1 : 0);
    k += buf;
    // per-handle hidden state: its own base-allocator pointer and chunk policy
    for (int i = 0; i < 3; i++)
      if (hstate[i] == 1) {
        snprintf(buf, sizeof buf, "h%d:%c%zu,", i, h[i]->baseAllocator_ ? 'B' : 'n', (size_t)h[i]->cp_.min_chunk_size_);
        k += buf;
      }
    k += "|";
    for (auto* c = a->shared_->chunkHead; c; c = c->next) {
      snprintf(buf, sizeof buf, "c%zu/%zu,", c->capacity, c->size);
      k += buf;
    }
    k += "|";
    int li = 0;
    for (size_t i = 0; i < blocks.size(); i++) {
      const Blk& b = blocks[i];
      if (!b.live) continue;
      int ci = -1;
      size_t off = 0;
      {
        int c = 0;
        for (auto* ch = a->shared_->chunkHead; ch; ch = ch->next, c++) {
          char* cb = reinterpret_cast<char*>(ch) + Pool::SIZEOF_CHUNK_HEADER;
          if (b.p >= cb && b.p <= cb + ch->capacity) {
            ci = c;
            off = (size_t)(b.p - cb);
            break;
          }
        }
      }
      snprintf(buf, sizeof buf, "b%d:%d+%zu#%zu/%zu%s,", li++, ci, off, b.size, b.acct, (int)i == last ? "L" : "");
      k += buf;
    }
    snprintf(buf, sizeof buf, "|last%d|sz%zu", last < 0 ? last : 0, model_size);
    k += buf;
    return k;
  }
};

template <class Sim>
static void explore(vr::Runner& R, const std::string& name, unsigned depth, std::string& extra, uint64_t& states, uint64_t& trans, const vr::Args& args, int& replay_rc) {
  hb::Explorer<Sim> ex(R, name,
                       "BFS over histories of MemoryPoolAllocator<TrackingBase,Policy>(chunk capacity 64): menu of 90 operations (Malloc/Realloc with sizes {0,1,7,8,9,16,56,63,64,65,128,200} on up to 4 live blocks, Clear, copy-construct, copy-assign, move-construct, destroy, self-assign on up to 3 handles); states de-duplicated by chunk list, live blocks, handle states",
                       depth);
  if (args.replay) {
    if (args.replay_family.rfind(name + "_depth", 0) == 0) replay_rc = ex.replay(args.replay_idx);
    return;
  }
  const std::string only = args.get("only");  // comma-separated list of explorer names
  if (!only.empty() && ("," + only + ",").find("," + name + ",") == std::string::npos) return;
  ex.run();
  states += ex.st.states;
  trans += ex.st.transitions;
  if (!extra.empty()) extra += ", ";
  extra += "\"" + name + "\": {" + ex.extra_json() + "}";
}

// ---------------------------------------------------------------------------------------------------------------
// Two DIFFERENT pools over two different stateful base allocator instances, assigned to one another (family
// A2_two_pools): every operation sequence up to a depth; each base allocator instance keeps its own ledger.
// Invariants after every step: a block is freed only through the instance that handed it out; a base instance holds
// blocks iff the pool created over it still has an owner; a request that needs a new chunk takes it from the base of
// the pool the handle currently shares; blocks handed out by one pool stay intact and disjoint until that pool is
// cleared or dies; when all handles are gone both instances are empty.
struct InstBase {
  std::map<void*, size_t> live;
  int foreign = 0;
  uint64_t mallocs = 0;
  void* Malloc(size_t n) {
    if (!n) return nullptr;
    void* p = std::malloc(n);
    std::memset(p, 0xEE, n);
    live[p] = n;
    mallocs++;
    return p;
  }
  void* Realloc(void* o, size_t, size_t n) {
    void* p = Malloc(n);
    if (o) Free(o);
    return p;
  }
  void Free(void* p) {
    if (!p) return;
    auto it = live.find(p);
    if (it == live.end()) {
      foreign++;
      return;  // not ours: do not touch it
    }
    live.erase(it);
    std::free(p);
  }
};
static const char* kA2Ops[11] = {"Malloc(24)@X", "Malloc(100)@X", "Malloc(24)@Y", "Malloc(100)@Y", "X = Y", "Y = X", "X = move(Y)", "Clear@X", "Clear@Y", "destroy X", "destroy Y"};
static std::string a2_run(const std::vector<unsigned>& ops, bool& pruned) {
  using Pool = MemoryPoolAllocator<InstBase>;
  pruned = false;
  InstBase base[2];
  struct Blk {
    char* p;
    size_t n;
    uint8_t pat;
    int pool;
  };
  std::vector<Blk> blocks;
  std::string err;
  {
    Pool* h[2] = {new Pool(64, &base[0]), new Pool(64, &base[1])};
    int st[2] = {1, 1};      // 0 destroyed, 1 alive, 2 moved-from
    int pool_of[2] = {0, 1}; // which underlying pool the handle shares
    int owners[2] = {1, 1};
    uint8_t pat = 1;
    auto drop_owner = [&](int pl) {
      if (--owners[pl] == 0)
        blocks.erase(std::remove_if(blocks.begin(), blocks.end(), [&](const Blk& b) { return b.pool == pl; }), blocks.end());
    };
    for (size_t step = 0; step < ops.size() && err.empty(); step++) {
      unsigned op = ops[step];
      auto fail = [&](const std::string& m) { err = "step " + std::to_string(step + 1) + " (" + kA2Ops[op] + "): " + m; };
      if (op < 4) {
        int hd = op / 2;
        if (st[hd] != 1) {
          pruned = true;
          break;
        }
        size_t n = op % 2 ? 100 : 24;
        int pl = pool_of[hd];
        uint64_t m0 = base[pl].mallocs, o0 = base[1 - pl].mallocs;
        char* p = (char*)h[hd]->Malloc(n);
        if (!p) {
          fail("Malloc returned null");
          break;
        }
        if (base[1 - pl].mallocs != o0) fail("the chunk for a pool created over one base allocator was requested from the OTHER base allocator instance");
        if (n == 100 && base[pl].mallocs == m0 && err.empty()) fail("a 100-byte request on 64-byte chunks did not obtain a chunk from the pool's base allocator");
        std::memset(p, pat, n);
        blocks.push_back({p, n, pat, pl});
        if (++pat == 0) pat = 1;
      } else if (op == 4 || op == 5) {
        int dst = op == 4 ? 0 : 1, src = 1 - dst;
        if (st[src] != 1 || st[dst] == 0) {
          pruned = true;
          break;
        }
        if (st[dst] == 1) drop_owner(pool_of[dst]);
        *h[dst] = *h[src];
        st[dst] = 1;
        pool_of[dst] = pool_of[src];
        owners[pool_of[src]]++;
      } else if (op == 6) {
        if (st[1] != 1 || st[0] == 0) {
          pruned = true;
          break;
        }
        if (st[0] == 1) drop_owner(pool_of[0]);
        *h[0] = std::move(*h[1]);
        st[0] = 1;
        pool_of[0] = pool_of[1];
        st[1] = 2;
      } else if (op == 7 || op == 8) {
        int hd = op - 7;
        if (st[hd] != 1) {
          pruned = true;
          break;
        }
        h[hd]->Clear();
        int pl = pool_of[hd];
        blocks.erase(std::remove_if(blocks.begin(), blocks.end(), [&](const Blk& b) { return b.pool == pl; }), blocks.end());
      } else {
        int hd = op - 9;
        if (st[hd] == 0) {
          pruned = true;
          break;
        }
        if (st[hd] == 1) drop_owner(pool_of[hd]);
        delete h[hd];
        h[hd] = nullptr;
        st[hd] = 0;
      }
      if (!err.empty()) break;
      // invariants
      for (int b = 0; b < 2; b++) {
        if (base[b].foreign) fail("base allocator instance " + std::to_string(b) + " was asked to free a block it never handed out (a pool released through the wrong base allocator)");
        if (err.empty() && (owners[b] > 0) != !base[b].live.empty())
          fail(std::string("base allocator instance ") + std::to_string(b) + (owners[b] > 0 ? " holds no block although its pool still has owners" : " still holds " + std::to_string(base[b].live.size()) + " block(s) although its pool has no owner left"));
      }
      for (size_t i = 0; i < blocks.size() && err.empty(); i++) {
        for (size_t k = 0; k < blocks[i].n; k++)
          if ((uint8_t)blocks[i].p[k] != blocks[i].pat) {
            fail("a block handed out earlier was disturbed");
            break;
          }
        bool inside = false;
        for (auto& kv : base[blocks[i].pool].live)
          if (blocks[i].p >= (char*)kv.first && blocks[i].p + blocks[i].n <= (char*)kv.first + kv.second) inside = true;
        if (!inside && err.empty()) fail("a live block does not lie in memory obtained from its pool's base allocator");
        for (size_t j = i + 1; j < blocks.size() && err.empty(); j++)
          if (blocks[i].p < blocks[j].p + blocks[j].n && blocks[j].p < blocks[i].p + blocks[i].n) fail("two live blocks overlap");
      }
    }
    for (int i = 0; i < 2; i++)
      if (h[i]) delete h[i];
  }
  if (err.empty() && !pruned) {
    for (int b = 0; b < 2; b++) {
      if (base[b].foreign) err = "at the end: base allocator instance " + std::to_string(b) + " was asked to free a block it never handed out";
      else if (!base[b].live.empty()) err = "at the end: base allocator instance " + std::to_string(b) + " still holds " + std::to_string(base[b].live.size()) + " block(s) after every handle was destroyed";
    }
  }
  for (int b = 0; b < 2; b++)
    for (auto& kv : base[b].live) std::free(kv.first);
  return err;
}

int main(int argc, char** argv) {
  vr::Args args = vr::parse_args(argc, argv);
  vr::Runner R(args);
  const bool quick = R.quick();
#if defined(__SANITIZE_ADDRESS__)
  const unsigned d_main = quick ? 4 : 5, d_side = quick ? 3 : 4;
#else
  const unsigned d_main = quick ? 5 : 6, d_side = quick ? 4 : 5;
#endif
  std::string extra;
  uint64_t states = 0, trans = 0;
  int rrc = -1;
  explore<AllocSim<SimpleChunkPolicy, DEFAULT_BASE>>(R, "A_simple_base", d_main, extra, states, trans, args, rrc);
  explore<AllocSim<AdaptiveChunkPolicy, DEFAULT_BASE>>(R, "A_adaptive_base", d_main, extra, states, trans, args, rrc);
  explore<AllocSim<SimpleChunkPolicy, OWN_BASE>>(R, "A_simple_ownbase", d_side, extra, states, trans, args, rrc);
  explore<AllocSim<SimpleChunkPolicy, USERBUF_EXACT>>(R, "A_simple_userbuf0", d_side, extra, states, trans, args, rrc);
  explore<AllocSim<SimpleChunkPolicy, USERBUF_8>>(R, "A_simple_userbuf8", d_side, extra, states, trans, args, rrc);
  explore<AllocSim<AdaptiveChunkPolicy, USERBUF_64>>(R, "A_adaptive_userbuf64", d_side, extra, states, trans, args, rrc);
  explore<AllocSim<SimpleChunkPolicy, USERBUF_MISALIGNED>>(R, "A_simple_userbuf_misaligned", d_side, extra, states, trans, args, rrc);
  explore<AllocSim<SimpleChunkPolicy, USERBUF_NOBASE>>(R, "A_simple_userbuf_nobase", d_side, extra, states, trans, args, rrc);
  explore<AllocSim<SimpleChunkPolicy, USERBUF_ODD69>>(R, "A_simple_userbuf_odd69", d_side, extra, states, trans, args, rrc);
  explore<AllocSim<AdaptiveChunkPolicy, CHUNK_ODD100>>(R, "A_adaptive_chunk100", d_side, extra, states, trans, args, rrc);
  explore<AllocSim<SimpleChunkPolicy, USERBUF_MIS1>>(R, "A_simple_userbuf_mis1", d_side, extra, states, trans, args, rrc);
  explore<AllocSim<SimpleChunkPolicy, USERBUF_MIS3>>(R, "A_simple_userbuf_mis3", d_side, extra, states, trans, args, rrc);
  // the base allocator refuses a chunk at any point of the history; the pool must stay consistent and usable
  explore<AllocSim<SimpleChunkPolicy, FAILING_BASE>>(R, "A_simple_failing_base", d_side, extra, states, trans, args, rrc);
  explore<AllocSim<AdaptiveChunkPolicy, FAILING_BASE>>(R, "A_adaptive_failing_base", d_side, extra, states, trans, args, rrc);
  // an owner count just below 2^32 (state injection): copying and destroying handles must never release the pool
  explore<AllocSim<SimpleChunkPolicy, MANY_OWNERS>>(R, "A_simple_2pow32_owners", d_side, extra, states, trans, args, rrc);
  // requests of 2^31, 2^32 +- a few bytes, 2^33 (chunks are address space only)
  explore<AllocSim<SimpleChunkPolicy, HUGE_REQUESTS>>(R, "A_simple_huge", d_side, extra, states, trans, args, rrc);
  explore<AllocSim<AdaptiveChunkPolicy, HUGE_REQUESTS>>(R, "A_adaptive_huge", d_side, extra, states, trans, args, rrc);
  // two pools over two base allocator instances, assigned to one another: all operation sequences up to a depth
  {
    const unsigned D2 = quick ? 5 : 6;
    vr::Family f2;
    f2.name = "A2_two_pools_two_bases";
    f2.count = 1;
    for (unsigned i = 0; i < D2; i++) f2.count *= 11;
    f2.group = "A2";
    f2.chunk = 256;
    f2.rule = "two pools X, Y (chunk capacity 64) over two DIFFERENT stateful base allocator instances: every sequence of " + std::to_string(D2) +
              " operations from {Malloc(24) / Malloc(100) through X / Y, X = Y, Y = X, X = move(Y), Clear through X / Y, destroy X / Y} (sequences using a dead handle are pruned): a block is freed only through the instance that handed it out, an instance holds blocks iff its pool has an owner, new chunks come from the base of the pool the handle shares, blocks stay intact, disjoint and inside their pool's chunks, nothing is left at the end";
    vr::CheckFn check2 = [&](const vr::Family& f, uint64_t idx, vr::Ctx& ctx) {
      std::vector<unsigned> ops;
      uint64_t x = idx;
      for (unsigned i = 0; i < D2; i++, x /= 11) ops.push_back((unsigned)(x % 11));
      bool pruned = false;
      std::string e = a2_run(ops, pruned);
      if (pruned) {
        ctx.skip();
        return;
      }
      ctx.eval();
      ctx.nontriv();
      std::string desc;
      for (unsigned o : ops) desc += std::string(kA2Ops[o]) + " ; ";
      if (ctx.want_sample) ctx.sample(desc);
      if (!e.empty()) ctx.violation("two_pools", "alloc_two_pools", desc, "%s", e.c_str());
      (void)f;
    };
    if (args.replay) {
      if (args.replay_family == f2.name) {
        std::vector<vr::Family> one = {f2};
        return R.replay_one(one, check2);
      }
    } else {
      const std::string only2 = args.get("only");
      if (only2.empty() || ("," + only2 + ",").find("," + f2.name + ",") != std::string::npos) R.run(f2, check2);
    }
  }
  if (args.replay) return rrc < 0 ? 2 : rrc;
  std::string ej = "\"states\": " + std::to_string(states) + ", \"transitions\": " + std::to_string(trans) + ", \"explorers\": {" + extra + "}";
  return R.finish(ej);
}
