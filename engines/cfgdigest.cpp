// Engine cfgdigest (C15): every build configuration must compute identical results.
// Each binary (static haswell / static westmere / runtime dispatch, production / ASan) runs the
// same exhaustive families and writes one 64-bit digest per case (accept/reject, parsed value,
// serialised bytes, on-demand slice or error class) into <digest-dir>/<family>.dig; run.py compares
// the files of all configurations and, for a differing index, replays the case in both
// configurations to obtain the readable digests.
// Excluded by the property statement: error code and offset when the first fault lies inside a
// malformed string literal; offsets of other failures are not compared either.
#include <sys/mman.h>

#include <set>
#include <algorithm>
#include <memory>

#include "common/families.hpp"
#include "common/refjson.hpp"
#include "common/runner.hpp"
#include "common/sonic_cmp.hpp"
#include "sonic/sonic.h"

using namespace sonic_json;

static uint64_t fnv(const std::string& s) {
  uint64_t h = 1469598103934665603ull;
  for (unsigned char c : s) {
    h ^= c;
    h *= 1099511628211ull;
  }
  return h ? h : 1;
}

static std::string digest_text(const std::string& text, const std::vector<std::vector<ref::Step>>& paths, const std::vector<JsonPointer>& jps) {
  std::string d;
  ref::Result r = ref::parse(text);
  Document doc;
  doc.Parse(text.data(), text.size());
  if (!doc.HasParseError()) {
    d += "ACCEPT dump=" + doc.Dump() + " value=" + ref::show(sc::to_ref(doc));
  } else {
    bool in_string = r.bad_literals > 0 || r.fault == ref::FStrControl || r.fault == ref::FStrEscape || r.fault == ref::FStrUnicode || (r.fault == ref::FTruncated && text.find('"') != std::string::npos);
    d += "REJECT";
    if (!in_string) d += " code=" + std::to_string((int)doc.GetParseError());
    if (!doc.IsNull()) d += " NOTNULL";
  }
  // on-demand: success + slice, else error class (only meaningful for valid texts; for invalid ones
  // success/failure and the slice are still deterministic functions of the text and must agree
  // unless the fault is inside a string literal)
  bool od_comparable = r.ok || !(r.bad_literals > 0 || r.fault == ref::FStrControl || r.fault == ref::FStrEscape || r.fault == ref::FStrUnicode || r.fault == ref::FTruncated);
  if (od_comparable)
    for (size_t i = 0; i < jps.size(); i++) {
      StringView t;
      ParseResult pr = GetOnDemand(StringView(text.data(), text.size()), jps[i], t);
      if (pr.Error() == kErrorNone)
        d += " od" + std::to_string(i) + "=[" + std::to_string(t.data() - text.data()) + "," + std::to_string(t.size()) + "]";
      else
        d += " od" + std::to_string(i) + "=E" + (r.ok ? std::to_string((int)pr.Error()) : std::string("x"));
    }
  // the text as a VIEW into a longer readable buffer (quotes / closers and digits behind it): success or failure and
  // the slice are functions of the view alone in every configuration (no exclusion: truncated texts included)
  {
    static const char* tails[2] = {"\"\"\"\"\"\"\"\"\"\"\"\"\"\"\"\"\"\"\"\"\"\"\"\"\"\"\"\"\"\"\"\"\"\"\"\"\"\"\"\"\"\"\"\"\"\"\"\"\"\"\"\"\"\"\"\"\"\"\"\"\"\"\"\"\"\"\"\"\"\"", "2]}]}\"2,3]}]}]}\"2]}]}\"2,3]}]}]}\"2]}]}\"2,3]}]}]}\"2]}]}\"2,3]}]}]}\"2]}]}"};
    for (int tl = 0; tl < 2; tl++) {
      std::string buf = text + tails[tl];
      for (size_t i = 0; i < jps.size(); i += 2) {
        StringView t;
        ParseResult pr = GetOnDemand(StringView(buf.data(), text.size()), jps[i], t);
        if (pr.Error() == kErrorNone)
          d += " vw" + std::to_string(tl) + "." + std::to_string(i) + "=[" + std::to_string(t.data() - buf.data()) + "," + std::to_string(t.size()) + "]";
        else
          d += " vw" + std::to_string(tl) + "." + std::to_string(i) + "=E";
      }
    }
  }
  (void)paths;
  return d;
}
// keyed lookups through the optional lookup map (its comparator is an architecture-selected kernel): an object of 12
// members named from a pool of keys of mixed lengths and byte values; every pool key is looked up with the map, without
// it, and after removing a member under the map
static const std::vector<std::string>& key_pool() {
  static std::vector<std::string> pool;
  if (pool.empty()) {
    std::set<std::string> seen;
    for (unsigned len : {0u, 1u, 2u, 3u, 7u, 8u, 9u, 15u, 16u, 17u, 31u, 32u, 33u, 40u, 64u, 65u}) {
      std::string base(len, 'm');
      if (seen.insert(base).second) pool.push_back(base);
      for (unsigned pos : {0u, 1u, 6u, 7u, 8u, 15u, 16u, 31u, 32u, 63u})
        for (unsigned char v : {(unsigned char)0x00, (unsigned char)0x01, (unsigned char)'a', (unsigned char)'z', (unsigned char)0x7f, (unsigned char)0x80, (unsigned char)0xc3, (unsigned char)0xff}) {
          if (pos >= len) continue;
          std::string k = base;
          k[pos] = (char)v;
          if (seen.insert(k).second) pool.push_back(k);
        }
    }
  }
  return pool;
}
static std::string digest_map_lookups(uint64_t idx) {
  static const unsigned strides[8] = {1, 2, 3, 5, 7, 11, 13, 17};
  const auto& pool = key_pool();
  unsigned st = strides[idx % 8];
  size_t i0 = idx / 8;
  std::vector<size_t> ks;
  for (unsigned j = 0; j < 12; j++) {
    size_t k = (i0 + (size_t)j * st * 37) % pool.size();
    if (std::find(ks.begin(), ks.end(), k) == ks.end()) ks.push_back(k);
  }
  Document doc;
  auto& al = doc.GetAllocator();
  doc.SetObject();
  for (size_t j = 0; j < ks.size(); j++) doc.AddMember(pool[ks[j]], Node((int64_t)j), al, true);
  std::string d = "MAP";
  for (int pass = 0; pass < 3; pass++) {
    if (pass == 1) doc.CreateMap(al);
    if (pass == 2) d += std::string(" rm=") + (doc.RemoveMember(pool[ks[ks.size() / 2]]) ? "1" : "0");
    d += pass == 0 ? " lin:" : pass == 1 ? " map:" : " after:";
    for (size_t q = 0; q < pool.size(); q++) {
      auto it = doc.FindMember(StringView(pool[q].data(), pool[q].size()));
      d += it == doc.MemberEnd() ? "." : std::string(1, (char)('A' + (it - doc.MemberBegin())));
      auto it2 = doc.FindMember(pool[q].data(), pool[q].size());  // the pointer + length overload has its own comparison kernel
      if (it2 != it) d += it2 == doc.MemberEnd() ? "(.)" : "(" + std::string(1, (char)('A' + (it2 - doc.MemberBegin()))) + ")";
    }
  }
  return d + " dump=" + doc.Dump();
}
// ML: LONG names: two members whose names of length L differ in one byte at position p, for every p; the second is
// looked up through both FindMember overloads, without and with the lookup map
static std::string digest_long_names(uint64_t idx) {
  const unsigned L = (unsigned)idx + 33;
  std::string d = "LONG L=" + std::to_string(L) + " ";
  for (unsigned p = 0; p < L; p++) {
    std::string a(L, 'm'), b;
    for (unsigned k = 0; k < L; k++) a[k] = (char)('a' + (k * 5) % 23);
    b = a;
    b[p] = (char)(b[p] ^ 0x01);
    Document doc;
    auto& al = doc.GetAllocator();
    doc.SetObject();
    doc.AddMember(a, Node(0), al, true);
    doc.AddMember(b, Node(1), al, true);
    auto x = [&](Document::MemberIterator it) { return it == doc.MemberEnd() ? '.' : (char)('A' + (it - doc.MemberBegin())); };
    d += x(doc.FindMember(b.data(), b.size()));
    d += x(doc.FindMember(StringView(b.data(), b.size())));
    doc.CreateMap(al);
    d += x(doc.FindMember(b.data(), b.size()));
    d += doc.HasMember(StringView(b.data(), b.size())) ? 'h' : '-';
  }
  return d;
}
static std::string digest_string_node(const std::string& bytes) {
  Document d;
  d.SetArray();
  d.PushBack(Node(bytes.data(), bytes.size()), d.GetAllocator());
  d.PushBack(Node(bytes.data(), bytes.size(), d.GetAllocator()), d.GetAllocator());
  WriteBuffer wb;
  SonicError e = d.Serialize(wb);
  return "SER err=" + std::to_string((int)e) + " out=" + std::string(wb.ToString(), wb.Size());
}

int main(int argc, char** argv) {
  vr::Args args = vr::parse_args(argc, argv);
  vr::Runner R(args);
  const bool quick = R.quick();
  const std::string ddir = args.get("digest-dir");
  std::vector<fam::TextFamily> tf;
  auto base = std::make_shared<std::vector<fam::BaseText>>(fam::base_valid(quick ? 4 : 5, true, 2));
  auto lmbase = std::make_shared<std::vector<std::string>>();
  for (auto& x : fam::base_valid(quick ? 4 : 5, true, 0)) lmbase->push_back(x.join());
  lmbase->push_back("{\"a\":[1,2.5e3,\"x\\ny\",null,true,false],\"b\":{\"c\":{}}}");
  unsigned lm_maxlen = 0;
  for (auto& s : *lmbase) lm_maxlen = std::max<unsigned>(lm_maxlen, (unsigned)s.size());
  tf.push_back(fam::make_L0(quick ? 4 : 5));
  tf.push_back(fam::make_LA(quick ? 5 : 6));
  tf.push_back(fam::make_LA1(quick ? 4 : 5));
  tf.push_back(fam::make_LB1(base, 3, quick ? 70 : 131, 6, "sp"));
  tf.push_back(fam::make_LC(quick ? 2 : 3, !quick));
  tf.push_back(fam::make_LM(lmbase, lm_maxlen));
  tf.push_back(fam::make_LW());
  tf.push_back(fam::make_LH(17));
  tf.push_back(fam::make_LP());
  tf.push_back(fam::make_LX(std::make_shared<std::vector<fam::BaseText>>(fam::base_valid(3, false, 1)), 3));
  // valid grammar texts (on-demand + serialisation agree)
  auto gram = std::make_shared<std::vector<std::string>>(
      fam::valid_texts_by_budget(quick ? 8 : 10, {"1", "-2.5e3", "\"a\"", "\"]\\\"{\"", "\"\\u00e9\\ud83d\\ude00\"", "null", "true"}, {"\"a\"", "\"b\"", "\"\\u0061\"", "\"\""}));
  {
    fam::TextFamily g;
    g.meta.name = "TG_grammar_texts";
    g.meta.count = gram->size();
    g.meta.group = "TG";
    g.meta.chunk = 256;
    g.meta.rule = "every valid text of bounded token count over leaves incl. escaped/unicode strings and keys a,b,escaped a,''";
    g.gen = [gram](uint64_t i, std::string& out) {
      out = (*gram)[i];
      return true;
    };
    tf.push_back(g);
  }
  // long containers that the on-demand scanner must skip, with a special item at every offset
  {
    fam::TextFamily g;
    g.meta.name = "OL_skip_long_container";
    g.meta.count = 150ull * 6 * 2;
    g.meta.group = "OL";
    g.meta.chunk = 64;
    g.meta.rule = "texts [C,7] and {\"a\":C,\"b\":7} where C is an array padded with n in 0..149 digits before one special item (escaped quote, brackets inside a string, nested empties, escaped backslash): digests include the on-demand lookups of the element/member after C";
    g.gen = [](uint64_t idx, std::string& out) {
      static const char* sp[6] = {"\"\\\"\"", "\"]}[{\"", "[]", "{}", "\"\\\\\"", "[[\"]\"],{\"k\":\"}\"}]"};
      unsigned wrap = (unsigned)(idx % 2);
      idx /= 2;
      unsigned s = (unsigned)(idx % 6);
      unsigned n = (unsigned)(idx / 6);
      std::string C = "[" + (n ? std::string(n, '1') + "," : std::string()) + sp[s] + ",2]";
      out = wrap == 0 ? "[" + C + ",7]" : "{\"a\":" + C + ",\"b\":7}";
      return true;
    };
    tf.push_back(g);
  }
  // string quoting: bytes x positions x lengths through Serialize
  {
    fam::TextFamily q;
    q.meta.name = "QS_quote_strings";
    q.meta.count = 101ull * 101 * 40;
    q.meta.group = "QS";
    q.meta.chunk = 2048;
    q.meta.rule = "strings of length 0..100 with one of 40 special bytes (all escapable, 0x20, 0x7f, 0x80, 0xff, '/', ...) at every position, serialised as constant and as owned string";
    q.gen = [](uint64_t idx, std::string& out) {
      static std::string specials;
      if (specials.empty()) {
        for (int c = 0; c < 0x20; c++) specials.push_back((char)c);
        specials += "\"\\ /\x7f\x80\xff!";
      }
      unsigned b = (unsigned)(idx % 40);
      idx /= 40;
      unsigned pos = (unsigned)(idx % 101), n = (unsigned)(idx / 101);
      if (pos >= n && !(n == 0 && pos == 0 && b == 0)) return false;
      out.assign(n, 'a');
      if (n) out[pos] = specials[b];
      return true;
    };
    tf.push_back(q);
  }
  {
    fam::TextFamily m;
    m.meta.name = "MK_map_lookups";
    m.meta.count = (uint64_t)key_pool().size() * 8;
    m.meta.group = "MK";
    m.meta.chunk = 64;
    m.meta.rule = "objects of 12 members named from a pool of " + std::to_string(key_pool().size()) + " keys (lengths 0..65 around 8/16/32/64, one byte of value 00/01/a/z/7f/80/c3/ff at the positions where a word- or block-wise comparison changes regime), 8 strides: every pool key looked up without the map, with it, and after a RemoveMember under the map";
    m.gen = [](uint64_t idx, std::string& out) {
      out = std::to_string(idx);
      return true;
    };
    tf.push_back(m);
  }
  {
    fam::TextFamily m;
    m.meta.name = "ML_long_name_lookups";
    m.meta.count = 200 - 33 + 1;
    m.meta.group = "ML";
    m.meta.chunk = 4;
    m.meta.rule = "two members whose names of length L (every L in 33..200) differ in one byte at position p (every p): the second looked up through FindMember(ptr,len), FindMember(view), with the lookup map, HasMember";
    m.gen = [](uint64_t idx, std::string& out) {
      out = std::to_string(idx);
      return true;
    };
    tf.push_back(m);
  }
  // paths for the on-demand part
  std::vector<std::vector<ref::Step>> paths;
  {
    auto mk = [](std::initializer_list<const char*> ks, std::initializer_list<int> is) {
      std::vector<ref::Step> p;
      for (auto k : ks) {
        ref::Step s;
        s.key = k;
        p.push_back(s);
      }
      for (auto i : is) {
        ref::Step s;
        s.is_num = true;
        s.num = i;
        p.push_back(s);
      }
      return p;
    };
    paths = {mk({}, {}), mk({"a"}, {}), mk({}, {0}), mk({}, {1}), mk({"a"}, {0}), mk({"b"}, {}), mk({}, {0, 0}), mk({""}, {})};
  }
  std::vector<JsonPointer> jps;
  for (auto& p : paths) jps.push_back(sc::to_pointer(p));

  std::map<std::string, const fam::TextFamily*> byname;
  std::vector<vr::Family> fams;
  for (auto& f : tf) {
    byname[f.meta.name] = &f;
    fams.push_back(f.meta);
  }
  std::map<std::string, uint64_t*> arrays;
  if (!args.replay)
    for (auto& f : fams) {
      void* m = mmap(nullptr, (f.count + 1) * 8, PROT_READ | PROT_WRITE, MAP_SHARED | MAP_ANONYMOUS, -1, 0);
      if (m == MAP_FAILED) {
        perror("mmap digests");
        return 2;
      }
      arrays[f.name] = (uint64_t*)m;
    }
  vr::CheckFn check = [&](const vr::Family& f, uint64_t idx, vr::Ctx& ctx) {
    const fam::TextFamily* t = byname[f.name];
    std::string text;
    if (!t->gen(idx, text)) {
      ctx.skip();
      return;
    }
    ctx.eval();
    ctx.nontriv();
    std::string d = f.name[0] == 'Q' ? digest_string_node(text) : f.name[0] == 'M' ? (f.name[1] == 'L' ? digest_long_names(idx) : digest_map_lookups(idx)) : digest_text(text, paths, jps);
    if (ctx.replay) {
      printf("DIGEST %s\n", vr::jstr(d).c_str());
      return;
    }
    if (ctx.want_sample) ctx.sample(text.substr(0, 60) + " => " + d.substr(0, 150));
    arrays[f.name][idx] = fnv(d);
  };
  if (args.replay) {
    R.replay_one(fams, check);
    return 0;
  }
  for (auto& f : fams) {
    R.run(f, check);
    if (!ddir.empty()) {
      std::string p = ddir + "/" + f.name + ".dig";
      FILE* fp = fopen(p.c_str(), "wb");
      if (!fp) {
        perror("digest file");
        return 2;
      }
      fwrite(arrays[f.name], 8, f.count, fp);
      fclose(fp);
    }
    munmap(arrays[f.name], (f.count + 1) * 8);
  }
  return R.finish();
}
