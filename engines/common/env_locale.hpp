// A private locale whose decimal point is ',' (as in de_DE, fr_FR, ru_RU ...; only C / POSIX are installed in this
// sandbox), compiled with localedef into <dir>. After build_comma_locale() returned true, setlocale(LC_NUMERIC, "xx_XX")
// switches the process (and forked workers) to it and setlocale(LC_NUMERIC, "C") back.
#pragma once
#include <clocale>
#include <cstdio>
#include <cstdlib>
#include <cstring>
#include <string>
#include <unistd.h>

namespace envl {
static inline bool build_comma_locale(const std::string& dir) {
  if (access((dir + "/xx_XX/LC_NUMERIC").c_str(), R_OK) != 0) {
    std::string tmp = dir + ".tmp" + std::to_string((long)getpid());
    std::string cmd = "rm -rf " + tmp + " && mkdir -p " + tmp;
    if (system(cmd.c_str()) != 0) return false;
    FILE* f = fopen((tmp + "/xx_XX.src").c_str(), "w");
    if (!f) return false;
    fputs("comment_char %\nescape_char /\nLC_IDENTIFICATION\ntitle \"verif comma locale\"\nsource \"\"\naddress \"\"\ncontact \"\"\nemail \"\"\ntel \"\"\nfax \"\"\nlanguage \"\"\nterritory \"\"\nrevision \"1.0\"\ndate \"2026-01-01\"\n"
          "category \"i18n:2012\";LC_IDENTIFICATION\ncategory \"i18n:2012\";LC_NUMERIC\nEND LC_IDENTIFICATION\nLC_NUMERIC\ndecimal_point \"<U002C>\"\nthousands_sep \"<U002E>\"\ngrouping 3;3\nEND LC_NUMERIC\n",
          f);
    fclose(f);
    f = fopen((tmp + "/ascii.cm").c_str(), "w");
    if (!f) return false;
    fputs("<code_set_name> ASCII7\n<comment_char> %\n<escape_char> /\n<mb_cur_min> 1\n<mb_cur_max> 1\nCHARMAP\n", f);
    for (int c = 0; c < 128; c++) fprintf(f, "<U%04X> /x%02x\n", c, c);
    fputs("END CHARMAP\n", f);
    fclose(f);
    cmd = "localedef -c -i " + tmp + "/xx_XX.src -f " + tmp + "/ascii.cm " + tmp + "/xx_XX >/dev/null 2>&1";
    int rc = system(cmd.c_str());
    (void)rc;  // -c: the missing categories give warnings and a non-zero code
    if (access((tmp + "/xx_XX/LC_NUMERIC").c_str(), R_OK) != 0) return false;
    cmd = "rm -rf " + dir + " && mv " + tmp + " " + dir;
    if (system(cmd.c_str()) != 0 && access((dir + "/xx_XX/LC_NUMERIC").c_str(), R_OK) != 0) return false;
  }
  setenv("LOCPATH", dir.c_str(), 1);
  if (!setlocale(LC_NUMERIC, "xx_XX")) return false;
  char buf[32];
  snprintf(buf, sizeof buf, "%.1f", 1.5);
  bool ok = std::strcmp(buf, "1,5") == 0;
  setlocale(LC_NUMERIC, "C");
  return ok;
}

}  // namespace envl
