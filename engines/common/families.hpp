// E1: exhaustive JSON-text families.  Every family is a finite set indexed
// 0..count-1 in mixed-radix (lexicographic) order; gen(idx) regenerates the
// text, so (family, idx) identifies a case for replay.
#pragma once
#include <cstdint>
#include <functional>
#include <map>
#include <memory>
#include <string>
#include <vector>

#include "refjson.hpp"
#include "runner.hpp"

namespace fam {

struct TextFamily {
  vr::Family meta;
  // returns false when idx denotes no case (skipped slot of the index space)
  std::function<bool(uint64_t, std::string&)> gen;
};

static inline uint64_t ipow(uint64_t b, unsigned e) {
  uint64_t r = 1;
  while (e--) r *= b;
  return r;
}
// number of strings of length <= n over k symbols
static inline uint64_t count_upto(uint64_t k, unsigned n) {
  uint64_t s = 0;
  for (unsigned l = 0; l <= n; l++) s += ipow(k, l);
  return s;
}
// idx -> (length, digits) ; strings ordered by length then lexicographic
static inline void decode_upto(uint64_t idx, uint64_t k, unsigned n, std::vector<unsigned>& digits) {
  digits.clear();
  unsigned l = 0;
  for (; l <= n; l++) {
    uint64_t c = ipow(k, l);
    if (idx < c) break;
    idx -= c;
  }
  digits.assign(l, 0);
  for (unsigned j = 0; j < l; j++) {
    digits[l - 1 - j] = (unsigned)(idx % k);
    idx /= k;
  }
}

// ---- alphabets -----------------------------------------------------------
static const char kL0Bytes[] = {'[', ']', '{', '}', ',', ':', '"', '\\', '0', '1', '-', '.', 'e', 'E', '+', 't', 'n', ' ', 0x01};
static const unsigned kL0N = sizeof kL0Bytes;

static inline const std::vector<std::string>& la_tokens() {
  static const std::vector<std::string> t = {"[", "]", "{", "}", ",", ":", "1", "\"a\"", "true", " "};
  return t;
}
static inline const std::vector<std::string>& la_tokens_nows() {
  static const std::vector<std::string> t = {"[", "]", "{", "}", ",", ":", "1", "\"a\"", "true"};
  return t;
}
static inline bool is_leaf_token(unsigned d) { return d == 6 || d == 7 || d == 8; }

static inline std::string plain(size_t n, char c = 'x') { return std::string(n, c); }

// leaf alphabet for LA+d
static inline const std::vector<std::string>& leaf_alphabet() {
  static std::vector<std::string> v;
  if (!v.empty()) return v;
  const char* nums[] = {"0", "-0", "-1", "1.5", "1e2", "1E-2", "0.0", "-0.0", "18446744073709551615",
                        "18446744073709551616", "-9223372036854775808", "-9223372036854775809",
                        "9223372036854775808", "1e400", "-1e400", "1e-400", "01", "1.", ".5", "-", "1e", "-e", "1e+",
                        "0x1", "00", "-01", "1.e1", "1.5e", "0e0", "0e-0", "0.e1", "123456789012345678901234567890",
                        "0.1e-1", "1E+2", "-1.5E+2", "2.5", "12345678901234567", "1.2345678901234567e-5",
                        // subnormal / extreme doubles (short spellings reach the fast float paths)
                        "1e-310", "2.5e-320", "1.5e-308", "4.9e-324", "1.7976931348623157e308", "1797693134862315808e290", "0.00000000000000000000000000000",
                        // exact ties between two adjacent doubles written with few digits in exponent / fraction form (the fast
                        // float paths must round them to even, or hand them on)
                        "9007199254740993e0", "9.007199254740993e15", "1.8014398509481986e16", "7205759403792804e1", "9007199254740995e0", "5764607523034235e2", "4503599627370497.5", "1e23", "8.5e22"};
  for (auto s : nums) v.push_back(s);
  const char* lits[] = {"false", "null", "tru", "nul", "fals", "truex", "nulll", "True", "falsE", "n", "t", "f"};
  for (auto s : lits) v.push_back(s);
  const char* strs[] = {"\"\"", "\"b\"", "\"\\n\"", "\"]\"", "\"{\"", "\"\\\"\"", "\"\\\\\"", "\"\\u0041\"",
                        "\"\\ud83d\\ude00\"", "\"\\/\\b\\f\\r\\t\"", "\"\\x\"", "\"\\u12G4\"", "\"\\ud800\"",
                        "\"\\udc00\"", "\"\\ud800\\u0041\"", "\"a", "\"\\", "\"\\u00", "\"\\\"", "\"a\\\\\\\"b\"",
                        "\"\x01\"", "\"\x1f\"", "\"\x7f\"", "\"\xff\"", "\"\xc3\xa9\"", "\"a\\u0000b\"", "\"[\"", "\"}\"", "\",\"", "\":\""};
  for (auto s : strs) v.push_back(s);
  v.push_back(std::string("\"a\0b\"", 5));
  // a raw control byte BETWEEN two escapes (the second scanning phase of the string decoder), also
  // beyond the first vector block
  v.push_back("\"\\\"\x01\\u0041\"");
  v.push_back("\"\\n\x01\\\\\"");
  v.push_back("\"" + plain(31) + "\\n\x1f\\\\\"");
  v.push_back("\"" + plain(15) + "\\t\x0a" + plain(3) + "\\\"\"");
  for (size_t n : {31u, 32u, 33u, 63u, 64u, 65u}) {
    v.push_back("\"" + plain(n) + "\"");
    v.push_back("\"" + plain(n - 2) + "\\n\"");
    v.push_back("\"" + plain(n - 1) + "\\\"");  // escaped closing quote -> unterminated
  }
  return v;
}

// ---- families ------------------------------------------------------------
static inline TextFamily make_L0(unsigned n) {
  TextFamily f;
  f.meta.name = "L0_bytes_le" + std::to_string(n);
  f.meta.count = count_upto(kL0N, n);
  f.meta.group = "L0";
  f.meta.rule = "every byte string of length <= " + std::to_string(n) +
                " over the 19-byte alphabet [ ] { } , : \" \\ 0 1 - . e E + t n SP 0x01";
  f.meta.chunk = 4096;
  f.gen = [n](uint64_t idx, std::string& out) {
    std::vector<unsigned> d;
    decode_upto(idx, kL0N, n, d);
    out.clear();
    for (unsigned x : d) out.push_back(kL0Bytes[x]);
    return true;
  };
  return f;
}

static inline TextFamily make_LA(unsigned n) {
  TextFamily f;
  f.meta.name = "LA_tokens_le" + std::to_string(n);
  f.meta.count = count_upto(10, n);
  f.meta.group = "LA";
  f.meta.rule = "every token string of length <= " + std::to_string(n) +
                " over the 10 tokens [ ] { } , : 1 \"a\" true SP";
  f.meta.chunk = 4096;
  f.gen = [n](uint64_t idx, std::string& out) {
    std::vector<unsigned> d;
    decode_upto(idx, 10, n, d);
    out.clear();
    for (unsigned x : d) out += la_tokens()[x];
    return true;
  };
  return f;
}

// LA+1: token strings of length <= n over the 9 non-space tokens, one leaf
// position replaced by each member of the leaf alphabet.
static inline TextFamily make_LA1(unsigned n) {
  TextFamily f;
  const uint64_t nleaf = leaf_alphabet().size();
  f.meta.name = "LA1_leafdev_le" + std::to_string(n);
  f.meta.count = count_upto(9, n) * n * nleaf;
  f.meta.group = "LA1";
  f.meta.rule = "every token string of length <= " + std::to_string(n) +
                " over [ ] { } , : 1 \"a\" true with exactly one leaf position replaced by each of the " +
                std::to_string(nleaf) + " members of the leaf alphabet (numbers, literals, strings, malformed variants); index slots whose position holds no leaf are skipped";
  f.meta.chunk = 8192;
  f.gen = [n, nleaf](uint64_t idx, std::string& out) {
    uint64_t leaf = idx % nleaf;
    idx /= nleaf;
    unsigned pos = (unsigned)(idx % n);
    idx /= n;
    std::vector<unsigned> d;
    decode_upto(idx, 9, n, d);
    if (pos >= d.size() || !is_leaf_token(d[pos])) return false;
    out.clear();
    for (unsigned j = 0; j < d.size(); j++) {
      if (j == pos)
        out += leaf_alphabet()[leaf];
      else
        out += la_tokens_nows()[d[j]];
    }
    return true;
  };
  return f;
}

// LA+2: two leaf positions replaced (length <= n)
static inline TextFamily make_LA2(unsigned n) {
  TextFamily f;
  const uint64_t nleaf = leaf_alphabet().size();
  f.meta.name = "LA2_leafdev_le" + std::to_string(n);
  f.meta.count = count_upto(9, n) * n * n * nleaf * nleaf;
  f.meta.group = "LA2";
  f.meta.rule = "as LA1 but two distinct leaf positions p<q replaced by every pair of leaf-alphabet members";
  f.meta.chunk = 65536;
  f.gen = [n, nleaf](uint64_t idx, std::string& out) {
    uint64_t l2 = idx % nleaf;
    idx /= nleaf;
    uint64_t l1 = idx % nleaf;
    idx /= nleaf;
    unsigned q = (unsigned)(idx % n);
    idx /= n;
    unsigned p = (unsigned)(idx % n);
    idx /= n;
    if (!(p < q)) return false;
    std::vector<unsigned> d;
    decode_upto(idx, 9, n, d);
    if (q >= d.size() || !is_leaf_token(d[p]) || !is_leaf_token(d[q])) return false;
    out.clear();
    for (unsigned j = 0; j < d.size(); j++) {
      if (j == p)
        out += leaf_alphabet()[l1];
      else if (j == q)
        out += leaf_alphabet()[l2];
      else
        out += la_tokens_nows()[d[j]];
    }
    return true;
  };
  return f;
}

// LP: every ordered PAIR of leaf spellings in one document (what the parser does with one leaf - an error it
// records, a flag it sets, scratch it fills - must not leak into how it treats a later one)
static inline TextFamily make_LP() {
  TextFamily f;
  const uint64_t nleaf = leaf_alphabet().size();
  f.meta.name = "LP_leaf_pairs";
  f.meta.count = nleaf * nleaf * 6;
  f.meta.group = "LP";
  f.meta.rule = "all ordered pairs (L1,L2) of the " + std::to_string(nleaf) + " leaf spellings (numbers incl. overflowing / subnormal / over-long / malformed, literals, strings incl. malformed) in 6 two-leaf documents: [L1,L2], {\"a\":L1,\"b\":L2}, [L1,[L2]], [[L1],L2], [L1,true,L2], {\"a\":[L1],\"b\":{\"c\":L2}}";
  f.meta.chunk = 2048;
  f.gen = [nleaf](uint64_t idx, std::string& out) {
    unsigned shape = (unsigned)(idx % 6);
    idx /= 6;
    const std::string& b = leaf_alphabet()[idx % nleaf];
    const std::string& a = leaf_alphabet()[idx / nleaf];
    switch (shape) {
      case 0: out = "[" + a + "," + b + "]"; break;
      case 1: out = "{\"a\":" + a + ",\"b\":" + b + "}"; break;
      case 2: out = "[" + a + ",[" + b + "]]"; break;
      case 3: out = "[[" + a + "]," + b + "]"; break;
      case 4: out = "[" + a + ",true," + b + "]"; break;
      default: out = "{\"a\":[" + a + "],\"b\":{\"c\":" + b + "}}"; break;
    }
    return true;
  };
  return f;
}

// Base set for whitespace / mutation families: token lists of all *valid* LA
// texts (no whitespace token) with <= n tokens, plus reduced leaf variants.
struct BaseText {
  std::vector<std::string> toks;
  std::string join() const {
    std::string s;
    for (auto& t : toks) s += t;
    return s;
  }
};
static inline const std::vector<std::string>& reduced_leaves() {
  static const std::vector<std::string> v = {"-1.5e2", "null", "\"\"", "\"\\n\"", "\"" + plain(33) + "\"", "false", "0"};
  return v;
}
static inline std::vector<BaseText> base_valid(unsigned n, bool with_leaf_variants, unsigned invalid_upto = 0) {
  std::vector<BaseText> out;
  uint64_t total = count_upto(9, n);
  std::vector<unsigned> d;
  for (uint64_t idx = 0; idx < total; idx++) {
    decode_upto(idx, 9, n, d);
    std::string s;
    for (unsigned x : d) s += la_tokens_nows()[x];
    bool ok = ref::parse(s).ok;
    if (!ok && !(d.size() <= invalid_upto && d.size() > 0)) continue;
    BaseText b;
    for (unsigned x : d) b.toks.push_back(la_tokens_nows()[x]);
    out.push_back(b);
    if (ok && with_leaf_variants) {
      for (unsigned j = 0; j < d.size(); j++) {
        if (!is_leaf_token(d[j])) continue;
        // keys must stay strings
        bool is_key = (j + 1 < d.size() && d[j + 1] == 5);
        for (auto& lf : reduced_leaves()) {
          if (is_key && lf[0] != '"') continue;
          BaseText v = b;
          v.toks[j] = lf;
          out.push_back(v);
        }
      }
    }
  }
  return out;
}

// LB1: leading run k in 0..K-1, one designated gap receives r in 0..R-1 spaces
static inline TextFamily make_LB1(std::shared_ptr<std::vector<BaseText>> base, unsigned K, unsigned R, unsigned maxgaps,
                                  const std::string& tag, const std::string& wsunit = " ") {
  TextFamily f;
  f.meta.name = "LB1_ws_" + tag;
  f.meta.count = (uint64_t)base->size() * K * R * maxgaps;
  f.meta.group = "LB1" + tag;
  f.meta.rule = "whitespace placement: each base text (all valid LA texts of bounded token count and reduced-leaf variants, " +
                std::to_string(base->size()) + " texts) with a leading run of k in 0.." + std::to_string(K - 1) +
                " spaces and one designated token gap (every gap in turn, incl. after the last token) holding r in 0.." + std::to_string(R - 1) + " whitespace units";
  f.meta.chunk = 8192;
  f.gen = [base, K, R, maxgaps, wsunit](uint64_t idx, std::string& out) {
    unsigned r = (unsigned)(idx % R);
    idx /= R;
    unsigned g = (unsigned)(idx % maxgaps);
    idx /= maxgaps;
    unsigned k = (unsigned)(idx % K);
    idx /= K;
    const BaseText& b = (*base)[idx];
    if (g >= b.toks.size()) return false;  // gap g is *after* token g
    if (r == 0 && g != 0) return false;     // r==0 identical for all gaps: keep g==0 only
    out.assign(k, ' ');
    for (unsigned j = 0; j < b.toks.size(); j++) {
      out += b.toks[j];
      if (j == g)
        for (unsigned q = 0; q < r; q++) out += wsunit;
    }
    return true;
  };
  return f;
}

// LX: every byte value 0..255 placed in a token gap after r genuine whitespace bytes (the exact
// whitespace set, at every position of the cached 64-byte bitmap)
static inline TextFamily make_LX(std::shared_ptr<std::vector<BaseText>> base, unsigned maxgaps) {
  TextFamily f;
  static const unsigned runs[] = {0, 1, 2, 3, 5, 31, 62, 63, 64, 65, 66, 127, 128};
  const unsigned NR = 13;
  f.meta.name = "LX_gap_every_byte";
  f.meta.count = (uint64_t)base->size() * (maxgaps + 1) * NR * 256 * 2;
  f.meta.group = "LX";
  f.meta.rule = "each base text with, in one designated position (before the first token, between tokens, after the last), r in {0,1,2,3,5,31,62..66,127,128} spaces followed by one byte of EVERY value 0..255 (optionally followed by one more space): only SP, TAB, LF, CR may be skipped";
  f.meta.chunk = 8192;
  f.gen = [base, maxgaps](uint64_t idx, std::string& out) {
    unsigned after = (unsigned)(idx % 2);
    idx /= 2;
    unsigned b = (unsigned)(idx % 256);
    idx /= 256;
    unsigned r = runs[idx % 13];
    idx /= 13;
    unsigned g = (unsigned)(idx % (maxgaps + 1));
    idx /= (maxgaps + 1);
    const BaseText& t = (*base)[idx];
    if (g > t.toks.size()) return false;  // g == position before token g ; g == size: after the last token
    out.clear();
    for (unsigned j = 0; j <= t.toks.size(); j++) {
      if (j == g) {
        out.append(r, ' ');
        out.push_back((char)b);
        if (after) out.push_back(' ');
      }
      if (j < t.toks.size()) out += t.toks[j];
    }
    return true;
  };
  return f;
}

// LB2: every assignment of {0,2,3} spaces to all gaps at once, one gap raised to a long run
static inline TextFamily make_LB2(std::shared_ptr<std::vector<BaseText>> base, unsigned maxtoks) {
  TextFamily f;
  static const unsigned ks[] = {0, 1, 2, 63};
  static const unsigned longs[] = {61, 62, 63, 64, 65, 66, 67, 125, 126, 127, 128, 129, 130, 131};
  const unsigned nk = 4, nl = 14;
  uint64_t assign = ipow(3, maxtoks);
  f.meta.name = "LB2_ws_allgaps";
  f.meta.count = (uint64_t)base->size() * nk * assign * maxtoks * nl;
  f.meta.group = "LB2";
  f.meta.rule = "whitespace placement: for leading run k in {0,1,2,63}, every assignment of {0,2,3} spaces to all token gaps at once, with one gap raised to r in {61..67,125..131}";
  f.meta.chunk = 16384;
  f.gen = [base, maxtoks, assign](uint64_t idx, std::string& out) {
    unsigned li = (unsigned)(idx % 14);
    idx /= 14;
    unsigned g = (unsigned)(idx % maxtoks);
    idx /= maxtoks;
    uint64_t as = idx % assign;
    idx /= assign;
    unsigned ki = (unsigned)(idx % 4);
    idx /= 4;
    const BaseText& b = (*base)[idx];
    size_t nt = b.toks.size();
    if (g >= nt) return false;
    // digits of 'as' beyond the token count must be zero to avoid duplicates
    uint64_t hi = as / ipow(3, (unsigned)nt);
    if (hi != 0) return false;
    static const unsigned sp[] = {0, 2, 3};
    out.assign(ks[ki], ' ');
    for (size_t j = 0; j < nt; j++) {
      out += b.toks[j];
      unsigned dgt = (unsigned)((as / ipow(3, (unsigned)j)) % 3);
      unsigned r = (j == g) ? longs[li] : sp[dgt];
      if (j == g && dgt != 0) return false;  // the raised gap's own digit is fixed at 0
      out.append(r, ' ');
    }
    return true;
  };
  return f;
}

// LC: deep prefixes
static inline TextFamily make_LC(unsigned tail_n, bool thorough) {
  TextFamily f;
  std::vector<unsigned> ks = {14, 15, 16, 17, 18, 19, 20, 30, 31, 32, 33, 34, 62, 63, 64, 65, 66, 126, 127, 128, 129, 130, 254, 255, 256, 257, 258, 1022, 1023, 1024, 1025, 1026};
  auto ksp = std::make_shared<std::vector<unsigned>>(ks);
  uint64_t tails = count_upto(10, tail_n);
  // prefix kinds: 0: [^k   1: [^k {   2: {"a": [^k   3: [^k {"a":   ; closers: 0 none, 1 matching closers appended
  f.meta.name = "LC_deep_tail_le" + std::to_string(tail_n);
  f.meta.count = (uint64_t)ks.size() * 4 * 2 * tails;
  f.meta.group = "LC";
  f.meta.rule = "deep prefixes [^k, [^k{, {\"a\":[^k, [^k{\"a\": for k in {14..20,30..34,62..66,126..130,254..258,1022..1026} followed by every LA token string of length <= " +
                std::to_string(tail_n) + ", with and without the matching closers appended (drives the parser node stack, capacity len/2+2 >= 16, to and past its limit)";
  f.meta.chunk = 2048;
  (void)thorough;
  f.gen = [ksp, tails, tail_n](uint64_t idx, std::string& out) {
    uint64_t t = idx % tails;
    idx /= tails;
    unsigned closers = (unsigned)(idx % 2);
    idx /= 2;
    unsigned kind = (unsigned)(idx % 4);
    idx /= 4;
    unsigned k = (*ksp)[idx];
    std::vector<unsigned> d;
    decode_upto(t, 10, tail_n, d);
    out.clear();
    std::string close;
    if (kind == 2) {
      out += "{\"a\":";
      close = "}";
    }
    out.append(k, '[');
    std::string c2(k, ']');
    if (kind == 1) {
      out += "{";
      c2 = "}" + c2;
    }
    if (kind == 3) {
      out += "{\"a\":";
      c2 = "}" + c2;
    }
    for (unsigned x : d) out += la_tokens()[x];
    if (closers) out += c2 + close;
    return true;
  };
  return f;
}

// LM: mutation / truncation closure over a base set
static inline const std::string& mut_bytes() {
  static const std::string s = std::string("[]{},:\"\\eE.-+tx0159 ", 20) + std::string("\x00\x1f\x7f\x80\xff\t\n", 7);
  return s;
}
static inline TextFamily make_LM(std::shared_ptr<std::vector<std::string>> base, unsigned maxlen) {
  TextFamily f;
  const uint64_t nb = mut_bytes().size();
  // ops: 0 prefix(len p) ; 1 substitute at p with byte b ; 2 insert at p byte b ; 3 delete at p
  const uint64_t per = (uint64_t)(maxlen + 1) * 4 * nb;
  f.meta.name = "LM_mutation";
  f.meta.count = (uint64_t)base->size() * per;
  f.meta.group = "LM";
  f.meta.rule = "mutation/truncation closure of " + std::to_string(base->size()) +
                " valid base texts: every byte-prefix, and every single-byte substitution, insertion and deletion at every position with bytes from {structural, digits, \" \\ e E . - + t x SP NUL 0x1f 0x7f 0x80 0xff TAB LF}";
  f.meta.chunk = 8192;
  f.gen = [base, nb, maxlen, per](uint64_t idx, std::string& out) {
    uint64_t bi = idx / per;
    uint64_t r = idx % per;
    unsigned byte_i = (unsigned)(r % nb);
    r /= nb;
    unsigned op = (unsigned)(r % 4);
    r /= 4;
    unsigned p = (unsigned)r;
    const std::string& s = (*base)[bi];
    char b = mut_bytes()[byte_i];
    switch (op) {
      case 0:
        if (byte_i != 0 || p > s.size()) return false;
        out = s.substr(0, p);
        return true;
      case 1:
        if (p >= s.size() || s[p] == b) return false;
        out = s;
        out[p] = b;
        return true;
      case 2:
        if (p > s.size()) return false;
        out = s.substr(0, p) + std::string(1, b) + s.substr(p);
        return true;
      case 3:
        if (byte_i != 0 || p >= s.size()) return false;
        out = s.substr(0, p) + s.substr(p + 1);
        return true;
    }
    return false;
  };
  return f;
}

// wide containers: n default leaves
static inline TextFamily make_LW() {
  TextFamily f;
  std::vector<unsigned> ns;
  for (unsigned i = 0; i <= 40; i++) ns.push_back(i);
  // every residue modulo 8 and 16 on both sides of the power-of-two sizes (unrolled copy loops have remainder cases)
  for (unsigned b : {64u, 128u, 256u, 1024u, 4096u})
    for (unsigned i = b - 9; i <= b + 9; i++) ns.push_back(i);
  for (unsigned i : {2047u, 2048u, 2049u, 2052u, 65535u, 65536u, 65537u}) ns.push_back(i);
  auto nsp = std::make_shared<std::vector<unsigned>>(ns);
  // shape: 0 array of 1 ; 1 array of "a" ; 2 object k_i:1 ; 3 array of [] ; 4 object k_i:{"k":[i]} ; 5 nested array-in-array wide
  f.meta.name = "LW_wide";
  f.meta.count = ns.size() * 6;
  f.meta.group = "LW";
  f.meta.rule = "wide containers with n in {0..40, b-9..b+9 for b in 64,128,256,1024,4096, 2047..2049, 2052; arrays also 65535..65537} children in 6 shapes (exercises the node-copy tails and every count-field width)";
  f.meta.chunk = 8;
  f.gen = [nsp](uint64_t idx, std::string& out) {
    unsigned shape = (unsigned)(idx % 6);
    unsigned n = (*nsp)[idx / 6];
    out.clear();
    if (n > 4200 && (shape == 2 || shape == 4)) return false;  // accessor comparison is quadratic for objects
    auto key = [](unsigned i) { return "\"k" + std::to_string(i) + "\""; };
    switch (shape) {
      case 0: case 1: case 3: {
        out = "[";
        for (unsigned i = 0; i < n; i++) {
          if (i) out += ",";
          out += shape == 0 ? std::to_string(i) : shape == 1 ? "\"s" + std::to_string(i) + "\"" : (i % 2 ? "[]" : "{}");
        }
        out += "]";
        break;
      }
      case 2: case 4: {
        out = "{";
        for (unsigned i = 0; i < n; i++) {
          if (i) out += ",";
          out += key(i) + ":" + (shape == 2 ? std::to_string(i) : "{\"k\":[" + std::to_string(i) + "]}");
        }
        out += "}";
        break;
      }
      case 5: {
        out = "[[";
        for (unsigned i = 0; i < n; i++) {
          if (i) out += ",";
          out += std::to_string(i);
        }
        out += "],{\"a\":[";
        for (unsigned i = 0; i < n; i++) {
          if (i) out += ",";
          out += "null";
        }
        out += "]}]";
        break;
      }
    }
    return true;
  };
  return f;
}

// LH: huge containers (beyond any bulk-copy threshold): n = 2^k-1, 2^k, 2^k+1 children for k = 16..20
static inline TextFamily make_LH(unsigned maxk, bool objects = true) {
  TextFamily f;
  auto nsp = std::make_shared<std::vector<unsigned>>();
  for (unsigned k = 16; k <= maxk; k++)
    for (int d = -1; d <= 1; d++) nsp->push_back((1u << k) + d);
  f.meta.name = "LH_huge";
  f.meta.count = nsp->size() * 3;
  f.meta.group = "LH";
  f.meta.rule = "huge containers with n = 2^k-1, 2^k, 2^k+1 children for k = 16.." + std::to_string(maxk) + " (objects: k <= 19) in 3 shapes: array of integers, array of short strings, object of distinct keys; every element read back (keyed lookups of objects with more than 5000 members: the first 64, the last 64 and every (n/64)-th key)";
  f.meta.chunk = 1;
  f.gen = [nsp, objects](uint64_t idx, std::string& out) {
    unsigned shape = (unsigned)(idx % 3);
    unsigned n = (*nsp)[idx / 3];
    out.clear();
    if (shape == 2 && (!objects || n > (1u << 19) + 1)) return false;
    out.reserve((size_t)n * 12 + 2);
    out = shape == 2 ? "{" : "[";
    for (unsigned i = 0; i < n; i++) {
      if (i) out += ",";
      if (shape == 0)
        out += std::to_string(i);
      else if (shape == 1)
        out += "\"s" + std::to_string(i) + "\"";
      else
        out += "\"k" + std::to_string(i) + "\":" + std::to_string(i);
    }
    out += shape == 2 ? "}" : "]";
    return true;
  };
  return f;
}

// LU: \u escapes of every code point near an encoding-length or surrogate boundary
static inline TextFamily make_LU() {
  TextFamily f;
  auto cps = std::make_shared<std::vector<uint32_t>>();
  auto range = [&](uint32_t a, uint32_t b) {
    for (uint32_t c = a; c <= b; c++) cps->push_back(c);
  };
  range(0x0, 0x100);
  range(0x7f0, 0x810);
  range(0xff0, 0x1010);
  range(0xd7f0, 0xd7ff);
  range(0xe000, 0xe010);
  range(0xfff0, 0xffff);
  range(0x10000, 0x10010);
  range(0x103f0, 0x10410);
  range(0x1fff0, 0x20010);
  range(0xffff0, 0x100010);
  range(0x10fbf0, 0x10fc10);
  range(0x10fff0, 0x10ffff);
  static const unsigned offs[] = {0, 1, 26, 27, 28, 29, 30, 31, 32, 33};
  f.meta.name = "LU_codepoint_boundaries";
  f.meta.count = (uint64_t)cps->size() * 10 * 3 * 2;
  f.meta.group = "LU";
  f.meta.chunk = 1024;
  f.meta.rule = "every code point within 16 of an encoding-length boundary (0x80, 0x800, 0x10000, 0x110000), of the surrogate range and of the planes' ends (" + std::to_string(cps->size()) +
                " code points), written as \\uXXXX or as a surrogate pair in lower / upper case hex, after 0,1,26..33 plain bytes, as root string, array element and object key+value";
  f.gen = [cps](uint64_t idx, std::string& out) {
    unsigned upper = (unsigned)(idx % 2);
    idx /= 2;
    unsigned ctxk = (unsigned)(idx % 3);
    idx /= 3;
    unsigned off = offs[idx % 10];
    uint32_t cp = (*cps)[idx / 10];
    char buf[16];
    std::string esc;
    auto u = [&](unsigned v) {
      snprintf(buf, sizeof buf, upper ? "\\u%04X" : "\\u%04x", v);
      esc += buf;
    };
    if (cp < 0x10000)
      u(cp);
    else {
      u(0xd800 + ((cp - 0x10000) >> 10));
      u(0xdc00 + ((cp - 0x10000) & 0x3ff));
    }
    std::string lit = "\"" + plain(off) + esc + "\"";
    out = ctxk == 0 ? lit : ctxk == 1 ? "[" + lit + ",1]" : "{" + lit + ":" + lit + "}";
    return true;
  };
  return f;
}

// LD: every byte value in every hex-digit slot of a \u escape (single and surrogate pair), the escape standing
// behind a lead that decides which code path meets it: other escapes (an escaped quote, backslash, \n, \u0041 and
// two of them) or a run of 1..70 plain bytes (the digits on either side of every 16 / 32 / 64-byte block end)
static inline TextFamily make_LD() {
  TextFamily f;
  auto leads = std::make_shared<std::vector<std::string>>();
  for (const char* e : {"", "\\\"", "\\\\", "\\n", "\\u0041", "\\\"\\\\", "\\u00e9\\\""}) leads->push_back(e);
  for (unsigned k = 1; k <= 70; k++) leads->push_back(plain(k));
  f.meta.name = "LD_escape_digit_bytes";
  f.meta.count = (uint64_t)leads->size() * 12 * 256 * 2;
  f.meta.group = "LD";
  f.meta.chunk = 2048;
  f.meta.rule = "every byte 0..255 in each of the 4 digit slots of \\u00e9 and the 8 of \\ud83d\\ude00, the escape behind " + std::to_string(leads->size()) +
                " leads (nothing, an escaped quote / backslash / \\n / \\u0041, two escapes, and 1..70 plain bytes), as root string and as object key: accepted iff the byte is a hex digit (and the pair stays a pair)";
  f.gen = [leads](uint64_t idx, std::string& out) {
    unsigned key = (unsigned)(idx % 2);
    idx /= 2;
    unsigned byte = (unsigned)(idx % 256);
    idx /= 256;
    unsigned slot = (unsigned)(idx % 12);
    const std::string& lead = (*leads)[idx / 12];
    std::string esc = slot < 4 ? "\\u00e9" : "\\ud83d\\ude00";
    size_t pos = slot < 4 ? 2 + slot : slot < 8 ? 2 + (slot - 4) : 8 + (slot - 8);
    esc[pos] = (char)byte;
    std::string lit = "\"" + lead + esc + "\"";
    out = key ? "{" + lit + ":1}" : lit;
    return true;
  };
  return f;
}

// LN: numbers with very long digit strings (big-decimal fallback, 800-digit cap, stack buffers)
static inline TextFamily make_LN() {
  TextFamily f;
  static const unsigned ns[] = {17, 18, 19, 20, 21, 22, 100, 300, 500, 700, 799, 800, 801, 850, 1000, 2000};
  static const int xs[] = {-400, -340, -330, -315, -300, -100, -20, 0, 20, 100, 290, 308, 400};
  f.meta.name = "LN_long_numbers";
  f.meta.count = 16ull * 4 * 3 * 13 * 3;
  f.meta.group = "LN";
  f.meta.rule = "numbers with n significant digits for n in {17..22,100,300,500,700,799,800,801,850,1000,2000}, 4 digit patterns (all 9, 123456789 repeated, 1 0..0 1, 5 then 0..0 5), decimal point after the first digit / absent / before all digits, 13 exponents from -400 to 400, as root, array element and member value";
  f.meta.chunk = 32;
  f.gen = [](uint64_t idx, std::string& out) {
    unsigned ctxk = (unsigned)(idx % 3);
    idx /= 3;
    int x = xs[idx % 13];
    idx /= 13;
    unsigned pp = (unsigned)(idx % 3);
    idx /= 3;
    unsigned pat = (unsigned)(idx % 4);
    unsigned n = ns[idx / 4];
    std::string d;
    for (unsigned i = 0; i < n; i++) {
      char c = '0';
      switch (pat) {
        case 0: c = '9'; break;
        case 1: c = (char)('1' + i % 9); break;
        case 2: c = (i == 0 || i + 1 == n) ? '1' : '0'; break;
        case 3: c = (i == 0 || i + 1 == n) ? '5' : '0'; break;
      }
      d.push_back(c);
    }
    std::string num = pp == 0 ? d.substr(0, 1) + "." + d.substr(1) : pp == 1 ? d : "0." + d;
    if (pp == 0 && n == 1) num = d;
    num += "e" + std::to_string(x);
    out = ctxk == 0 ? num : ctxk == 1 ? "[" + num + "]" : "{\"k\":" + num + "}";
    return true;
  };
  return f;
}

// LP: paths
static inline std::vector<std::vector<ref::Step>> make_paths(unsigned depth) {
  std::vector<ref::Step> atoms;
  for (const char* k : {"a", "b", "", "a\n", "]"}) {
    ref::Step s;
    s.key = k;
    atoms.push_back(s);
  }
  for (int i : {0, 1, 2, 17, -1}) {
    ref::Step s;
    s.is_num = true;
    s.num = i;
    atoms.push_back(s);
  }
  std::vector<std::vector<ref::Step>> out;
  out.push_back({});
  size_t b = 0;
  for (unsigned d = 1; d <= depth; d++) {
    size_t e = out.size();
    for (size_t i = b; i < e; i++)
      for (auto& a : atoms) {
        auto p = out[i];
        p.push_back(a);
        out.push_back(p);
      }
    b = e;
  }
  return out;
}
static inline std::string show_path(const std::vector<ref::Step>& p) {
  std::string s = "/";
  for (auto& st : p) {
    if (st.is_num)
      s += std::to_string(st.num);
    else {
      std::string e;
      ref::esc(st.key, e);
      s += e;
    }
    s += "/";
  }
  return s;
}

// All *valid* JSON texts with at most n tokens, generated by grammar (no
// filtering): leaves and keys are given spellings.  Order: by token count,
// then construction order (deterministic), so an index identifies a text.
static inline std::vector<std::string> valid_texts_by_budget(unsigned n, const std::vector<std::string>& leaves,
                                                             const std::vector<std::string>& keys, size_t cap = 0) {
  std::vector<std::vector<std::string>> exact(n + 1), seqA(n + 1), seqO(n + 1);
  for (unsigned b = 1; b <= n; b++) {
    if (b == 1) exact[1] = leaves;
    if (b == 2) {
      exact[2].push_back("[]");
      exact[2].push_back("{}");
    }
    if (b >= 3) {
      for (auto& s : seqA[b - 2]) exact[b].push_back("[" + s + "]");
      for (auto& s : seqO[b - 2]) exact[b].push_back("{" + s + "}");
    }
    // sequences with exactly b tokens (incl. commas)
    seqA[b] = exact[b];
    for (unsigned t1 = 1; t1 + 2 <= b; t1++) {
      unsigned t2 = b - 1 - t1;
      if (t2 < 1) continue;
      for (auto& s : seqA[t1])
        for (auto& e : exact[t2]) seqA[b].push_back(s + "," + e);
    }
    if (b >= 3) {
      for (auto& k : keys)
        for (auto& v : exact[b - 2]) seqO[b].push_back(k + ":" + v);
    }
    for (unsigned t1 = 3; t1 + 4 <= b; t1++) {
      unsigned t2 = b - 1 - t1;  // tokens of the last member
      if (t2 < 3) continue;
      for (auto& s : seqO[t1])
        for (auto& k : keys)
          for (auto& v : exact[t2 - 2]) seqO[b].push_back(s + "," + k + ":" + v);
    }
    if (cap) {
      size_t tot = 0;
      for (unsigned q = 1; q <= b; q++) tot += exact[q].size();
      if (tot > cap) {
        n = b;
        break;
      }
    }
  }
  std::vector<std::string> out;
  for (unsigned b = 1; b <= n; b++)
    for (auto& s : exact[b]) out.push_back(s);
  return out;
}

}  // namespace fam
