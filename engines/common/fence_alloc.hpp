// "Electric fence" allocator for PRODUCTION builds, passed to the library as the Allocator template argument:
// every block ends exactly at the last byte of its mapping and is followed by a PROT_NONE page, so any read or
// write beyond a block faults deterministically.  It complements ASan: the library compiles some fast paths
// (in-page vector reads) only when no sanitizer is active, so ASan never sees them.
// Blocks whose size is a multiple of 8 are 8-byte aligned by construction (the end is page aligned); other
// sizes (string copies: len + 1) start at an odd address, which byte data does not mind.
#pragma once
#include <sys/mman.h>

#include <cstdint>
#include <cstdlib>
#include <cstring>
#include <map>

namespace fa {
struct Table {
  std::map<char*, std::pair<char*, size_t>> live;  // user pointer -> (mapping base, mapping bytes)
  size_t mallocs = 0, frees = 0;
  int errors = 0;
};
static inline Table& table() {
  static Table t;
  return t;
}
class FenceAllocator {
 public:
  static constexpr bool kNeedFree = true;
  static constexpr size_t PG = 4096;
  void* Malloc(size_t size) {
    if (!size) return nullptr;
    size_t pages = (size + PG - 1) / PG;
    char* base = (char*)mmap(nullptr, (pages + 1) * PG, PROT_READ | PROT_WRITE, MAP_PRIVATE | MAP_ANONYMOUS, -1, 0);
    if (base == (char*)MAP_FAILED) return nullptr;
    mprotect(base + pages * PG, PG, PROT_NONE);
    char* p = base + pages * PG - size;
    std::memset(base, 0xA5, (size_t)(p - base));  // what lies before the block is junk, not zeros
    std::memset(p, 0xEE, size);
    table().live[p] = {base, (pages + 1) * PG};
    table().mallocs++;
    return p;
  }
  void* Realloc(void* o, size_t os, size_t ns) {
    if (!ns) {
      Free(o);
      return nullptr;
    }
    void* n = Malloc(ns);
    if (o && n) {
      std::memcpy(n, o, os < ns ? os : ns);
      Free(o);
    }
    return n;
  }
  static void Free(void* p) {
    if (!p) return;
    auto it = table().live.find((char*)p);
    if (it == table().live.end()) {
      table().errors++;
      return;
    }
    munmap(it->second.first, it->second.second);
    table().live.erase(it);
    table().frees++;
  }
  bool operator==(const FenceAllocator&) const { return true; }
  bool operator!=(const FenceAllocator&) const { return false; }
};
}  // namespace fa
