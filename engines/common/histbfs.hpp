// E4: explicit-state breadth-first search over API operation histories.
//
// A state is the operation history that reaches it.  An expansion creates fresh
// real objects, replays the history (asserting that the canonical key equals
// the one recorded when the prefix was first explored), applies one more
// operation from a fixed menu (enabled according to the *model*), checks the
// oracle, and computes the canonical key of the new state.  New keys form the
// next frontier.  Every transition is executed on the real implementation.
//
// A Sim must provide:
//   Sim();                                   fresh real objects + fresh model
//   bool enabled(unsigned op) const;         precondition, from the model only
//   void apply(unsigned op, vr::Ctx& ctx, const std::string& trace);   do it on impl + model, check the oracle
//   std::string key() const;                 canonical state (model value + hidden state that changes futures)
//   static unsigned menu_size();
//   static std::string op_name(unsigned op);
#pragma once
#include <dirent.h>
#include <sys/stat.h>

#include <algorithm>
#include <map>
#include <set>
#include <string>
#include <unordered_set>
#include <vector>

#include "runner.hpp"

namespace hb {

// A history is a string holding 2 bytes per operation code (menu of up to 1024 operations).
static inline size_t hlen(const std::string& h) { return h.size() / 2; }
static inline unsigned hop(const std::string& h, size_t i) { return (unsigned)(uint8_t)h[2 * i] | ((unsigned)(uint8_t)h[2 * i + 1] << 8); }
static inline void hpush(std::string& h, unsigned op) {
  h.push_back((char)(op & 0xff));
  h.push_back((char)(op >> 8));
}
// history <-> 64-bit replay id: length in the top 4 bits, 10 bits per op (max 6 ops)
static inline uint64_t pack(const std::string& h) {
  uint64_t v = (uint64_t)hlen(h) << 60;
  for (size_t i = 0; i < hlen(h) && i < 6; i++) v |= (uint64_t)(hop(h, i) & 1023) << (10 * i);
  return v;
}
static inline std::string unpack(uint64_t v) {
  size_t n = (size_t)(v >> 60);
  std::string h;
  for (size_t i = 0; i < n && i < 6; i++) hpush(h, (unsigned)((v >> (10 * i)) & 1023));
  return h;
}
template <class Sim>
static std::string trace_of(const std::string& h) {
  std::string t;
  for (size_t i = 0; i < hlen(h); i++) {
    if (!t.empty()) t += " ; ";
    t += Sim::op_name(hop(h, i));
  }
  return t;
}

struct Stats {
  uint64_t states = 0, transitions = 0, max_depth_completed = 0;
  std::set<std::string> outcomes;  // distinct observable outcomes (bounded sample)
  bool exhaustive = true;
  std::vector<std::string> sample_traces;
};

template <class Sim>
struct Explorer {
  vr::Runner& R;
  std::string name;
  std::string rule;
  unsigned max_depth;
  Stats st;
  std::string tmpdir;

  Explorer(vr::Runner& r, const std::string& nm, const std::string& rl, unsigned depth) : R(r), name(nm), rule(rl), max_depth(depth) {}

  // replay one packed history (used by --replay)
  int replay(uint64_t id) {
    std::string h = unpack(id);
    vr::Ctx ctx;
    vr::Family f;
    f.name = name;
    ctx.fam = &f;
    ctx.replay = true;
    printf("REPLAY-CASE history: %s\n", trace_of<Sim>(h).c_str());
    fflush(stdout);
    std::vector<std::string> trs;
    for (size_t i = 0; i < hlen(h); i++) trs.push_back(trace_of<Sim>(h.substr(0, 2 * (i + 1))));
    ctx.replay_report.reserve(1 << 16);
    Sim sim;
    for (size_t i = 0; i < hlen(h); i++) {
      unsigned op = hop(h, i);
      if (!sim.enabled(op)) {
        printf("REPLAY-ERROR op %s not enabled at step %zu\n", Sim::op_name(op).c_str(), i);
        return 2;
      }
      // exactly as in the search: the prefix is replayed quietly, the oracle runs on the last operation
      if (i + 1 < hlen(h)) {
        vr::Ctx quiet;
        quiet.replay = true;
        quiet.quiet = true;
        sim.apply(op, quiet, trs[i]);
      } else
        sim.apply(op, ctx, trs[i]);
      printf("  after %-40s key=%s\n", Sim::op_name(op).c_str(), sim.key().substr(0, 300).c_str());
      fflush(stdout);
    }
    if (!ctx.replay_report.empty()) {
      fputs(ctx.replay_report.c_str(), stdout);
      return 1;
    }
    printf("REPLAY-OK\n");
    return 0;
  }

  void run() {
    char tmpl[] = "/tmp/verif-bfs-XXXXXX";
    char* td = mkdtemp(tmpl);
    if (!td) {
      perror("mkdtemp");
      exit(2);
    }
    tmpdir = td;
    std::vector<std::string> frontier = {std::string()};
    std::vector<std::string> frontier_keys;
    {
      Sim s0;
      frontier_keys.push_back(s0.key());
    }
    std::unordered_set<std::string> seen;
    seen.insert(frontier_keys[0]);
    st.states = 1;
    const unsigned M = Sim::menu_size();
    for (unsigned depth = 0; depth < max_depth; depth++) {
      vr::Family f;
      f.name = name + "_depth" + std::to_string(depth + 1);
      f.count = frontier.size();
      f.group = f.name;
      f.chunk = std::max<uint64_t>(1, std::min<uint64_t>(256, frontier.size() / 64 + 1));
      f.rule = rule + " [level " + std::to_string(depth + 1) + ": every enabled operation applied to each of the " + std::to_string(frontier.size()) + " distinct states reached by histories of length " + std::to_string(depth) + "]";
      const std::vector<std::string>& fr = frontier;
      const std::vector<std::string>& fk = frontier_keys;
      const std::string dir = tmpdir;
      vr::CheckFn check = [&fr, &fk, M, dir, depth](const vr::Family&, uint64_t idx, vr::Ctx& ctx) {
        const std::string& h = fr[idx];
        static FILE* out = nullptr;
        static int out_depth = -1;
        if (!out || out_depth != (int)depth) {
          if (out) fclose(out);
          std::string p = dir + "/d" + std::to_string(depth) + "-" + std::to_string(getpid());
          out = fopen(p.c_str(), "ab");
          out_depth = (int)depth;
        }
        // which operations are enabled in this state (decided by the model) is computed once
        std::vector<unsigned> en;
        {
          const std::string trh0 = trace_of<Sim>(h);
          Sim probe;
          bool ok0 = true;
          for (size_t i = 0; i < hlen(h) && ok0; i++) {
            unsigned o = hop(h, i);
            if (!probe.enabled(o)) {
              ok0 = false;
              break;
            }
            vr::Ctx quiet;
            quiet.replay = true;
            quiet.quiet = true;
            probe.apply(o, quiet, trh0);
          }
          if (!ok0 || probe.key() != fk[idx]) {
            ctx.publish(pack(h));
            ctx.violation("replay_divergence", "harness_replay_divergence", trh0, "harness error: replaying the history does not reproduce the recorded state key");
            return;
          }
          for (unsigned op = 0; op < M; op++)
            if (probe.enabled(op)) en.push_back(op);
        }
        for (unsigned op : en) {
          // all harness strings are built BEFORE the simulated objects exist, so that a
          // Sim may compare heap usage at its construction with heap usage after teardown
          std::string h2 = h;
          hpush(h2, op);
          const std::string tr = trace_of<Sim>(h2);
          const std::string trh = trace_of<Sim>(h);
          Sim sim;
          bool ok = true;
          for (size_t i = 0; i < hlen(h); i++) {
            unsigned o = hop(h, i);
            if (!sim.enabled(o)) {
              ok = false;
              break;
            }
            // prefix already checked when it was first explored: replay without recording duplicates
            vr::Ctx quiet;
            quiet.replay = true;
            quiet.quiet = true;
            sim.apply(o, quiet, trh);
          }
          if (!ok || sim.key() != fk[idx]) {
            ctx.publish(pack(h));
            ctx.violation("replay_divergence", "harness_replay_divergence", trh, "harness error: replaying the history does not reproduce the recorded state key");
            return;
          }
          if (!sim.enabled(op)) continue;
          ctx.publish(pack(h2));
          ctx.eval();
          ctx.nontriv();
          if (ctx.want_sample) ctx.sample(tr);
          sim.apply(op, ctx, tr);
          std::string k = sim.key();
          uint32_t kl = (uint32_t)k.size(), hl = (uint32_t)h2.size();
          fwrite(&kl, 4, 1, out);
          fwrite(k.data(), 1, kl, out);
          fwrite(&hl, 4, 1, out);
          fwrite(h2.data(), 1, hl, out);
        }
        fflush(out);
      };
      R.run(f, check);
      auto& fres = R.results().back();
      st.transitions += fres.evals;
      if (!fres.exhaustive) {
        st.exhaustive = false;
        break;
      }
      // merge emissions
      std::map<std::string, std::string> next;  // key -> smallest history (deterministic)
      DIR* d = opendir(tmpdir.c_str());
      std::vector<std::string> files;
      if (d) {
        while (dirent* e = readdir(d)) {
          std::string n = e->d_name;
          if (n.rfind("d" + std::to_string(depth) + "-", 0) == 0) files.push_back(tmpdir + "/" + n);
        }
        closedir(d);
      }
      for (auto& p : files) {
        FILE* fp = fopen(p.c_str(), "rb");
        if (!fp) continue;
        while (true) {
          uint32_t kl, hl;
          if (fread(&kl, 4, 1, fp) != 1) break;
          std::string k(kl, 0);
          if (kl && fread(&k[0], 1, kl, fp) != kl) break;
          if (fread(&hl, 4, 1, fp) != 1) break;
          std::string h(hl, 0);
          if (hl && fread(&h[0], 1, hl, fp) != hl) break;
          if (st.outcomes.size() < 100000) st.outcomes.insert(k);
          if (seen.count(k)) continue;
          auto it = next.find(k);
          if (it == next.end() || h < it->second) next[k] = h;
        }
        fclose(fp);
        unlink(p.c_str());
      }
      st.max_depth_completed = depth + 1;
      frontier.clear();
      frontier_keys.clear();
      std::vector<std::pair<std::string, std::string>> ord;  // (history, key)
      for (auto& kv : next) ord.emplace_back(kv.second, kv.first);
      std::sort(ord.begin(), ord.end());
      for (auto& hk : ord) {
        seen.insert(hk.second);
        frontier.push_back(hk.first);
        frontier_keys.push_back(hk.second);
      }
      st.states += frontier.size();
      if (st.sample_traces.size() < 8 && !frontier.empty()) {
        st.sample_traces.push_back(trace_of<Sim>(frontier.front()));
        st.sample_traces.push_back(trace_of<Sim>(frontier.back()));
      }
      fprintf(stderr, "[bfs] %s depth %u: new states %zu, total states %llu, transitions %llu\n", name.c_str(), depth + 1, frontier.size(), (unsigned long long)st.states,
              (unsigned long long)st.transitions);
      if (frontier.empty()) break;
      if (R.past_deadline()) {
        st.exhaustive = false;
        break;
      }
    }
    rmdir(tmpdir.c_str());
  }

  std::string extra_json() const {
    std::string o = "\"states\": " + std::to_string(st.states) + ", \"transitions\": " + std::to_string(st.transitions) +
                    ", \"max_depth_completed\": " + std::to_string(st.max_depth_completed) + ", \"distinct_outcomes\": " + std::to_string(st.outcomes.size()) +
                    ", \"bfs_exhaustive\": " + (st.exhaustive ? "true" : "false") + ", \"sample_traces\": [";
    for (size_t i = 0; i < st.sample_traces.size(); i++) o += (i ? ", " : "") + vr::jstr(st.sample_traces[i]);
    o += "]";
    return o;
  }
};

}  // namespace hb
