// E2: deliberately boring reference model of RFC 8259 JSON, written for the
// verification harness.  Scalar, recursive descent, no SIMD, no tricks.
//  * no UTF-8 validation (the properties say the library does not validate)
//  * raw bytes < 0x20 and malformed escapes inside strings are rejected
//  * surrogates must be paired high+low
//  * numbers: integer spelling that fits -> Uint (value >= 0) / Sint (value < 0),
//    everything else -> strtod (glibc, correctly rounded); +-inf -> reject (Infinity)
//  * duplicates and member order are kept
#pragma once
#include <cerrno>
#include <cmath>
#include <cstdint>
#include <cstdlib>
#include <cstring>
#include <string>
#include <utility>
#include <vector>

namespace ref {

enum Kind { Null, False, True, Uint, Sint, Real, Str, Arr, Obj };

struct Value {
  Kind k = Null;
  uint64_t u = 0;  // Uint: value; Sint: two's complement bits; Real: bit pattern
  bool neg_zero_int = false;  // the spelling was the integer "-0"
  bool aux = false;           // free for engines (domexplore: "this object has a lookup map")
  int skind = 0;              // free for engines (domexplore: string ownership kind in the model)
  std::string s;
  std::vector<Value> a;
  std::vector<std::pair<std::string, Value>> o;

  static Value mk(Kind k) {
    Value v;
    v.k = k;
    return v;
  }
  static Value mkU(uint64_t u) {
    Value v;
    v.k = Uint;
    v.u = u;
    return v;
  }
  static Value mkI(int64_t i) {
    Value v;
    v.k = i < 0 ? Sint : Uint;
    v.u = (uint64_t)i;
    return v;
  }
  static Value mkD(double d) {
    Value v;
    v.k = Real;
    std::memcpy(&v.u, &d, 8);
    return v;
  }
  static Value mkS(std::string s) {
    Value v;
    v.k = Str;
    v.s = std::move(s);
    return v;
  }
  double dbl() const {
    double d;
    std::memcpy(&d, &u, 8);
    return d;
  }
  bool isContainer() const { return k == Arr || k == Obj; }
  const Value* find(const std::string& key) const {  // first match
    for (auto& m : o)
      if (m.first == key) return &m.second;
    return nullptr;
  }
  Value* find(const std::string& key) {
    for (auto& m : o)
      if (m.first == key) return &m.second;
    return nullptr;
  }
};

enum Fault {
  FNone = 0,
  FStructure,     // grammar violation outside strings/numbers
  FNumberSyntax,  // malformed number
  FInfinity,      // number overflows double
  FStrControl,    // raw byte < 0x20 in string
  FStrEscape,     // unknown escape
  FStrUnicode,    // bad \u (non hex, bad surrogate)
  FTruncated      // input ended inside a value
};

// fault classes present in a string literal, as a bit set
enum { SC_CONTROL = 1, SC_ESCAPE = 2, SC_UNICODE = 4 };

struct Result {
  bool ok = false;
  Value v;
  size_t fault_off = 0;
  Fault fault = FNone;
  // "lenient" analysis (see Parser::lenient): the text is grammar-valid if
  // terminated-but-malformed string literals and overflowing numbers are
  // tolerated.
  bool lenient_ok = false;
  int bad_literals = 0;       // terminated literals with a fault inside
  int bad_literal_classes = 0;  // SC_* of the (single) bad literal
  int overflow_numbers = 0;
  size_t tokens = 0;  // number of tokens consumed before stopping
};

static inline bool is_ws(uint8_t c) {
  return c == ' ' || c == '\t' || c == '\n' || c == '\r';
}
static inline int hexval(uint8_t c) {
  if (c >= '0' && c <= '9') return c - '0';
  if (c >= 'a' && c <= 'f') return c - 'a' + 10;
  if (c >= 'A' && c <= 'F') return c - 'A' + 10;
  return -1;
}
static inline void put_utf8(uint32_t cp, std::string& out) {
  if (cp <= 0x7f)
    out.push_back((char)cp);
  else if (cp <= 0x7ff) {
    out.push_back((char)(0xc0 | (cp >> 6)));
    out.push_back((char)(0x80 | (cp & 63)));
  } else if (cp <= 0xffff) {
    out.push_back((char)(0xe0 | (cp >> 12)));
    out.push_back((char)(0x80 | ((cp >> 6) & 63)));
    out.push_back((char)(0x80 | (cp & 63)));
  } else {
    out.push_back((char)(0xf0 | (cp >> 18)));
    out.push_back((char)(0x80 | ((cp >> 12) & 63)));
    out.push_back((char)(0x80 | ((cp >> 6) & 63)));
    out.push_back((char)(0x80 | (cp & 63)));
  }
}

// Decode the body of a string literal.  p points just after the opening quote.
// Returns: 1 ok (out = decoded, *end = index after closing quote),
//          0 malformed, -1 truncated (no closing quote before n).
// classes receives the SC_* set of all faults seen before the terminating quote
// (the terminating quote is the first quote not preceded by an odd run of
// backslashes, i.e. found with the "backslash skips one byte" rule).
static inline int decode_string(const uint8_t* p, size_t n, size_t i, std::string& out,
                                size_t* end, int* classes, size_t* first_fault_off,
                                Fault* first_fault) {
  out.clear();
  int cls = 0;
  bool any_fault = false;
  auto fault = [&](int c, Fault f, size_t off) {
    cls |= c;
    if (!any_fault) {
      any_fault = true;
      if (first_fault_off) *first_fault_off = off;
      if (first_fault) *first_fault = f;
    }
  };
  while (true) {
    if (i >= n) {
      if (classes) *classes = cls;
      if (!any_fault) {
        if (first_fault_off) *first_fault_off = n;
        if (first_fault) *first_fault = FTruncated;
      }
      return -1;
    }
    uint8_t c = p[i];
    if (c == '"') {
      if (end) *end = i + 1;
      if (classes) *classes = cls;
      return any_fault ? 0 : 1;
    }
    if (c < 0x20) {
      fault(SC_CONTROL, FStrControl, i);
      i++;
      continue;
    }
    if (c != '\\') {
      out.push_back((char)c);
      i++;
      continue;
    }
    // escape
    if (i + 1 >= n) {
      i = n;  // truncated inside escape
      continue;
    }
    uint8_t e = p[i + 1];
    switch (e) {
      case '"': out.push_back('"'); i += 2; continue;
      case '\\': out.push_back('\\'); i += 2; continue;
      case '/': out.push_back('/'); i += 2; continue;
      case 'b': out.push_back('\b'); i += 2; continue;
      case 'f': out.push_back('\f'); i += 2; continue;
      case 'n': out.push_back('\n'); i += 2; continue;
      case 'r': out.push_back('\r'); i += 2; continue;
      case 't': out.push_back('\t'); i += 2; continue;
      case 'u': break;
      default:
        fault(SC_ESCAPE, FStrEscape, i);
        if (e < 0x20) fault(SC_CONTROL, FStrControl, i + 1);  // the escaped byte is itself a raw control byte
        i += 2;
        continue;
    }
    // \uXXXX
    auto hex4 = [&](size_t at, uint32_t& cp) -> bool {
      if (at + 4 > n) return false;
      uint32_t v = 0;
      for (int k = 0; k < 4; k++) {
        int h = hexval(p[at + k]);
        if (h < 0) return false;
        v = v * 16 + (uint32_t)h;
      }
      cp = v;
      return true;
    };
    uint32_t cp = 0;
    if (!hex4(i + 2, cp)) {
      fault(SC_UNICODE, FStrUnicode, i);
      i += 2;  // resynchronise right after "\u"
      continue;
    }
    if (cp >= 0xd800 && cp < 0xdc00) {
      uint32_t lo = 0;
      if (i + 7 < n && p[i + 6] == '\\' && p[i + 7] == 'u' && hex4(i + 8, lo) &&
          lo >= 0xdc00 && lo < 0xe000) {
        put_utf8(0x10000 + ((cp - 0xd800) << 10) + (lo - 0xdc00), out);
        i += 12;
        continue;
      }
      fault(SC_UNICODE, FStrUnicode, i);
      i += 6;
      continue;
    }
    if (cp >= 0xdc00 && cp < 0xe000) {
      fault(SC_UNICODE, FStrUnicode, i);
      i += 6;
      continue;
    }
    put_utf8(cp, out);
    i += 6;
  }
}

struct Parser {
  const uint8_t* p;
  size_t n;
  size_t i = 0;
  bool lenient = false;  // tolerate terminated bad literals / overflowing numbers
  Result* r;
  int depth = 0;

  void ws() {
    while (i < n && is_ws(p[i])) i++;
  }
  bool fail(Fault f, size_t off) {
    if (r->fault == FNone) {
      r->fault = f;
      r->fault_off = off;
    }
    return false;
  }
  bool lit(const char* w, Value& out, Kind k) {
    size_t L = std::strlen(w);
    for (size_t j = 0; j < L; j++) {
      if (i + j >= n) return fail(FTruncated, n);
      if (p[i + j] != (uint8_t)w[j]) return fail(FStructure, i + j);
    }
    i += L;
    out = Value::mk(k);
    return true;
  }
  bool number(Value& out) {
    size_t s = i;
    bool neg = false;
    if (i < n && p[i] == '-') {
      neg = true;
      i++;
    }
    if (i >= n) return fail(FTruncated, n);
    if (p[i] == '0') {
      i++;
    } else if (p[i] >= '1' && p[i] <= '9') {
      while (i < n && p[i] >= '0' && p[i] <= '9') i++;
    } else
      return fail(FNumberSyntax, i);
    bool integer = true;
    if (i < n && p[i] == '.') {
      integer = false;
      i++;
      if (i >= n) return fail(FTruncated, n);
      if (!(p[i] >= '0' && p[i] <= '9')) return fail(FNumberSyntax, i);
      while (i < n && p[i] >= '0' && p[i] <= '9') i++;
    }
    if (i < n && (p[i] == 'e' || p[i] == 'E')) {
      integer = false;
      i++;
      if (i < n && (p[i] == '+' || p[i] == '-')) i++;
      if (i >= n) return fail(FTruncated, n);
      if (!(p[i] >= '0' && p[i] <= '9')) return fail(FNumberSyntax, i);
      while (i < n && p[i] >= '0' && p[i] <= '9') i++;
    }
    // value
    if (integer) {
      size_t ds = s + (neg ? 1 : 0);
      size_t nd = i - ds;
      // skip would-be leading zeros: grammar guarantees none except "0"
      bool fits = false;
      uint64_t mag = 0;
      if (nd <= 20) {
        unsigned __int128 acc = 0;
        for (size_t j = ds; j < i; j++) acc = acc * 10 + (p[j] - '0');
        if (acc <= (unsigned __int128)UINT64_MAX) {
          mag = (uint64_t)acc;
          fits = true;
        }
      }
      if (fits) {
        if (!neg) {
          out = Value::mkU(mag);
          return true;
        }
        if (mag == 0) {
          out = Value::mkU(0);
          out.neg_zero_int = true;
          return true;
        }
        if (mag <= (uint64_t)1 << 63) {
          out.k = Sint;
          out.u = (uint64_t)0 - mag;
          return true;
        }
      }
    }
    std::string tmp((const char*)p + s, i - s);
    errno = 0;
    double d = std::strtod(tmp.c_str(), nullptr);
    // infinity is recognised by its bit pattern: the harness is also compiled with -ffast-math, where isinf() folds to false
    uint64_t dbits;
    std::memcpy(&dbits, &d, 8);
    if ((dbits << 1) == 0xFFE0000000000000ull) {
      r->overflow_numbers++;
      if (!lenient) return fail(FInfinity, s);
    }
    out = Value::mkD(d);
    return true;
  }
  bool string(std::string& out) {
    // p[i] == '"'
    size_t end = 0, foff = 0;
    int cls = 0;
    Fault ff = FNone;
    int rc = decode_string(p, n, i + 1, out, &end, &cls, &foff, &ff);
    if (rc == 1) {
      i = end;
      return true;
    }
    if (rc == 0) {
      r->bad_literals++;
      r->bad_literal_classes |= cls;
      if (lenient) {
        out.clear();
        i = end;
        return true;
      }
      return fail(ff, foff);
    }
    return fail(ff == FNone ? FTruncated : ff, foff);
  }
  bool value(Value& out) {
    ws();
    if (i >= n) return fail(FTruncated, n);
    uint8_t c = p[i];
    r->tokens++;
    switch (c) {
      case 'n': return lit("null", out, Null);
      case 't': return lit("true", out, True);
      case 'f': return lit("false", out, False);
      case '"': {
        out = Value::mk(Str);
        return string(out.s);
      }
      case '[': {
        i++;
        out = Value::mk(Arr);
        ws();
        if (i < n && p[i] == ']') {
          i++;
          r->tokens++;
          return true;
        }
        while (true) {
          Value e;
          if (!value(e)) return false;
          out.a.push_back(std::move(e));
          ws();
          if (i >= n) return fail(FTruncated, n);
          r->tokens++;
          if (p[i] == ',') {
            i++;
            continue;
          }
          if (p[i] == ']') {
            i++;
            return true;
          }
          return fail(FStructure, i);
        }
      }
      case '{': {
        i++;
        out = Value::mk(Obj);
        ws();
        if (i < n && p[i] == '}') {
          i++;
          r->tokens++;
          return true;
        }
        while (true) {
          ws();
          if (i >= n) return fail(FTruncated, n);
          if (p[i] != '"') return fail(FStructure, i);
          r->tokens++;
          std::string key;
          if (!string(key)) return false;
          ws();
          if (i >= n) return fail(FTruncated, n);
          if (p[i] != ':') return fail(FStructure, i);
          r->tokens++;
          i++;
          Value e;
          if (!value(e)) return false;
          out.o.emplace_back(std::move(key), std::move(e));
          ws();
          if (i >= n) return fail(FTruncated, n);
          r->tokens++;
          if (p[i] == ',') {
            i++;
            continue;
          }
          if (p[i] == '}') {
            i++;
            return true;
          }
          return fail(FStructure, i);
        }
      }
      default:
        if (c == '-' || (c >= '0' && c <= '9')) return number(out);
        return fail(FStructure, i);
    }
  }
  bool text(Value& out) {
    if (!value(out)) return false;
    ws();
    if (i < n) return fail(FStructure, i);
    return true;
  }
};

static inline Result parse(const uint8_t* p, size_t n) {
  Result r;
  {
    Parser ps{p, n};
    ps.r = &r;
    r.ok = ps.text(r.v);
  }
  if (!r.ok) {
    // lenient pass: is it grammar-valid modulo bad literals / overflowing numbers?
    Result r2;
    Parser ps{p, n};
    ps.lenient = true;
    ps.r = &r2;
    Value tmp;
    r.lenient_ok = ps.text(tmp);
    r.bad_literals = r2.bad_literals;
    r.bad_literal_classes = r2.bad_literal_classes;
    r.overflow_numbers = r2.overflow_numbers;
  } else {
    r.lenient_ok = true;
  }
  return r;
}
static inline Result parse(const std::string& s) {
  return parse((const uint8_t*)s.data(), s.size());
}

// release all heap memory held by a value (plain assignment of an empty value may keep
// std::string / std::vector capacity, which disturbs heap-balance oracles)
static inline void release(Value& v) {
  Value tmp;
  std::swap(v, tmp);
}

// value equality: objects order-insensitive (first match wins; callers use it
// on duplicate-free values where that matters), number kinds distinguished,
// doubles by bit pattern.
static inline bool equal(const Value& a, const Value& b) {
  if (a.k != b.k) return false;
  switch (a.k) {
    case Null: case False: case True: return true;
    case Uint: case Sint: case Real: return a.u == b.u;
    case Str: return a.s == b.s;
    case Arr:
      if (a.a.size() != b.a.size()) return false;
      for (size_t i = 0; i < a.a.size(); i++)
        if (!equal(a.a[i], b.a[i])) return false;
      return true;
    case Obj:
      if (a.o.size() != b.o.size()) return false;
      for (auto& m : a.o) {
        const Value* x = b.find(m.first);
        if (!x || !equal(m.second, *x)) return false;
      }
      return true;
  }
  return false;
}
// structural identity: member order and duplicates significant
static inline bool identical(const Value& a, const Value& b) {
  if (a.k != b.k) return false;
  switch (a.k) {
    case Null: case False: case True: return true;
    case Uint: case Sint: case Real: return a.u == b.u;
    case Str: return a.s == b.s;
    case Arr:
      if (a.a.size() != b.a.size()) return false;
      for (size_t i = 0; i < a.a.size(); i++)
        if (!identical(a.a[i], b.a[i])) return false;
      return true;
    case Obj:
      if (a.o.size() != b.o.size()) return false;
      for (size_t i = 0; i < a.o.size(); i++)
        if (a.o[i].first != b.o[i].first || !identical(a.o[i].second, b.o[i].second))
          return false;
      return true;
  }
  return false;
}
static inline bool has_dup_keys(const Value& v) {
  if (v.k == Arr) {
    for (auto& e : v.a)
      if (has_dup_keys(e)) return true;
  } else if (v.k == Obj) {
    for (size_t i = 0; i < v.o.size(); i++) {
      for (size_t j = i + 1; j < v.o.size(); j++)
        if (v.o[i].first == v.o[j].first) return true;
      if (has_dup_keys(v.o[i].second)) return true;
    }
  }
  return false;
}

// witness printer (not used as an oracle): JSON-ish, numbers tagged by kind
static inline void esc(const std::string& s, std::string& out) {
  static const char* hx = "0123456789abcdef";
  out.push_back('"');
  for (unsigned char c : s) {
    if (c == '"' || c == '\\') {
      out.push_back('\\');
      out.push_back((char)c);
    } else if (c < 0x20 || c >= 0x7f) {
      out += "\\u00";
      out.push_back(hx[c >> 4]);
      out.push_back(hx[c & 15]);
    } else
      out.push_back((char)c);
  }
  out.push_back('"');
}
static inline void show(const Value& v, std::string& out) {
  char buf[64];
  switch (v.k) {
    case Null: out += "null"; break;
    case False: out += "false"; break;
    case True: out += "true"; break;
    case Uint: snprintf(buf, sizeof buf, "%lluu", (unsigned long long)v.u); out += buf; break;
    case Sint: snprintf(buf, sizeof buf, "%llds", (long long)(int64_t)v.u); out += buf; break;
    case Real: snprintf(buf, sizeof buf, "%.17gd[%016llx]", v.dbl(), (unsigned long long)v.u); out += buf; break;
    case Str: esc(v.s, out); break;
    case Arr:
      out.push_back('[');
      for (size_t i = 0; i < v.a.size(); i++) {
        if (i) out.push_back(',');
        show(v.a[i], out);
      }
      out.push_back(']');
      break;
    case Obj:
      out.push_back('{');
      for (size_t i = 0; i < v.o.size(); i++) {
        if (i) out.push_back(',');
        esc(v.o[i].first, out);
        out.push_back(':');
        show(v.o[i].second, out);
      }
      out.push_back('}');
      break;
  }
}
static inline std::string show(const Value& v) {
  std::string s;
  show(v, s);
  return s;
}

// A plain, canonical JSON writer for reference values (used to build input
// texts from values; strings are escaped minimally; doubles are not expected).
static inline void write_json(const Value& v, std::string& out) {
  char buf[64];
  switch (v.k) {
    case Null: out += "null"; break;
    case False: out += "false"; break;
    case True: out += "true"; break;
    case Uint: snprintf(buf, sizeof buf, "%llu", (unsigned long long)v.u); out += buf; break;
    case Sint: snprintf(buf, sizeof buf, "%lld", (long long)(int64_t)v.u); out += buf; break;
    case Real: {
      snprintf(buf, sizeof buf, "%.17g", v.dbl());
      out += buf;
      if (!std::strpbrk(buf, ".eE")) out += ".0";
      break;
    }
    case Str: {
      static const char* hx = "0123456789abcdef";
      out.push_back('"');
      for (unsigned char c : v.s) {
        if (c == '"' || c == '\\') {
          out.push_back('\\');
          out.push_back((char)c);
        } else if (c == '\b' || c == '\f' || c == '\n' || c == '\r' || c == '\t') {
          out.push_back('\\');
          out.push_back(c == '\b' ? 'b' : c == '\f' ? 'f' : c == '\n' ? 'n' : c == '\r' ? 'r' : 't');
        } else if (c < 0x20) {
          out += "\\u00";
          out.push_back(hx[c >> 4]);
          out.push_back(hx[c & 15]);
        } else
          out.push_back((char)c);
      }
      out.push_back('"');
      break;
    }
    case Arr:
      out.push_back('[');
      for (size_t i = 0; i < v.a.size(); i++) {
        if (i) out.push_back(',');
        write_json(v.a[i], out);
      }
      out.push_back(']');
      break;
    case Obj:
      out.push_back('{');
      for (size_t i = 0; i < v.o.size(); i++) {
        if (i) out.push_back(',');
        write_json(Value::mkS(v.o[i].first), out);
        out.push_back(':');
        write_json(v.o[i].second, out);
      }
      out.push_back('}');
      break;
  }
}
static inline std::string write_json(const Value& v) {
  std::string s;
  write_json(v, s);
  return s;
}

// JSON-pointer style path step
struct Step {
  bool is_num = false;
  int num = 0;
  std::string key;
};
static inline const Value* at(const Value& root, const std::vector<Step>& path) {
  const Value* cur = &root;
  for (auto& st : path) {
    if (st.is_num) {
      if (cur->k != Arr) return nullptr;
      if (st.num < 0 || (size_t)st.num >= cur->a.size()) return nullptr;
      cur = &cur->a[(size_t)st.num];
    } else {
      if (cur->k != Obj) return nullptr;
      const Value* x = cur->find(st.key);
      if (!x) return nullptr;
      cur = x;
    }
  }
  return cur;
}

}  // namespace ref
