// E3: fork-based exhaustive runner with crash attribution ("sanitizer as oracle").
//
// A *family* is a finite, explicitly indexed set of cases 0..count-1.  The
// runner forks W workers; each repeatedly claims a chunk of indices from a
// shared counter and calls the engine's check(family, idx, ctx).  Before every
// case the worker publishes (family, idx) in a shared slot, so when a worker
// dies (ASan abort, SEGV on a guard page, assert) the parent knows exactly
// which case killed it, records a "crash" violation and restarts a worker on
// the rest of the chunk.  Every count in the evidence comes from these shared
// counters.
#pragma once
#include <signal.h>
#include <sys/mman.h>
#include <sys/wait.h>
#include <unistd.h>

#include <atomic>
#include <chrono>
#include <cstdarg>
#include <cstdint>
#include <cstdio>
#include <cstdlib>
#include <cstring>
#include <functional>
#include <string>
#include <vector>

namespace vr {

static inline double now_s() {
  using namespace std::chrono;
  return duration<double>(steady_clock::now().time_since_epoch()).count();
}

static inline std::string hex(const void* p, size_t n) {
  static const char* hx = "0123456789abcdef";
  std::string s;
  const unsigned char* b = (const unsigned char*)p;
  for (size_t i = 0; i < n; i++) {
    s.push_back(hx[b[i] >> 4]);
    s.push_back(hx[b[i] & 15]);
  }
  return s;
}
static inline std::string hex(const std::string& s) { return hex(s.data(), s.size()); }
static inline std::string unhex(const std::string& h) {
  std::string s;
  auto v = [](char c) { return c <= '9' ? c - '0' : (c | 32) - 'a' + 10; };
  for (size_t i = 0; i + 1 < h.size(); i += 2) s.push_back((char)(v(h[i]) * 16 + v(h[i + 1])));
  return s;
}
static inline std::string jstr(const std::string& s) {
  static const char* hx = "0123456789abcdef";
  std::string o = "\"";
  for (unsigned char c : s) {
    if (c == '"' || c == '\\') {
      o.push_back('\\');
      o.push_back((char)c);
    } else if (c < 0x20 || c >= 0x7f) {
      o += "\\u00";
      o.push_back(hx[c >> 4]);
      o.push_back(hx[c & 15]);
    } else
      o.push_back((char)c);
  }
  o.push_back('"');
  return o;
}

static inline std::string jstr_fwd(const std::string& s) { return jstr(s); }
constexpr int kMaxWorkers = 64;
constexpr int kMaxViol = 64;
constexpr int kMaxSamples = 12;
constexpr int kMaxCounters = 16;

struct ViolRec {
  char family[48];
  uint64_t idx;
  uint64_t chunk_begin;  // first case the reporting worker ran in this chunk (for sequence replay)
  char kind[48];
  char cls[64];        // classification tag used to match known findings
  char detail[1024];   // human readable
  char input_hex[2048];
};
struct SampleRec {
  uint64_t idx;
  char text[256];
};
struct Slot {
  std::atomic<uint64_t> alt_id;  // engine-defined replay id of the case in flight (0: use idx)
  std::atomic<uint64_t> idx;
  std::atomic<uint64_t> chunk_end;
  std::atomic<int> active;
};
struct ClsRec {
  char cls[64];
  std::atomic<uint64_t> count;
};
constexpr int kMaxCls = 128;
constexpr int kPerClassRecords = 3;
struct Shared {
  std::atomic<int> cls_lock;
  int ncls;
  ClsRec cls[kMaxCls];
  std::atomic<uint64_t> next;
  std::atomic<uint64_t> evals;
  std::atomic<uint64_t> nontrivial;
  std::atomic<uint64_t> skipped;
  std::atomic<uint64_t> counters[kMaxCounters];
  std::atomic<uint64_t> viol_total;
  std::atomic<int> nviol;
  std::atomic<int> nsamples;
  std::atomic<int> stop;
  Slot slot[kMaxWorkers];
  ViolRec viol[kMaxViol];
  SampleRec samples[kMaxSamples];
};

struct Family {
  std::string name;
  uint64_t count = 0;
  std::string rule;         // what is enumerated, what makes a case non-trivial
  std::string group;        // families in one group may overlap: only the max counts as distinct
  uint64_t chunk = 1024;
};

struct Ctx {
  Shared* sh = nullptr;
  const Family* fam = nullptr;
  uint64_t idx = 0;
  bool want_sample = false;
  bool replay = false;
  bool quiet = false;  // replaying an already-checked prefix: drop violations without allocating
  int worker = -1;
  uint64_t report_id = 0;  // if non-zero, violations are recorded under this id instead of idx
  uint64_t chunk_begin = 0;
  // publish an engine-defined replay id for crash attribution (history explorers)
  void publish(uint64_t id) {
    report_id = id;
    if (sh && worker >= 0) sh->slot[worker].alt_id = id;
  }
  // local accumulators, flushed per chunk
  uint64_t evals = 0, nontrivial = 0, skipped = 0;
  uint64_t counters[kMaxCounters] = {0};
  std::string replay_report;  // in replay mode violations are collected here

  void eval() { evals++; }
  void nontriv() { nontrivial++; }
  void skip() { skipped++; }
  void count(int i, uint64_t d = 1) { counters[i] += d; }
  void sample(const std::string& text) {
    if (replay && want_sample) {
      if (text.size() > 4000)
        printf("REPLAY-CASE %s (first 4000 of %zu bytes)\n", jstr_fwd(text.substr(0, 4000)).c_str(), text.size());
      else
        printf("REPLAY-CASE %s\n", jstr_fwd(text).c_str());
      fflush(stdout);
      want_sample = false;
      return;
    }
    if (!want_sample || !sh) return;
    int k = sh->nsamples.fetch_add(1);
    if (k >= kMaxSamples) return;
    sh->samples[k].idx = idx;
    snprintf(sh->samples[k].text, sizeof sh->samples[k].text, "%s", text.c_str());
    want_sample = false;
  }
  void violation(const char* kind, const std::string& cls, const std::string& input,
                 const char* fmt, ...) __attribute__((format(printf, 5, 6))) {
    char buf[1024];
    va_list ap;
    va_start(ap, fmt);
    vsnprintf(buf, sizeof buf, fmt, ap);
    va_end(ap);
    if (quiet) return;
    if (replay) {
      replay_report += std::string("VIOLATION-CASE kind=") + kind + " class=" + cls + " detail=" + buf + "\n";
      return;
    }
    sh->viol_total.fetch_add(1);
    // per-class tally; only the first few witnesses of each class are recorded in detail
    uint64_t nth = 0;
    {
      int exp = 0;
      while (!sh->cls_lock.compare_exchange_weak(exp, 1)) exp = 0;
      int ci = -1;
      for (int i = 0; i < sh->ncls; i++)
        if (cls == sh->cls[i].cls) ci = i;
      if (ci < 0 && sh->ncls < kMaxCls) {
        ci = sh->ncls++;
        snprintf(sh->cls[ci].cls, sizeof sh->cls[ci].cls, "%s", cls.c_str());
        sh->cls[ci].count = 0;
      }
      if (ci >= 0) nth = sh->cls[ci].count.fetch_add(1) + 1;
      sh->cls_lock.store(0);
    }
    if (nth > (uint64_t)kPerClassRecords) return;
    int k = sh->nviol.fetch_add(1);
    if (k >= kMaxViol) return;
    ViolRec& v = sh->viol[k];
    snprintf(v.family, sizeof v.family, "%s", fam->name.c_str());
    v.idx = report_id ? report_id : idx;
    v.chunk_begin = report_id ? v.idx : chunk_begin;
    snprintf(v.kind, sizeof v.kind, "%s", kind);
    snprintf(v.cls, sizeof v.cls, "%s", cls.c_str());
    snprintf(v.detail, sizeof v.detail, "%s", buf);
    std::string h = hex(input.size() > 1000 ? input.substr(0, 1000) : input);
    snprintf(v.input_hex, sizeof v.input_hex, "%s", h.c_str());
  }
};

using CheckFn = std::function<void(const Family&, uint64_t, Ctx&)>;

struct FamilyResult {
  Family fam;
  uint64_t evals = 0, nontrivial = 0, skipped = 0;
  uint64_t counters[kMaxCounters] = {0};
  bool exhaustive = true;
  uint64_t completed_upto = 0;
  double wall = 0;
  int crashes = 0;
  std::vector<SampleRec> samples;
};

struct Args {
  std::string tier = "quick";
  std::string prop;
  std::string out;
  int workers = 16;
  double deadline_s = 0;  // absolute budget for the whole engine run (0 = none)
  bool replay = false;
  std::string replay_family;
  uint64_t replay_idx = 0;
  uint64_t replay_from = UINT64_MAX;  // sequence replay: run cases replay_from..replay_idx in one process
  std::vector<std::string> extra;
  std::string get(const std::string& key, const std::string& def = "") const {
    for (size_t i = 0; i + 1 < extra.size(); i += 2)
      if (extra[i] == key) return extra[i + 1];
    return def;
  }
};

static inline Args parse_args(int argc, char** argv) {
  Args a;
  for (int i = 1; i < argc; i++) {
    std::string s = argv[i];
    auto nxt = [&]() -> std::string { return i + 1 < argc ? argv[++i] : ""; };
    if (s == "--tier") a.tier = nxt();
    else if (s == "--prop") a.prop = nxt();
    else if (s == "--out") a.out = nxt();
    else if (s == "--workers") a.workers = atoi(nxt().c_str());
    else if (s == "--deadline") a.deadline_s = atof(nxt().c_str());
    else if (s == "--replay") {
      a.replay = true;
      a.replay_family = nxt();
      a.replay_idx = strtoull(nxt().c_str(), nullptr, 10);
    } else if (s == "--replay-from") {
      a.replay_from = strtoull(nxt().c_str(), nullptr, 10);
    } else if (s.rfind("--", 0) == 0) {
      a.extra.push_back(s.substr(2));
      a.extra.push_back(nxt());
    }
  }
  if (a.workers < 1) a.workers = 1;
  if (a.workers > kMaxWorkers) a.workers = kMaxWorkers;
  return a;
}

class Runner {
 public:
  explicit Runner(const Args& a) : args_(a) {
    t0_ = now_s();
    sh_ = (Shared*)mmap(nullptr, sizeof(Shared), PROT_READ | PROT_WRITE, MAP_SHARED | MAP_ANONYMOUS, -1, 0);
    if (sh_ == MAP_FAILED) {
      perror("mmap");
      exit(2);
    }
  }
  const Args& args() const { return args_; }
  bool quick() const { return args_.tier != "thorough"; }
  double elapsed() const { return now_s() - t0_; }
  bool past_deadline() const { return args_.deadline_s > 0 && elapsed() > args_.deadline_s; }

  // Replay mode: run one case in-process; returns process exit code.
  int replay_one(const std::vector<Family>& fams, const CheckFn& check) {
    for (auto& f : fams) {
      if (f.name != args_.replay_family) continue;
      Ctx ctx;
      ctx.fam = &f;
      ctx.replay = true;
      // sequence replay: the cases that preceded the failing one in its chunk run first, in this
      // same process (for defects that carry state from one call to the next); their own reports
      // are dropped
      if (args_.replay_from != UINT64_MAX && args_.replay_from < args_.replay_idx) {
        ctx.quiet = true;
        for (uint64_t i = args_.replay_from; i < args_.replay_idx; i++) {
          ctx.idx = i;
          check(f, i, ctx);
        }
        ctx.quiet = false;
        printf("REPLAY-SEQUENCE cases %llu..%llu ran first in this process\n", (unsigned long long)args_.replay_from, (unsigned long long)args_.replay_idx - 1);
      }
      ctx.idx = args_.replay_idx;
      ctx.want_sample = true;
      check(f, args_.replay_idx, ctx);
      if (!ctx.replay_report.empty()) {
        fputs(ctx.replay_report.c_str(), stdout);
        return 1;
      }
      printf("REPLAY-OK family=%s idx=%llu\n", f.name.c_str(), (unsigned long long)args_.replay_idx);
      return 0;
    }
    fprintf(stderr, "replay: unknown family %s\n", args_.replay_family.c_str());
    return 2;
  }

  void run(const Family& fam, const CheckFn& check) {
    FamilyResult fr;
    fr.fam = fam;
    double t0 = now_s();
    if (past_deadline()) {
      fr.exhaustive = false;
      results_.push_back(fr);
      return;
    }
    // reset shared per-family state (violations persist across families)
    sh_->next = 0;
    sh_->evals = 0;
    sh_->nontrivial = 0;
    sh_->skipped = 0;
    for (auto& c : sh_->counters) c = 0;
    sh_->nsamples = 0;
    sh_->stop = 0;
    for (auto& s : sh_->slot) {
      s.active = 0;
      s.alt_id = 0;
      s.idx = 0;
      s.chunk_end = 0;
    }
    int W = args_.workers;
    if (fam.count < (uint64_t)W * 4) W = 1;
    std::vector<pid_t> pids(W, -1);
    fflush(stdout);
    fflush(stderr);
    for (int w = 0; w < W; w++) pids[w] = spawn(fam, check, w, 0, 0);
    int live = W;
    // watchdog: a worker that stays on ONE case for longer than the hang limit (a spin on a lock that is never
    // released, an endless loop on corrupted data) is killed and the case recorded as a hang; the limit is far above
    // the longest case of any family on a loaded machine (VERIF_HANG_S overrides it)
    const double hang_s = getenv("VERIF_HANG_S") ? atof(getenv("VERIF_HANG_S")) : 600.0;
    std::vector<uint64_t> last_idx(W, (uint64_t)-1);
    std::vector<double> last_change(W, now_s());
    std::vector<char> hung(W, 0);
    while (live > 0) {
      int st = 0;
      pid_t p = waitpid(-1, &st, WNOHANG);
      if (p < 0) break;
      if (p == 0) {
        usleep(20000);
        double t = now_s();
        for (int k = 0; k < W; k++) {
          if (pids[k] < 0 || hung[k]) continue;
          uint64_t cur = sh_->slot[k].active.load() ? sh_->slot[k].idx.load() : (uint64_t)-2;
          if (cur != last_idx[k]) {
            last_idx[k] = cur;
            last_change[k] = t;
          } else if (cur != (uint64_t)-2 && t - last_change[k] > hang_s) {
            hung[k] = 1;
            kill(pids[k], SIGKILL);
          }
        }
        continue;
      }
      int w = -1;
      for (int k = 0; k < W; k++)
        if (pids[k] == p) w = k;
      if (w < 0) continue;
      bool clean = WIFEXITED(st) && WEXITSTATUS(st) == 0;
      const bool was_hung = hung[w] != 0;
      hung[w] = 0;
      last_idx[w] = (uint64_t)-1;
      last_change[w] = now_s();
      if (clean) {
        live--;
        pids[w] = -1;
        continue;
      }
      // crash: attribute to the published case
      uint64_t idx = sh_->slot[w].idx.load();
      uint64_t alt = sh_->slot[w].alt_id.load();
      uint64_t cend = sh_->slot[w].chunk_end.load();
      bool active = sh_->slot[w].active.load() != 0;
      fr.crashes++;
      record_crash(fam, active ? (alt ? alt : idx) : (uint64_t)-1, st, fr.crashes <= 4, was_hung ? hang_s : 0);
      if (fr.crashes > 40) {
        sh_->stop = 1;
        fr.exhaustive = false;
        live--;
        pids[w] = -1;
        continue;
      }
      // restart on the remainder of the chunk, then continue claiming chunks
      pids[w] = spawn(fam, check, w, active ? idx + 1 : 0, active ? cend : 0);
    }
    fr.evals = sh_->evals;
    fr.nontrivial = sh_->nontrivial;
    fr.skipped = sh_->skipped;
    for (int i = 0; i < kMaxCounters; i++) fr.counters[i] = sh_->counters[i];
    if (sh_->stop.load()) fr.exhaustive = false;
    fr.completed_upto = std::min<uint64_t>(sh_->next.load(), fam.count);
    int ns = std::min<int>(sh_->nsamples.load(), kMaxSamples);
    for (int i = 0; i < ns; i++) fr.samples.push_back(sh_->samples[i]);
    fr.wall = now_s() - t0;
    fprintf(stderr, "[runner] family %-28s count=%-12llu evals=%-12llu nontrivial=%-12llu crashes=%d exhaustive=%d %.1fs\n",
            fam.name.c_str(), (unsigned long long)fam.count, (unsigned long long)fr.evals,
            (unsigned long long)fr.nontrivial, fr.crashes, (int)fr.exhaustive, fr.wall);
    results_.push_back(fr);
  }

  // Emit the machine-readable result (consumed by run.py)
  int finish(const std::string& extra_json = "") {
    std::string o = "{\n";
    o += "\"engine_wall_s\": " + std::to_string(elapsed()) + ",\n";
    o += "\"tier\": " + jstr(args_.tier) + ",\n";
    o += "\"families\": [\n";
    for (size_t i = 0; i < results_.size(); i++) {
      auto& r = results_[i];
      o += " {\"name\": " + jstr(r.fam.name) + ", \"count\": " + std::to_string(r.fam.count) +
           ", \"evaluations\": " + std::to_string(r.evals) + ", \"nontrivial\": " + std::to_string(r.nontrivial) +
           ", \"skipped\": " + std::to_string(r.skipped) + ", \"exhaustive\": " + (r.exhaustive ? "true" : "false") +
           ", \"completed_upto\": " + std::to_string(r.completed_upto) + ", \"crashes\": " + std::to_string(r.crashes) +
           ", \"wall_s\": " + std::to_string(r.wall) + ", \"group\": " + jstr(r.fam.group) +
           ", \"rule\": " + jstr(r.fam.rule) + ", \"counters\": [";
      for (int c = 0; c < kMaxCounters; c++) o += (c ? "," : "") + std::to_string(r.counters[c]);
      o += "], \"samples\": [";
      for (size_t s = 0; s < r.samples.size(); s++) {
        if (s) o += ", ";
        o += "{\"idx\": " + std::to_string(r.samples[s].idx) + ", \"case\": " + jstr(r.samples[s].text) + "}";
      }
      o += "]}";
      o += (i + 1 < results_.size()) ? ",\n" : "\n";
    }
    o += "],\n";
    int nv = std::min<int>(sh_->nviol.load(), kMaxViol);
    o += "\"violations_total\": " + std::to_string(sh_->viol_total.load()) + ",\n";
    o += "\"violation_classes\": {";
    for (int i = 0; i < sh_->ncls; i++)
      o += std::string(i ? ", " : "") + jstr(sh_->cls[i].cls) + ": " + std::to_string(sh_->cls[i].count.load());
    o += "},\n";
    o += "\"violations\": [\n";
    for (int i = 0; i < nv; i++) {
      auto& v = sh_->viol[i];
      o += " {\"family\": " + jstr(v.family) + ", \"idx\": " + std::to_string(v.idx) + ", \"chunk_begin\": " + std::to_string(v.chunk_begin) + ", \"kind\": " + jstr(v.kind) +
           ", \"class\": " + jstr(v.cls) + ", \"detail\": " + jstr(v.detail) + ", \"input_hex\": " + jstr(v.input_hex) + "}";
      o += (i + 1 < nv) ? ",\n" : "\n";
    }
    o += "]";
    if (!extra_json.empty()) o += ",\n" + extra_json;
    o += "\n}\n";
    if (!args_.out.empty()) {
      FILE* f = fopen(args_.out.c_str(), "w");
      if (!f) {
        perror("out");
        return 2;
      }
      fputs(o.c_str(), f);
      fclose(f);
    } else {
      fputs(o.c_str(), stdout);
    }
    return 0;
  }

  Shared* shared() { return sh_; }
  std::vector<FamilyResult>& results() { return results_; }

 private:
  void record_crash(const Family& fam, uint64_t idx, int st, bool detail, double hung_after = 0) {
    sh_->viol_total.fetch_add(1);
    {
      int ci = -1;
      for (int i = 0; i < sh_->ncls; i++)
        if (std::string("crash") == sh_->cls[i].cls) ci = i;
      if (ci < 0 && sh_->ncls < kMaxCls) {
        ci = sh_->ncls++;
        snprintf(sh_->cls[ci].cls, sizeof sh_->cls[ci].cls, "crash");
        sh_->cls[ci].count = 0;
      }
      if (ci >= 0) sh_->cls[ci].count.fetch_add(1);
    }
    if (!detail) return;
    int k = sh_->nviol.fetch_add(1);
    if (k >= kMaxViol) return;
    ViolRec& v = sh_->viol[k];
    memset(&v, 0, sizeof v);
    snprintf(v.family, sizeof v.family, "%s", fam.name.c_str());
    v.idx = idx;
    snprintf(v.kind, sizeof v.kind, "crash");
    snprintf(v.cls, sizeof v.cls, "crash");
    if (hung_after > 0)
      snprintf(v.detail, sizeof v.detail, "HANG: the worker made no progress on this case for %.0f s (endless loop / lock never released) and was killed", hung_after);
    else if (WIFSIGNALED(st))
      snprintf(v.detail, sizeof v.detail, "worker killed by signal %d on this case", WTERMSIG(st));
    else
      snprintf(v.detail, sizeof v.detail, "worker exited with status %d on this case (sanitizer report/assert)", WEXITSTATUS(st));
  }

  pid_t spawn(const Family& fam, const CheckFn& check, int w, uint64_t resume_from, uint64_t resume_end) {
    pid_t p = fork();
    if (p < 0) {
      perror("fork");
      exit(2);
    }
    if (p > 0) return p;
    // child
    if (!getenv("VERIF_CHILD_STDERR")) {
      int fd = open_devnull();
      if (fd >= 0) dup2(fd, 2);
    }
    Ctx ctx;
    ctx.sh = sh_;
    ctx.fam = &fam;
    ctx.worker = w;
    Slot& slot = sh_->slot[w];
    auto flush = [&]() {
      sh_->evals.fetch_add(ctx.evals);
      sh_->nontrivial.fetch_add(ctx.nontrivial);
      sh_->skipped.fetch_add(ctx.skipped);
      for (int i = 0; i < kMaxCounters; i++)
        if (ctx.counters[i]) sh_->counters[i].fetch_add(ctx.counters[i]);
      ctx.evals = ctx.nontrivial = ctx.skipped = 0;
      memset(ctx.counters, 0, sizeof ctx.counters);
    };
    auto do_range = [&](uint64_t b, uint64_t e) {
      slot.chunk_end = e;
      ctx.chunk_begin = b;
      for (uint64_t i = b; i < e; i++) {
        slot.idx = i;
        slot.alt_id = 0;
        slot.active = 1;
        ctx.idx = i;
        ctx.report_id = 0;
        ctx.want_sample = is_sample_idx(i, fam.count);
        check(fam, i, ctx);
        // counters are flushed after every case so that a crash on the next
        // case cannot lose counts (cheap: relaxed atomics on shared memory)
        if ((i & 63) == 63) flush();
      }
      slot.active = 0;
      flush();
    };
    if (resume_end > resume_from) do_range(resume_from, resume_end);
    double dl = args_.deadline_s;
    while (!sh_->stop.load()) {
      if (dl > 0 && now_s() - t0_ > dl) {
        sh_->stop = 1;
        break;
      }
      uint64_t b = sh_->next.fetch_add(fam.chunk);
      if (b >= fam.count) break;
      uint64_t e = std::min(fam.count, b + fam.chunk);
      do_range(b, e);
    }
    fflush(stdout);
    _exit(0);
  }
  static int open_devnull();
  static bool is_sample_idx(uint64_t i, uint64_t count) {
    if (i == 0 || i + 1 == count) return true;
    uint64_t p = 10;
    while (p <= i) {
      if (i == p) return true;
      if (p > UINT64_MAX / 10) break;
      p *= 10;
    }
    return false;
  }

  Args args_;
  Shared* sh_;
  double t0_;
  std::vector<FamilyResult> results_;
};

}  // namespace vr

#include <fcntl.h>
inline int vr::Runner::open_devnull() { return open("/dev/null", O_WRONLY); }
