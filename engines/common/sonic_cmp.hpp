// Bridge between the implementation (through its public accessor API only)
// and the reference model.
#pragma once
#include <string>

#include "refjson.hpp"
#include "sonic/sonic.h"

namespace sc {

// engines that create duplicate keys through the mutation API set this: lookups on an object
// with duplicate keys are then not compared (the lookup map may return any of the equal keys)
static bool g_skip_lookups_on_dup_keys = false;

// Read a node back through the public accessors into a reference value.
template <class N>
static inline ref::Value to_ref(const N& n) {
  using namespace sonic_json;
  if (n.IsNull()) return ref::Value::mk(ref::Null);
  if (n.IsBool()) return ref::Value::mk(n.GetBool() ? ref::True : ref::False);
  if (n.IsNumber()) {
    if (n.IsDouble()) return ref::Value::mkD(n.GetDouble());
    if (n.IsUint64()) return ref::Value::mkU(n.GetUint64());
    ref::Value v;
    v.k = ref::Sint;
    v.u = (uint64_t)n.GetInt64();
    return v;
  }
  if (n.IsString()) {
    auto sv = n.GetStringView();
    return ref::Value::mkS(std::string(sv.data(), sv.size()));
  }
  if (n.IsArray()) {
    ref::Value v = ref::Value::mk(ref::Arr);
    for (auto it = n.Begin(), e = n.End(); it != e; ++it) v.a.push_back(to_ref(*it));
    return v;
  }
  if (n.IsObject()) {
    ref::Value v = ref::Value::mk(ref::Obj);
    for (auto it = n.MemberBegin(), e = n.MemberEnd(); it != e; ++it) {
      auto sv = it->name.GetStringView();
      v.o.emplace_back(std::string(sv.data(), sv.size()), to_ref(it->value));
    }
    return v;
  }
  ref::Value v = ref::Value::mkS("<raw-or-unknown-node>");
  return v;
}

// JSON-pointer tokens of the wrong kind / out of range never resolve. Kept out of line: compare() recurses once
// per nesting level (documents nested > 1000 deep are compared under ASan), its frame must stay small.
template <class N>
__attribute__((noinline)) static const char* wrong_kind_tokens_on_array(const N& n, size_t size) {
  using namespace sonic_json;
  if (n.AtPointer(JsonPointer({JsonPointerNode(-1)})) != nullptr) return "AtPointer(JsonPointer{-1}) on an array resolves";
  if (n.AtPointer(JsonPointer({JsonPointerNode("0")})) != nullptr) return "AtPointer(JsonPointer{\"0\"}) (a string token) on an array resolves";
  if (n.AtPointer(JsonPointer({JsonPointerNode("")})) != nullptr) return "AtPointer(JsonPointer{\"\"}) on an array resolves";
  if (size && n.AtPointer(JsonPointer({JsonPointerNode((int)size - 1)})) != &n[size - 1]) return "AtPointer(JsonPointer{size-1})";
  return nullptr;
}
// index tokens (also negative ones) never resolve on an object, whatever its member names are; first_key (may be
// null) must resolve to the first member
template <class N>
__attribute__((noinline)) static const char* wrong_kind_tokens_on_object(const N& n, const std::string* first_key) {
  using namespace sonic_json;
  for (int ix : {-1, 0, 1, -7})
    if (n.AtPointer(JsonPointer({JsonPointerNode(ix)})) != nullptr) return ix == -1 ? "AtPointer(JsonPointer{index -1}) on an object resolves" : ix == 0 ? "AtPointer(JsonPointer{index 0}) on an object resolves" : ix == 1 ? "AtPointer(JsonPointer{index 1}) on an object resolves" : "AtPointer(JsonPointer{index -7}) on an object resolves";
  if (first_key && n.AtPointer(JsonPointer({JsonPointerNode(*first_key)})) != &n.MemberBegin()->value) return "AtPointer(JsonPointer{first key})";
  return nullptr;
}

// Full accessor-level comparison (C03): every public way of reading the node
// must reproduce the reference value.  Returns "" when identical, else a
// description of the first difference.
template <class N>
static inline std::string compare(const N& n, const ref::Value& r, const std::string& where = "$") {
  using namespace sonic_json;
  auto bad = [&](const std::string& what) { return where + ": " + what + " (expected " + ref::show(r) + ")"; };
  int kinds = (int)n.IsNull() + (int)n.IsBool() + (int)n.IsNumber() + (int)n.IsString() + (int)n.IsArray() + (int)n.IsObject();
  if (kinds != 1) return bad("type tests not exclusive: " + std::to_string(kinds));
  switch (r.k) {
    case ref::Null:
      if (!n.IsNull()) return bad("not null");
      return "";
    case ref::True: case ref::False:
      if (!n.IsBool()) return bad("not bool");
      if (n.GetBool() != (r.k == ref::True)) return bad("bool value");
      if (n.IsTrue() != (r.k == ref::True) || n.IsFalse() != (r.k == ref::False)) return bad("IsTrue/IsFalse");
      return "";
    case ref::Uint:
      if (!n.IsNumber() || !n.IsUint64() || n.IsDouble()) return bad("kind is not uint64");
      if (n.GetUint64() != r.u) return bad("uint64 value " + std::to_string(n.GetUint64()));
      if (n.IsInt64() != (r.u <= (uint64_t)INT64_MAX)) return bad("IsInt64 inconsistent");
      // the getters that are legal on this kind of number, each against the value
      if (n.IsInt64() && n.GetInt64() != (int64_t)r.u) return bad("GetInt64 of a small unsigned integer");
      if (n.GetDouble() != static_cast<double>(r.u)) return bad("GetDouble() of an unsigned integer is " + std::to_string(n.GetDouble()));
      return "";
    case ref::Sint:
      if (!n.IsNumber() || !n.IsInt64() || n.IsUint64() || n.IsDouble()) return bad("kind is not negative int64");
      if ((uint64_t)n.GetInt64() != r.u) return bad("int64 value " + std::to_string(n.GetInt64()));
      if (n.GetDouble() != static_cast<double>((int64_t)r.u)) return bad("GetDouble() of a negative integer is " + std::to_string(n.GetDouble()));
      return "";
    case ref::Real: {
      if (!n.IsNumber() || !n.IsDouble() || n.IsUint64() || n.IsInt64()) return bad("kind is not double");
      double d = n.GetDouble();
      uint64_t b;
      std::memcpy(&b, &d, 8);
      if (b != r.u) {
        char buf[96];
        snprintf(buf, sizeof buf, "double bits %016llx (%.17g)", (unsigned long long)b, d);
        return bad(buf);
      }
      return "";
    }
    case ref::Str: {
      if (!n.IsString()) return bad("not string");
      auto sv = n.GetStringView();
      if (sv.size() != r.s.size() || std::memcmp(sv.data(), r.s.data(), sv.size()) != 0)
        return bad("string bytes " + vr::hex(std::string(sv.data(), sv.size())));
      if (n.Size() != r.s.size()) return bad("Size()");
      if (n.GetString() != r.s) return bad("GetString()");
      if (n.Empty() != r.s.empty()) return bad("Empty()");
      return "";
    }
    case ref::Arr: {
      if (!n.IsArray() || !n.IsContainer()) return bad("not array");
      if (n.Size() != r.a.size()) return bad("Size() " + std::to_string(n.Size()));
      if (n.Empty() != r.a.empty()) return bad("Empty()");
      if (n.Capacity() < n.Size()) return bad("Capacity()<Size()");
      if ((size_t)(n.End() - n.Begin()) != r.a.size()) return bad("End-Begin");
      size_t i = 0;
      for (auto it = n.Begin(), e = n.End(); it != e; ++it, ++i) {
        std::string s = compare(*it, r.a[i], where + "[" + std::to_string(i) + "]");
        if (!s.empty()) return s;
        if (&n[i] != &*it) return bad("operator[](idx) != iteration element");
        if (n.AtPointer(i) != &*it) return bad("AtPointer(idx)");
      }
      if (!r.a.empty() && &n.Back() != &n[r.a.size() - 1]) return bad("Back()");
      {
        const char* w = wrong_kind_tokens_on_array(n, r.a.size());
        if (w) return bad(w);
      }
      if (n.AtPointer(r.a.size()) != nullptr) return bad("AtPointer(size) not null");
      return "";
    }
    case ref::Obj: {
      if (!n.IsObject() || !n.IsContainer()) return bad("not object");
      if (n.Size() != r.o.size()) return bad("Size() " + std::to_string(n.Size()));
      if (n.Empty() != r.o.empty()) return bad("Empty()");
      if (n.Capacity() < n.Size()) return bad("Capacity()<Size()");
      if ((size_t)(n.MemberEnd() - n.MemberBegin()) != r.o.size()) return bad("MemberEnd-MemberBegin");
      size_t i = 0;
      for (auto it = n.MemberBegin(), e = n.MemberEnd(); it != e; ++it, ++i) {
        auto sv = it->name.GetStringView();
        if (!it->name.IsString() || std::string(sv.data(), sv.size()) != r.o[i].first)
          return bad("member " + std::to_string(i) + " name " + vr::hex(std::string(sv.data(), sv.size())));
        std::string s = compare(it->value, r.o[i].second, where + "." + r.o[i].first);
        if (!s.empty()) return s;
      }
      // lookups: first match wins
      bool dups = false;
      if (g_skip_lookups_on_dup_keys)
        for (size_t a = 0; a < r.o.size() && !dups; a++)
          for (size_t b = a + 1; b < r.o.size(); b++)
            if (r.o[a].first == r.o[b].first) dups = true;
      const size_t NO = r.o.size(), stride = NO > 5000 ? NO / 64 : 1;
      for (size_t j = 0; j < r.o.size() && !dups; j++) {
        // the lookup comparison is quadratic: for very wide objects only the first 64, the last 64 and every (n/64)-th key
        if (NO > 5000 && !(j < 64 || j + 64 >= NO || j % stride == 0)) continue;
        const std::string& key = r.o[j].first;
        size_t first = 0;
        while (r.o[first].first != key) first++;
        auto exp = n.MemberBegin() + first;
        if (n.FindMember(StringView(key.data(), key.size())) != exp) return bad("FindMember(view) key " + vr::hex(key));
        if (n.FindMember(key.data(), key.size()) != exp) return bad("FindMember(ptr,len) key " + vr::hex(key));
        {
          // the same key as a slice of a longer buffer: the bytes after it are not NUL and must not matter
          std::string probe = "\x7f" + key + "\x7f#";
          if (n.FindMember(probe.data() + 1, key.size()) != exp) return bad("FindMember(ptr,len) key given as a slice of a longer buffer " + vr::hex(key));
          if (n.FindMember(StringView(probe.data() + 1, key.size())) != exp) return bad("FindMember(view) key given as a slice of a longer buffer " + vr::hex(key));
          if (!n.HasMember(StringView(probe.data() + 1, key.size()))) return bad("HasMember key given as a slice of a longer buffer");
        }
        if (!key.empty()) {
          // ALIASING probe: a key that starts at the very address of this member's stored name but is one byte
          // shorter (a prefix taken from the node's own name view, or a shorter slice of the caller's key buffer):
          // it denotes a different key and must find the first member spelled like the prefix, or nothing
          auto own = (n.MemberBegin() + j)->name.GetStringView();
          std::string pre = key.substr(0, key.size() - 1);
          size_t pf = 0;
          while (pf < r.o.size() && r.o[pf].first != pre) pf++;
          auto pexp = pf < r.o.size() ? n.MemberBegin() + pf : n.MemberEnd();
          if (n.FindMember(StringView(own.data(), own.size() - 1)) != pexp) return bad("FindMember(view) with a prefix of the member's own name view (same address, shorter) " + vr::hex(key));
          if (n.FindMember(own.data(), own.size() - 1) != pexp) return bad("FindMember(ptr,len) with a prefix of the member's own name view (same address, shorter) " + vr::hex(key));
          if (n.HasMember(StringView(own.data(), own.size() - 1)) != (pf < r.o.size())) return bad("HasMember with a prefix of the member's own name view " + vr::hex(key));
        }
        if (!n.HasMember(StringView(key.data(), key.size()))) return bad("HasMember");
        if (&n[StringView(key.data(), key.size())] != &exp->value) return bad("operator[](key)");
        if (n.AtPointer(StringView(key.data(), key.size())) != &exp->value) return bad("AtPointer(key)");
      }
      {
        const char* w = wrong_kind_tokens_on_object(n, r.o.empty() || (g_skip_lookups_on_dup_keys && dups) ? nullptr : &r.o[0].first);
        if (w) return bad(w);
      }
      {
        std::string miss = "\x01missing\x02";
        if (n.FindMember(StringView(miss.data(), miss.size())) != n.MemberEnd()) return bad("FindMember(missing)");
        if (n.HasMember(StringView(miss.data(), miss.size()))) return bad("HasMember(missing)");
        if (n.AtPointer(StringView(miss.data(), miss.size())) != nullptr) return bad("AtPointer(missing)");
        if (!n[StringView(miss.data(), miss.size())].IsNull()) return bad("operator[](missing) not null");
      }
      return "";
    }
  }
  return bad("unknown reference kind");
}

static inline sonic_json::JsonPointer to_pointer(const std::vector<ref::Step>& p) {
  sonic_json::JsonPointer jp;
  for (auto& s : p) {
    if (s.is_num)
      jp /= sonic_json::JsonPointerNode(s.num);
    else
      jp /= sonic_json::JsonPointerNode(s.key);
  }
  return jp;
}

}  // namespace sc
