// A really-freeing allocator with a ledger, passed to the library as the
// Allocator template argument (no source hook needed).
#pragma once
#include <cstdint>
#include <cstdlib>
#include <cstring>
#include <string>
#include <sys/mman.h>

#include <unordered_map>

namespace ta {

// The ledger's own table lives in an mmap'ed arena, outside the malloc heap, so that heap-balance
// oracles (bytes allocated before == after) never see the table grow or rehash.
struct Arena {
  static constexpr size_t kBytes = 1ull << 32;
  char* base = nullptr;
  size_t used = 0;
  void* freelist[9] = {};  // blocks of 8..64 bytes, by size/8
  void* get(size_t n) {
    n = (n + 7) & ~size_t(7);
    if (n <= 64 && freelist[n / 8]) {
      void* p = freelist[n / 8];
      freelist[n / 8] = *(void**)p;
      return p;
    }
    if (!base) base = (char*)mmap(nullptr, kBytes, PROT_READ | PROT_WRITE, MAP_PRIVATE | MAP_ANONYMOUS | MAP_NORESERVE, -1, 0);
    if (base == (char*)MAP_FAILED || used + n > kBytes) abort();
    void* p = base + used;
    used += n;
    return p;
  }
  void put(void* p, size_t n) {
    n = (n + 7) & ~size_t(7);
    if (n <= 64) {
      *(void**)p = freelist[n / 8];
      freelist[n / 8] = p;
    }  // larger blocks (bucket arrays) are simply abandoned: they are rare
  }
};
static inline Arena& arena() {
  static Arena a;
  return a;
}
template <class T>
struct ArenaAlloc {
  using value_type = T;
  ArenaAlloc() = default;
  template <class U>
  ArenaAlloc(const ArenaAlloc<U>&) {}
  T* allocate(size_t n) { return (T*)arena().get(n * sizeof(T)); }
  void deallocate(T* p, size_t n) { arena().put(p, n * sizeof(T)); }
  template <class U>
  bool operator==(const ArenaAlloc<U>&) const { return true; }
  template <class U>
  bool operator!=(const ArenaAlloc<U>&) const { return false; }
};

struct Ledger {
  std::unordered_map<void*, size_t, std::hash<void*>, std::equal_to<void*>, ArenaAlloc<std::pair<void* const, size_t>>> live;
  uint64_t mallocs = 0, frees = 0;
  int errors = 0;
  std::string first_error;
  int fail_after = -1;  // fault injection: the n-th next allocation returns null (-1: never)
  void err(const std::string& e) {
    if (!errors) first_error = e;
    errors++;
  }
  void reset() {
    live.clear();
    mallocs = frees = 0;
    errors = 0;
    first_error.clear();
    fail_after = -1;
  }
};
static inline Ledger& ledger() {
  static Ledger l;
  return l;
}

class TrackingAllocator {
 public:
  void* Malloc(size_t size) {
    if (size == 0) return nullptr;
    Ledger& L = ledger();
    if (L.fail_after == 0) {
      L.fail_after = -1;
      return nullptr;
    }
    if (L.fail_after > 0) L.fail_after--;
    void* p = std::malloc(size);
    L.live[p] = size;
    L.mallocs++;
    return p;
  }
  void* Realloc(void* old_ptr, size_t old_size, size_t new_size) {
    (void)old_size;
    Ledger& L = ledger();
    if (new_size == 0) {
      Free(old_ptr);
      return nullptr;
    }
    if (old_ptr == nullptr) return Malloc(new_size);
    auto it = L.live.find(old_ptr);
    if (it == L.live.end()) {
      L.err("Realloc of a block not obtained from this allocator (or already freed)");
      return nullptr;
    }
    void* p = std::malloc(new_size);
    std::memcpy(p, old_ptr, it->second < new_size ? it->second : new_size);
    L.live.erase(it);
    std::free(old_ptr);
    L.frees++;
    L.live[p] = new_size;
    L.mallocs++;
    return p;
  }
  static void Free(void* ptr) {
    if (!ptr) return;
    Ledger& L = ledger();
    auto it = L.live.find(ptr);
    if (it == L.live.end()) {
      L.err("Free of a block not live in the ledger (double free or foreign pointer)");
      return;
    }
    L.live.erase(it);
    L.frees++;
    std::free(ptr);
  }
  bool operator==(const TrackingAllocator&) const { return true; }
  bool operator!=(const TrackingAllocator&) const { return false; }
  static constexpr bool kNeedFree = true;
};

}  // namespace ta
