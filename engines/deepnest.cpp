// Engine deepnest (C02, quantifier "deeply nested"): Parse on texts nested 2*10^4 and 10^6 levels deep,
// for the pool allocator and an allocator that really frees, on a thread whose stack is exactly
// 8 MiB with a known guard region.  Every case runs in a forked child that records its phase in
// shared memory, so the parent knows in which call a stack exhaustion (fault inside the guard
// region) happened:
//   phase 1: first Parse     2: first Parse returned     3: second Parse (reuse)   4: second returned
//   phase 5: Serialize       6: destructor               7: finished
// Expected results are known by construction (the recursive reference parser is not used here).
// Classes:
//   deep_nesting_stack_exhaustion_in_parse_freeing       Parse itself dies while recursively destroying a
//                                                        complete deep tree (failed parse, or reparse)
//   deep_nesting_stack_exhaustion_in_destructor_freeing  the document destructor dies the same way
//   deep_nesting_stack_exhaustion_pool / deep_nesting_crash / deep_nesting_result   anything else
#include <pthread.h>
#include <signal.h>
#include <sys/mman.h>
#include <sys/wait.h>
#include <unistd.h>

#include <new>

#include "common/runner.hpp"
#include "sonic/sonic.h"

using namespace sonic_json;
using PoolDoc = Document;
using SimpleDoc = GenericDocument<DNode<SimpleAllocator>>;

struct Rep {
  volatile int phase;
  volatile int err1, null1, err2, null2, is_int2;
  volatile long ser_size;
  volatile int stack_fault;
  volatile unsigned long fault_addr;
};
static Rep* g_rep;
static char* g_guard_lo;
static char* g_guard_hi;

static void on_segv(int, siginfo_t* si, void*) {
  char* a = (char*)si->si_addr;
  g_rep->fault_addr = (unsigned long)a;
  if (a >= g_guard_lo && a < g_guard_hi) {
    g_rep->stack_fault = 1;
    _exit(77);
  }
  _exit(78);
}

struct Job {
  const std::string* text;
  unsigned shape;
  bool freeing;
};

template <class Doc>
static void body(const Job& j) {
  // the document lives in raw storage so that its destructor is a separate, attributable phase
  alignas(Doc) static char storage[sizeof(Doc)];
  Doc* d = new (storage) Doc;
  g_rep->phase = 1;
  d->Parse(j.text->data(), j.text->size());
  g_rep->err1 = (int)d->GetParseError();
  g_rep->null1 = d->IsNull();
  g_rep->phase = 2;
  if (j.shape == 4) {
    g_rep->phase = 3;
    d->Parse("17", 2);
    g_rep->err2 = (int)d->GetParseError();
    g_rep->null2 = d->IsNull();
    g_rep->is_int2 = d->IsUint64() && d->GetUint64() == 17;
    g_rep->phase = 4;
  }
  g_rep->phase = 5;
  {
    WriteBuffer wb;
    if (d->Serialize(wb) == kErrorNone) g_rep->ser_size = (long)wb.Size();
  }
  g_rep->phase = 6;
  d->~Doc();
  g_rep->phase = 7;
}

static void* thread_main(void* p) {
  static char alt[1 << 16];
  stack_t ss;
  ss.ss_sp = alt;
  ss.ss_size = sizeof alt;
  ss.ss_flags = 0;
  sigaltstack(&ss, nullptr);
  struct sigaction sa;
  memset(&sa, 0, sizeof sa);
  sa.sa_sigaction = on_segv;
  sa.sa_flags = SA_SIGINFO | SA_ONSTACK;
  sigaction(SIGSEGV, &sa, nullptr);
  sigaction(SIGBUS, &sa, nullptr);
  const Job& j = *(const Job*)p;
  if (j.freeing)
    body<SimpleDoc>(j);
  else
    body<PoolDoc>(j);
  return nullptr;
}

static const size_t kStack = 8u << 20, kGuard = 1u << 20;

int main(int argc, char** argv) {
  vr::Args args = vr::parse_args(argc, argv);
  vr::Runner R(args);
  static const unsigned ks[2] = {20000, 1000000};
  vr::Family f;
  f.name = "VD_very_deep";
  f.count = 6 * 2 * 2;
  f.group = "VD";
  f.chunk = 1;
  f.rule =
      "texts nested k = 20000 and 10^6 deep in 6 shapes ([^k ]^k ; the same followed by x ; [^k truncated ; {\"a\":^k 1 }^k ; [^k ]^k then '17' parsed into the same document ; [^k ]^(k-1) } ) x {pool, freeing allocator}, "
      "Parse + Serialize + destructor on a thread with an 8 MiB stack in a forked child: accept/reject and results as known by construction; a fault in the stack guard region is attributed to the call in progress";
  vr::CheckFn check = [&](const vr::Family&, uint64_t idx, vr::Ctx& ctx) {
    unsigned shape = (unsigned)(idx % 6);
    bool freeing = (idx / 6) % 2;
    unsigned k = ks[idx / 12];
    std::string text;
    switch (shape) {
      case 0: case 4: text = std::string(k, '[') + std::string(k, ']'); break;
      case 1: text = std::string(k, '[') + std::string(k, ']') + "x"; break;
      case 2: text = std::string(k, '['); break;
      case 3:
        for (unsigned i = 0; i < k; i++) text += "{\"a\":";
        text += "1" + std::string(k, '}');
        break;
      case 5: text = std::string(k, '[') + std::string(k - 1, ']') + "}"; break;
    }
    const bool accept = shape == 0 || shape == 3 || shape == 4;
    std::string desc = "shape " + std::to_string(shape) + " k=" + std::to_string(k) + (freeing ? " freeing allocator" : " pool allocator") + " (" + std::to_string(text.size()) + " bytes)";
    ctx.eval();
    ctx.nontriv();
    if (ctx.want_sample) ctx.sample(desc);
    Rep* rep = (Rep*)mmap(nullptr, 4096, PROT_READ | PROT_WRITE, MAP_SHARED | MAP_ANONYMOUS, -1, 0);
    memset((void*)rep, 0, sizeof *rep);
    rep->ser_size = -1;
    fflush(nullptr);
    pid_t pid = fork();
    if (pid == 0) {
      g_rep = rep;
      char* m = (char*)mmap(nullptr, kStack + kGuard, PROT_READ | PROT_WRITE, MAP_PRIVATE | MAP_ANONYMOUS | MAP_NORESERVE, -1, 0);
      mprotect(m, kGuard, PROT_NONE);
      g_guard_lo = m;
      g_guard_hi = m + kGuard;
      pthread_attr_t at;
      pthread_attr_init(&at);
      pthread_attr_setstack(&at, m + kGuard, kStack);
      Job j{&text, shape, freeing};
      pthread_t th;
      if (pthread_create(&th, &at, thread_main, &j)) _exit(79);
      pthread_join(th, nullptr);
      _exit(0);
    }
    int st = 0;
    waitpid(pid, &st, 0);
    Rep r = *rep;
    munmap(rep, 4096);
    static const char* phases[] = {"start", "first Parse", "after first Parse", "second Parse (document reuse)", "after second Parse", "Serialize", "destructor", "done"};
    const char* ph = phases[r.phase >= 0 && r.phase <= 7 ? r.phase : 0];
    if (WIFEXITED(st) && WEXITSTATUS(st) == 77) {
      std::string cls;
      if (!freeing)
        cls = "deep_nesting_stack_exhaustion_pool";
      else if (r.phase == 1 || r.phase == 3)
        cls = "deep_nesting_stack_exhaustion_in_parse_freeing";
      else if (r.phase == 6)
        cls = "deep_nesting_stack_exhaustion_in_destructor_freeing";
      else
        cls = "deep_nesting_stack_exhaustion_other";
      ctx.violation("stack_exhaustion", cls, desc, "8 MiB stack exhausted during %s (recursion once per nesting level)", ph);
      return;
    }
    if (!WIFEXITED(st) || WEXITSTATUS(st) != 0) {
      ctx.violation("crash", "deep_nesting_crash", desc, "child died (status 0x%x, fault address %#lx) during %s", st, r.fault_addr, ph);
      return;
    }
    if (accept && (r.err1 != 0 || r.null1)) ctx.violation("deep_result", "deep_nesting_result", desc, "valid text rejected: error %d", r.err1);
    if (!accept && (r.err1 == 0 || !r.null1)) ctx.violation("deep_result", "deep_nesting_result", desc, "invalid text: error %d, document %s", r.err1, r.null1 ? "null" : "not null");
    if (shape == 4 && (r.err2 != 0 || !r.is_int2)) ctx.violation("deep_result", "deep_nesting_result", desc, "reuse of the document: error %d, value is%s 17", r.err2, r.is_int2 ? "" : " not");
    long want = shape == 0 ? 2L * k : shape == 3 ? 6L * k + 1 : shape == 4 ? 2 : 4;
    if (r.ser_size != want) ctx.violation("deep_result", "deep_nesting_result", desc, "serialised size %ld, expected %ld", r.ser_size, want);
  };
  std::vector<vr::Family> fams = {f};
  if (args.replay) return R.replay_one(fams, check);
  R.run(f, check);
  return R.finish();
}
