// Engine docexplore (C13): explicit-state BFS over histories of TWO documents that use an
// allocator which really frees, with an exact allocation ledger.  Operations: Parse (valid,
// invalid, deep), ParseOnDemand, ParseSchema (also repeated), document move-construct,
// move-assign, Swap, cross-document CopyFrom (whole document and into a member), a few node
// mutations (strings owned by the node, containers, lookup map), destroy at any point.
// Oracle: the ledger never sees a double or foreign free; ASan sees no use after free; each
// document's Dump() equals its model after every step (a deep copy is independent of its
// source); when both documents are gone the ledger is empty and the heap is back to baseline.
#include <memory>

#include "common/histbfs.hpp"
#include "common/refjson.hpp"
#include "common/runner.hpp"
#include "common/sonic_cmp.hpp"
#include "common/track_alloc.hpp"
#include "sonic/sonic.h"

#if defined(__SANITIZE_ADDRESS__)
extern "C" size_t __sanitizer_get_current_allocated_bytes();
static size_t heap_bytes() { return __sanitizer_get_current_allocated_bytes(); }
#else
static size_t heap_bytes() { return 0; }
#endif

using namespace sonic_json;
using TrackDoc = GenericDocument<DNode<ta::TrackingAllocator>>;
using N = TrackDoc::NodeType;

static const char* kTexts[] = {
    "{\"a\":[1,\"s\"],\"b\":{\"c\":\"x\\ny\"}}",  // 0 valid object (escaped string: decoded in place)
    "[1,[2,\"y\"],{\"a\":null}]",                 // 1 valid array
    "\"str\"",                                     // 2 valid scalar
    "{\"a\":[1,",                                  // 3 truncated inside nested containers
    "[1,{\"a\":\"x\"},[2]] x",                    // 4 complete tree followed by a stray byte: the finished root is torn down
    "[[[[[[[[[[[[[[[[[[[[[[[[],[],1]",             // 5 deep, overflows the initial node stack, invalid
    "{\"a\":{\"b\":[1,{\"c\":\"d\"}]},\"b\":2}",   // 6 valid, nested
    "{\"a\":\"\\ud800\"}",                         // 7 invalid escape inside a member
    // 8 an object wider than the default member capacity (16): growth path of the member block, and the size from which a lookup map is kept by CreateMap
    "{\"k0\":0,\"k1\":1,\"k2\":2,\"k3\":3,\"k4\":4,\"k5\":5,\"k6\":6,\"k7\":7,\"k8\":8,\"k9\":9,\"k10\":10,\"k11\":11,\"k12\":12,\"k13\":13,\"k14\":14,\"k15\":15,\"a\":\"sixteen\",\"k17\":\"x\\ny\"}",
};
static const int NTEXT = 9;
static const char* kSchemaTexts[] = {
    "{\"a\":{\"b\":7},\"b\":[true,{\"k\":\"v\"}],\"zz\":1}",  // replaces members, undeclared key
    "[{\"a\":1},\"s\"]",                                        // whole value replaced by an array
    "{\"a\":\"new\",\"b\":{\"c\":\"long string value that needs its own buffer\"}}",
    "{\"a\":[1,",                                               // invalid text
    "{\"b\":[[\"s\",{\"k\":[1,",                                     // invalid text that fails three levels inside containers it is building
};
static const int NSCHEMA = 5;

static bool nonempty_obj(const ref::Value& v) { return v.k == ref::Obj && !v.o.empty(); }
static ref::Value merge(const ref::Value& E, const ref::Value& T) {
  if (nonempty_obj(E) && nonempty_obj(T)) {
    ref::Value r = ref::Value::mk(ref::Obj);
    for (auto& m : E.o) {
      const ref::Value* t = T.find(m.first);
      r.o.emplace_back(m.first, t ? merge(m.second, *t) : m.second);
    }
    return r;
  }
  return T;
}

// menu
enum {
  OP_PARSE0 = 0,                       // 2 docs x NTEXT
  OP_ONDEMAND0 = OP_PARSE0 + 2 * NTEXT,  // 2 docs x 3 texts (0,6,3) path /a
  OP_SCHEMA0 = OP_ONDEMAND0 + 2 * 3,     // 2 docs x NSCHEMA
  OP_MOVEASSIGN0 = OP_SCHEMA0 + 2 * NSCHEMA,  // Di = move(Dj): 2
  OP_MOVECTOR0 = OP_MOVEASSIGN0 + 2,          // Dj replaced by a document move-constructed from Di: 2
  OP_SWAP = OP_MOVECTOR0 + 2,
  OP_COPYDOC0,                        // Di.CopyFrom(Dj, Di.alloc, copyString): 2 x 2
  OP_COPYINTO0 = OP_COPYDOC0 + 4,     // Di.first-child.CopyFrom(Dj root): 2
  OP_MUT0 = OP_COPYINTO0 + 2,         // per doc: 10 mutations
  OP_DESTROY0 = OP_MUT0 + 2 * 10,     // 2
  OP_RECREATE0 = OP_DESTROY0 + 2,     // 2
  OP_COUNT = OP_RECREATE0 + 2
};
static const char* kMutNames[10] = {"AddMember(\"n\",copy\"owned\")", "PushBack(copy\"owned\")", "SetString(copy)", "RemoveMember(\"a\")", "CreateMap", "root[first]=move(root)", "Clear", "EraseFirst", "Reserve(8)", "RemoveLast(PopBack/RemoveMember)"};

struct DocSim {
  std::unique_ptr<TrackDoc> d[2];
  ref::Value m[2];
  bool alive[2] = {true, false};  // D1 starts absent ("recreate D1" brings it in): leak checks fire one step earlier
  // F11b bookkeeping (known finding): a ParseSchema on a document that still holds the text buffer of a
  // previous ParseSchema orphans that buffer.  The model predicts exactly how many bytes/blocks that is, so
  // that only leaks of exactly this origin are classified as the known finding.
  size_t sbuf[2] = {0, 0};
  size_t orphan_bytes = 0, orphan_blocks = 0;
  size_t heap0 = 0;

  DocSim() {
    ta::ledger().reset();
    sc::g_skip_lookups_on_dup_keys = true;
    heap0 = heap_bytes();
    d[0].reset(new TrackDoc());
    m[0] = m[1] = ref::Value::mk(ref::Null);
  }
  static unsigned menu_size() { return OP_COUNT; }
  static std::string op_name(unsigned op) {
    auto D = [](unsigned i) { return std::string("D") + std::to_string(i); };
    if (op < OP_ONDEMAND0) return D(op / NTEXT) + ".Parse(" + kTexts[op % NTEXT] + ")";
    if (op < OP_SCHEMA0) {
      static const int t3[3] = {0, 6, 3};
      unsigned q = op - OP_ONDEMAND0;
      return D(q / 3) + ".ParseOnDemand(" + kTexts[t3[q % 3]] + ",/a)";
    }
    if (op < OP_MOVEASSIGN0) {
      unsigned q = op - OP_SCHEMA0;
      return D(q / NSCHEMA) + ".ParseSchema(" + kSchemaTexts[q % NSCHEMA] + ")";
    }
    if (op < OP_MOVECTOR0) return D(op - OP_MOVEASSIGN0) + " = move(" + D(1 - (op - OP_MOVEASSIGN0)) + ")";
    if (op < OP_SWAP) return D(1 - (op - OP_MOVECTOR0)) + " := Document(move(" + D(op - OP_MOVECTOR0) + "))";
    if (op == OP_SWAP) return "D0.Swap(D1)";
    if (op < OP_COPYINTO0) {
      unsigned q = op - OP_COPYDOC0;
      return D(q / 2) + ".CopyFrom(" + D(1 - q / 2) + (q % 2 ? ",copyString)" : ")");
    }
    if (op < OP_MUT0) return D(op - OP_COPYINTO0) + ".first.CopyFrom(" + D(1 - (op - OP_COPYINTO0)) + ")";
    if (op < OP_DESTROY0) {
      unsigned q = op - OP_MUT0;
      return D(q / 10) + "." + kMutNames[q % 10];
    }
    if (op < OP_RECREATE0) return "destroy " + D(op - OP_DESTROY0);
    return "recreate " + D(op - OP_RECREATE0);
  }
  static size_t nodes(const ref::Value& v) {
    size_t n = 1;
    for (auto& e : v.a) n += nodes(e);
    for (auto& x : v.o) n += nodes(x.second);
    return n;
  }
  bool enabled(unsigned op) const {
    if (op < OP_ONDEMAND0) return alive[op / NTEXT];
    if (op < OP_SCHEMA0) return alive[(op - OP_ONDEMAND0) / 3];
    if (op < OP_MOVEASSIGN0) return alive[(op - OP_SCHEMA0) / NSCHEMA];
    if (op < OP_MOVECTOR0) return alive[0] && alive[1];
    if (op < OP_SWAP) return alive[op - OP_MOVECTOR0];
    if (op == OP_SWAP) return alive[0] && alive[1];
    if (op < OP_COPYINTO0) return alive[0] && alive[1] && nodes(m[1 - (op - OP_COPYDOC0) / 2]) <= 24;
    if (op < OP_MUT0) {
      unsigned i = op - OP_COPYINTO0;
      if (!(alive[0] && alive[1])) return false;
      const ref::Value& v = m[i];
      return ((v.k == ref::Arr && !v.a.empty()) || (v.k == ref::Obj && !v.o.empty())) && nodes(m[0]) + nodes(m[1]) <= 40;
    }
    if (op < OP_DESTROY0) {
      unsigned q = op - OP_MUT0, i = q / 10, k = q % 10;
      if (!alive[i]) return false;
      const ref::Value& v = m[i];
      switch (k) {
        case 0: return v.k == ref::Obj && v.o.size() < 6;
        case 1: return v.k == ref::Arr && v.a.size() < 6;
        case 2: return true;
        case 3: return v.k == ref::Obj;
        case 4: return v.k == ref::Obj;
        case 5: return (v.k == ref::Arr && !v.a.empty());
        case 6: return v.isContainer();
        case 7: return (v.k == ref::Arr && !v.a.empty()) || (v.k == ref::Obj && !v.o.empty());
        case 8: return v.isContainer();
        case 9: return (v.k == ref::Arr && !v.a.empty()) || (v.k == ref::Obj && !v.o.empty());
      }
      return false;
    }
    if (op < OP_RECREATE0) return alive[op - OP_DESTROY0];
    return !alive[op - OP_RECREATE0];
  }

  void apply(unsigned op, vr::Ctx& ctx, const std::string& tr) {
    if (op < OP_ONDEMAND0) {
      unsigned i = op / NTEXT;
      const char* t = kTexts[op % NTEXT];
      d[i]->Parse(t, std::strlen(t));
      sbuf[i] = 0;
      ref::Result r = ref::parse(std::string(t));
      if (!d[i]->HasParseError() != r.ok) ctx.violation("accept_mismatch", "doc_accept_mismatch", tr, "Parse accept/reject differs from the reference");
      m[i] = r.ok ? r.v : ref::Value::mk(ref::Null);
    } else if (op < OP_SCHEMA0) {
      static const int t3[3] = {0, 6, 3};
      unsigned q = op - OP_ONDEMAND0, i = q / 3;
      const char* t = kTexts[t3[q % 3]];
      d[i]->ParseOnDemand(t, std::strlen(t), JsonPointer({JsonPointerNode("a")}));
      sbuf[i] = 0;
      ref::Result r = ref::parse(std::string(t));
      const ref::Value* sub = r.ok ? r.v.find("a") : nullptr;
      if (r.ok) {
        if (d[i]->HasParseError()) ctx.violation("ondemand_error", "doc_ondemand_error", tr, "ParseOnDemand failed on a valid text with the key present");
        m[i] = sub ? *sub : ref::Value::mk(ref::Null);
      } else {
        // invalid text: an error or a value may result (C11); the model follows the document if it is valid
        m[i] = sc::to_ref(*d[i]);
      }
    } else if (op < OP_MOVEASSIGN0) {
      unsigned q = op - OP_SCHEMA0, i = q / NSCHEMA;
      const char* t = kSchemaTexts[q % NSCHEMA];
      d[i]->ParseSchema(t, std::strlen(t));
      if (sbuf[i]) {
        orphan_bytes += sbuf[i];
        orphan_blocks++;
      }
      sbuf[i] = std::strlen(t) + 64;
      ref::Result r = ref::parse(std::string(t));
      if (r.ok) {
        if (d[i]->HasParseError()) ctx.violation("schema_error", "doc_schema_error", tr, "ParseSchema of a valid text failed");
        m[i] = merge(m[i], r.v);
      } else {
        // failed ParseSchema: the document content is unspecified but must stay a valid, destructible tree
        m[i] = sc::to_ref(*d[i]);
      }
    } else if (op < OP_MOVECTOR0) {
      unsigned i = op - OP_MOVEASSIGN0, j = 1 - i;
      *d[i] = std::move(*d[j]);
      m[i] = m[j];
      sbuf[i] = sbuf[j];
      sbuf[j] = 0;
      // the moved-from document has no allocator any more: only destruction is legal
      d[j].reset();
      alive[j] = false;
      m[j] = ref::Value::mk(ref::Null);
    } else if (op < OP_SWAP) {
      unsigned i = op - OP_MOVECTOR0, j = 1 - i;
      std::unique_ptr<TrackDoc> nd(new TrackDoc(std::move(*d[i])));
      d[i].reset();
      alive[i] = false;
      if (alive[j]) d[j].reset();
      d[j] = std::move(nd);
      alive[j] = true;
      m[j] = m[i];
      sbuf[j] = sbuf[i];
      sbuf[i] = 0;
      m[i] = ref::Value::mk(ref::Null);
    } else if (op == OP_SWAP) {
      d[0]->Swap(*d[1]);
      std::swap(m[0], m[1]);
      std::swap(sbuf[0], sbuf[1]);
    } else if (op < OP_COPYINTO0) {
      unsigned q = op - OP_COPYDOC0, i = q / 2, j = 1 - i;
      d[i]->CopyFrom(*d[j], d[i]->GetAllocator(), q % 2);
      m[i] = m[j];
    } else if (op < OP_MUT0) {
      unsigned i = op - OP_COPYINTO0, j = 1 - i;
      N& first = d[i]->IsArray() ? (*d[i])[0] : d[i]->MemberBegin()->value;
      first.CopyFrom(*d[j], d[i]->GetAllocator(), true);
      (m[i].k == ref::Arr ? m[i].a[0] : m[i].o[0].second) = m[j];
    } else if (op < OP_DESTROY0) {
      unsigned q = op - OP_MUT0, i = q / 10, k = q % 10;
      TrackDoc& D = *d[i];
      auto& al = D.GetAllocator();
      switch (k) {
        case 0: D.AddMember("n", N("owned-string-value", 18, al), al, true); m[i].o.emplace_back("n", ref::Value::mkS("owned-string-value")); break;
        case 1: D.PushBack(N("owned-string-value", 18, al), al); m[i].a.push_back(ref::Value::mkS("owned-string-value")); break;
        case 2: D.SetString("another owned string", al); m[i] = ref::Value::mkS("another owned string"); break;
        case 3: {
          bool got = D.RemoveMember("a");
          int fi = -1;
          for (size_t x = 0; x < m[i].o.size(); x++)
            if (m[i].o[x].first == "a") {
              fi = (int)x;
              break;
            }
          if (got != (fi >= 0)) ctx.violation("removemember_result", "doc_removemember_result", tr, "RemoveMember result differs from the model");
          if (fi >= 0) {
            if ((size_t)fi != m[i].o.size() - 1) m[i].o[(size_t)fi] = m[i].o.back();
            m[i].o.pop_back();
          }
          break;
        }
        case 4: D.CreateMap(al); break;
        case 5: {
          // move the first element out of the array into a temporary, then over the whole document
          N tmp(std::move(D[0]));
          static_cast<N&>(D) = std::move(tmp);
          ref::Value v = m[i].a[0];
          m[i] = v;
          break;
        }
        case 6: D.Clear(); m[i].a.clear(); m[i].o.clear(); break;
        case 7:
          if (D.IsArray()) {
            D.Erase((size_t)0, (size_t)1);
            m[i].a.erase(m[i].a.begin());
          } else {
            D.EraseMember(D.MemberBegin(), D.MemberBegin() + 1);
            m[i].o.erase(m[i].o.begin());
          }
          break;
        case 8:  // an empty or non-empty container that owns a buffer of its own
          if (D.IsArray())
            D.Reserve(8, al);
          else
            D.MemberReserve(8, al);
          break;
        case 9:  // removing the last child keeps the (now possibly empty) container's buffer
          if (D.IsArray()) {
            D.PopBack();
            m[i].a.pop_back();
          } else {
            std::string lastk = m[i].o.back().first;
            // remove by key: the model removes the FIRST member with that key and moves the last into the hole
            size_t fi = 0;
            while (m[i].o[fi].first != lastk) fi++;
            D.RemoveMember(lastk);
            if (fi != m[i].o.size() - 1) m[i].o[fi] = m[i].o.back();
            m[i].o.pop_back();
          }
          break;
      }
    } else if (op < OP_RECREATE0) {
      unsigned i = op - OP_DESTROY0;
      d[i].reset();
      sbuf[i] = 0;
      alive[i] = false;
      m[i] = ref::Value::mk(ref::Null);
    } else {
      unsigned i = op - OP_RECREATE0;
      d[i].reset(new TrackDoc());
      alive[i] = true;
      m[i] = ref::Value::mk(ref::Null);
    }
    verify(ctx, tr);
  }

  void verify(vr::Ctx& ctx, const std::string& tr) {
    ta::Ledger& L = ta::ledger();
    if (L.errors) ctx.violation("ledger_error", "doc_ledger_error", tr, "%s", L.first_error.c_str());
    for (int i = 0; i < 2; i++) {
      if (!alive[i]) continue;
      std::string want = ref::write_json(m[i]);
      std::string got = d[i]->Dump();
      ref::Result rp = ref::parse(got);
      if (!rp.ok || !ref::identical(rp.v, m[i])) ctx.violation("dump_vs_model", "doc_dump_vs_model", tr, "D%d.Dump() = %s but the model is %s (a copy must be independent of its source)", i, got.c_str(), want.c_str());
      // every accessor, keyed lookups included (with and without a lookup map): a copy that still refers to memory of
      // its source serialises correctly and fails only here
      else {
        std::string diff = sc::compare(*d[i], m[i]);
        if (!diff.empty()) ctx.violation("accessor_vs_model", "doc_accessor_vs_model", tr, "D%d: %s", i, diff.c_str());
      }
    }
    if (!alive[0] && !alive[1]) {
      ref::release(m[0]);
      ref::release(m[1]);
      if (!L.live.empty()) {
        size_t bytes = 0;
        for (auto& kv : L.live) bytes += kv.second;
        bool only_orphans = orphan_blocks > 0 && L.live.size() == orphan_blocks && bytes == orphan_bytes;
        ctx.violation("ledger_leak", only_orphans ? "doc_leak_replaced_schema_buffer" : "doc_ledger_leak", tr, "%zu blocks (%zu bytes) still allocated after both documents were destroyed%s", L.live.size(), bytes,
                      only_orphans ? " (exactly the text buffers of earlier ParseSchema calls that a later ParseSchema replaced)" : "");
        for (auto& kv : L.live) std::free(kv.first);  // keep the harness heap baseline meaningful for later cases
        L.live.clear();
      } else {
        size_t hb = heap_bytes();
        if (hb != heap0) ctx.violation("heap_imbalance", "doc_heap_imbalance", tr, "heap bytes %zu at start, %zu after both documents were destroyed", heap0, hb);
      }
    }
  }

  std::string key() const {
    // the ledger is part of the state the oracle looks at: two histories that reach the same documents but
    // differ in what is still allocated (a leak in one of them) must not be merged
    size_t lbytes = 0;
    for (auto& kv : ta::ledger().live) lbytes += kv.second;
    std::string k = "orph" + std::to_string(orphan_blocks) + "/" + std::to_string(orphan_bytes) + "|led" + std::to_string(ta::ledger().live.size()) + "/" + std::to_string(lbytes) + "|";
    for (int i = 0; i < 2; i++) {
      k += alive[i] ? "A" : "-";
      if (alive[i]) {
        k += ref::show(m[i]);
        k += d[i]->HasParseError() ? "E" : "ok";
        // hidden: owns a parse buffer / a schema buffer (private, key only)
        k += d[i]->str_ ? "s" : "_";
        k += d[i]->schema_str_ ? "S" : "_";
        hidden(*d[i], k);
      }
      k += "|";
    }
    return k;
  }
  static void hidden(const N& n, std::string& k) {
    char buf[48];
    if (n.IsString()) {
      snprintf(buf, sizeof buf, "s%d", (int)n.GetType());
      k += buf;
    } else if (n.IsArray()) {
      snprintf(buf, sizeof buf, "A%zu(", n.Capacity());
      k += buf;
      for (auto it = n.Begin(); it != n.End(); ++it) hidden(*it, k);
      k += ")";
    } else if (n.IsObject()) {
      snprintf(buf, sizeof buf, "O%zu%c(", n.Capacity(), n.getMap() ? 'M' : '-');
      k += buf;
      for (auto it = n.MemberBegin(); it != n.MemberEnd(); ++it) {
        snprintf(buf, sizeof buf, "k%d", (int)it->name.GetType());
        k += buf;
        hidden(it->value, k);
      }
      k += ")";
    } else
      k += ".";
  }
};

int main(int argc, char** argv) {
  vr::Args args = vr::parse_args(argc, argv);
  vr::Runner R(args);
  const bool quick = R.quick();
  ta::ledger().live.reserve(1 << 14);
#if defined(__SANITIZE_ADDRESS__)
  const unsigned depth = quick ? 5 : 6;
#else
  const unsigned depth = quick ? 5 : 6;
#endif
  hb::Explorer<DocSim> ex(R, "K_two_docs",
                          "BFS over histories of two documents with a ledger-tracking freeing allocator: menu of " + std::to_string(OP_COUNT) +
                              " operations (Parse of 9 texts valid/invalid/deep/wide, ParseOnDemand, ParseSchema of 5 texts incl. repeated and invalid (one failing deep inside new containers), document move-assign / move-construct / Swap, cross-document CopyFrom of the whole document and into a member, node mutations with owned strings / map / self-move, destroy and recreate at any point); after every transition: ledger without double/foreign free, each document's Dump() equals its model (copies independent), and when both documents are gone the ledger is empty and the heap is at its baseline",
                          depth);
  if (args.replay) return ex.replay(args.replay_idx);
  ex.run();
  std::string ej = "\"states\": " + std::to_string(ex.st.states) + ", \"transitions\": " + std::to_string(ex.st.transitions) + ", \"explorers\": {\"K_two_docs\": {" + ex.extra_json() + "}}";
  return R.finish(ej);
}
