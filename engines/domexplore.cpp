// Engine domexplore: explicit-state BFS over mutation-API histories of a real document
// against a plain-container model (C12), with an allocation ledger and heap accounting for
// the freeing allocator (feeds C13) and serialisation round trips of every reached state (C06).
//   --prop C12 : pool allocator + tracking (freeing) allocator, model agreement after every step
// Built with -fno-access-control: private state (lookup-map pointer) is read ONLY for the
// canonical de-duplication key.
#include <memory>

#include "common/histbfs.hpp"
#include "common/refjson.hpp"
#include "common/runner.hpp"
#include "common/sonic_cmp.hpp"
#include "common/track_alloc.hpp"
#include "sonic/sonic.h"

#if defined(__SANITIZE_ADDRESS__)
extern "C" size_t __sanitizer_get_current_allocated_bytes();
static size_t heap_bytes() { return __sanitizer_get_current_allocated_bytes(); }
#else
static size_t heap_bytes() { return 0; }
#endif

using namespace sonic_json;
using PoolDoc = Document;
using TrackDoc = GenericDocument<DNode<ta::TrackingAllocator>>;

// ---------------------------------------------------------------- addresses
enum Sel { First = 0, Last = 1, KeyA = 2 };
static const std::vector<std::vector<int>>& addr_paths() {
  static const std::vector<std::vector<int>> a = {{}, {First}, {Last}, {KeyA}, {First, First}, {First, Last}, {KeyA, First}};
  return a;
}
static const int NADDR = 7;
static std::string addr_name(int a) {
  static const char* n[] = {"$", "$.first", "$.last", "$.a", "$.first.first", "$.first.last", "$.a.first"};
  return n[a];
}
// resolve on the model: concrete child indices, or false
static bool resolve_model(const ref::Value& root, int a, std::vector<int>& idx) {
  idx.clear();
  const ref::Value* cur = &root;
  for (int s : addr_paths()[a]) {
    size_t n = cur->k == ref::Arr ? cur->a.size() : cur->k == ref::Obj ? cur->o.size() : 0;
    if (!cur->isContainer() || n == 0) return false;
    int i = -1;
    if (s == First) i = 0;
    else if (s == Last) i = (int)n - 1;
    else {
      if (cur->k != ref::Obj) return false;
      for (size_t j = 0; j < n; j++)
        if (cur->o[j].first == "a") {
          i = (int)j;
          break;
        }
      if (i < 0) return false;
    }
    idx.push_back(i);
    cur = cur->k == ref::Arr ? &cur->a[(size_t)i] : &cur->o[(size_t)i].second;
  }
  return true;
}
static ref::Value* model_at(ref::Value& root, const std::vector<int>& idx) {
  ref::Value* cur = &root;
  for (int i : idx) cur = cur->k == ref::Arr ? &cur->a[(size_t)i] : &cur->o[(size_t)i].second;
  return cur;
}
template <class N>
static N* real_at(N& root, const std::vector<int>& idx) {
  N* cur = &root;
  for (int i : idx) cur = cur->IsArray() ? &(*cur)[(size_t)i] : &((cur->MemberBegin() + i)->value);
  return cur;
}
static bool is_prefix(const std::vector<int>& a, const std::vector<int>& b) {  // a ancestor-or-self of b
  if (a.size() > b.size()) return false;
  for (size_t i = 0; i < a.size(); i++)
    if (a[i] != b[i]) return false;
  return true;
}

// ---------------------------------------------------------------- menu
// per-address operations
enum POp {
  P_SetNull, P_SetBool, P_SetInt, P_SetUint, P_SetDouble, P_SetStrConst, P_SetStrCopy, P_SetArray, P_SetObject,  // 9
  P_AddMember0,  // 24: key(3) x value(4) x copyKey(2)
  P_RemoveMember0 = P_AddMember0 + 24,  // 4 keys: a b "" c(missing mostly)
  P_EraseMember0 = P_RemoveMember0 + 4,  // 5 ranges
  P_MemberReserve0 = P_EraseMember0 + 5,  // 4
  P_CreateMap = P_MemberReserve0 + 4, P_DestroyMap, P_Clear, P_AddMember17,
  P_PushBack0,  // 4 values
  P_PopBack = P_PushBack0 + 4,
  P_Erase0,  // 5 ranges
  P_Reserve0 = P_Erase0 + 5,  // 4
  P_Assign0 = P_Reserve0 + 4,  // 4: index {0,last} x value {1,[]}
  P_PushBack17 = P_Assign0 + 4,
  P_COUNT
};
// "a" and "a\0" are distinct keys that differ only by a trailing NUL byte (a key is bytes + length, never a C string)
struct KeyLit {
  const char* p;
  size_t n;
  const char* shown;
};
static const KeyLit kKeys[4] = {{"a", 1, "a"}, {"b", 1, "b"}, {"", 0, ""}, {"a\0", 2, "a\\0"}};
static const size_t kReserve[4] = {0, 1, 17, 40};
// cross operations after the per-address block
static const int X_COPY0 = NADDR * P_COUNT;             // CopyFrom(X <- Y, copyString): NADDR*NADDR*2
static const int X_COPYEXT0 = X_COPY0 + NADDR * NADDR * 2;  // CopyFrom(X <- external, copyString): NADDR*2
static const int X_MOVE0 = X_COPYEXT0 + NADDR * 2;      // X = move(Y): NADDR*NADDR
static const int X_SWAP0 = X_MOVE0 + NADDR * NADDR;     // Swap(X,Y): NADDR*NADDR (X<Y only)
static const int X_DESTROY = X_SWAP0 + NADDR * NADDR;   // destroy the document (terminal)
static const int MENU = X_DESTROY + 1;

static ref::Value leaf_value(int v) {
  switch (v) {
    case 0: return ref::Value::mkU(1);
    case 1: {
      ref::Value s = ref::Value::mkS("s");
      s.skind = kStringConst;
      return s;
    }
    case 2: return ref::Value::mk(ref::Arr);
    default: return ref::Value::mk(ref::Obj);
  }
}
template <class N>
static N leaf_node(int v) {
  switch (v) {
    case 0: return N(uint64_t(1));
    case 1: return N(StringView("s"));
    case 2: return N(kArray);
    default: return N(kObject);
  }
}
static void clear_maps(ref::Value& v) {  // a deep copy never carries lookup maps
  v.aux = false;
  for (auto& e : v.a) clear_maps(e);
  for (auto& m : v.o) clear_maps(m.second);
}
static void copy_strings(ref::Value& v, bool copyString) {
  if (v.k == ref::Str && (v.skind != kStringConst || copyString)) v.skind = kStringFree;
  for (auto& e : v.a) copy_strings(e, copyString);
  for (auto& m : v.o) copy_strings(m.second, copyString);
}
static bool has_dups(const ref::Value& v) {
  for (size_t i = 0; i < v.o.size(); i++)
    for (size_t j = i + 1; j < v.o.size(); j++)
      if (v.o[i].first == v.o[j].first) return true;
  return false;
}
static size_t node_count(const ref::Value& v) {
  size_t n = 1;
  for (auto& e : v.a) n += node_count(e);
  for (auto& m : v.o) n += node_count(m.second);
  return n;
}

static const char kExtJson[] = "{\"x\":[1,\"s\"],\"y\":{\"z\":null}}";

static const char* kInitJson[6] = {nullptr, "{\"a\":1,\"b\":\"s\",\"a\\u0000\":[1,2]}", "{\"a\":1,\"b\":\"s\",\"a\\u0000\":[1,2]}", "[{\"a\":1,\"b\":2},[1,\"s\"],\"x\"]",
                                     "{\"a\":{\"a\":1,\"b\":{}},\"b\":[{\"a\":1}]}", nullptr};

template <class Doc, int INIT = 0>
struct DomSim {
  using N = typename Doc::NodeType;
  using Alloc = typename Doc::Allocator;
  std::unique_ptr<Doc> doc;
  std::unique_ptr<Doc> ext;
  ref::Value model;
  ref::Value ext_model;
  std::string ext_dump0;
  bool dead = false;
  size_t heap0 = 0;
  static constexpr bool kTrack = std::is_same<Doc, TrackDoc>::value;

  DomSim() {
    sc::g_skip_lookups_on_dup_keys = true;
    if (kTrack) ta::ledger().reset();
    heap0 = heap_bytes();
    doc.reset(new Doc());
    ext.reset(new Doc());
    ext->Parse(kExtJson, sizeof(kExtJson) - 1);
    ext_model = ref::parse(std::string(kExtJson)).v;
    // parsed strings are "copied, not freed" kind
    std::function<void(ref::Value&)> mark = [&](ref::Value& v) {
      if (v.k == ref::Str) v.skind = kStringCopy;
      for (auto& e : v.a) mark(e);
      for (auto& m : v.o) mark(m.second);
    };
    mark(ext_model);
    // add a constant string member through the API so that both string kinds occur in the source
    ext->AddMember("k", N(StringView("cs")), ext->GetAllocator(), false);
    ref::Value cs = ref::Value::mkS("cs");
    cs.skind = kStringConst;
    ext_model.o.emplace_back("k", cs);
    // empty containers that still own their buffer (emptied by PopBack / RemoveMember, or only reserved),
    // one of them with a lookup map: a deep copy must not share these buffers with its source
    {
      Alloc& ea = ext->GetAllocator();
      N e1(kArray);
      e1.PushBack(N(uint64_t(1)), ea);
      e1.PopBack();
      ext->AddMember("e1", std::move(e1), ea, false);
      N e2(kObject);
      e2.AddMember("t", N(uint64_t(1)), ea, false);
      e2.CreateMap(ea);
      e2.RemoveMember("t");
      ext->AddMember("e2", std::move(e2), ea, false);
      N e3(kArray);
      e3.Reserve(17, ea);
      ext->AddMember("e3", std::move(e3), ea, false);
      ext_model.o.emplace_back("e1", ref::Value::mk(ref::Arr));
      ext_model.o.emplace_back("e2", ref::Value::mk(ref::Obj));
      ext_model.o.emplace_back("e3", ref::Value::mk(ref::Arr));
    }
    ext_dump0 = ext->Dump();
    model = ref::Value::mk(ref::Null);
    // non-initial start states ("start from non-initial states too")
    if (kInitJson[INIT]) {
      doc->Parse(kInitJson[INIT], std::strlen(kInitJson[INIT]));
      model = ref::parse(std::string(kInitJson[INIT])).v;
      mark(model);
      if (INIT == 2 || INIT == 4) {
        doc->CreateMap(doc->GetAllocator());
        model.aux = true;
      }
      if (INIT == 4) {
        doc->FindMember("a")->value.CreateMap(doc->GetAllocator());
        model.o[0].second.aux = true;
      }
    } else if (INIT == 5) {
      static const char* k17[17] = {"m0", "m1", "m2", "m3", "m4", "m5", "m6", "m7", "m8", "m9", "m10", "m11", "m12", "m13", "m14", "m15", "a"};
      doc->SetObject();
      model = ref::Value::mk(ref::Obj);
      for (int i = 0; i < 17; i++) {
        doc->AddMember(k17[i], N(uint64_t(i)), doc->GetAllocator(), i % 2);
        model.o.emplace_back(k17[i], ref::Value::mkU((uint64_t)i));
      }
      doc->CreateMap(doc->GetAllocator());
      model.aux = true;
    }
  }

  static unsigned menu_size() { return (unsigned)MENU; }
  static std::string op_name(unsigned op) {
    if ((int)op < NADDR * P_COUNT) {
      int a = (int)op / P_COUNT, p = (int)op % P_COUNT;
      std::string at = addr_name(a) + ".";
      if (p < P_AddMember0) {
        static const char* n[] = {"SetNull", "SetBool(true)", "SetInt64(-5)", "SetUint64(7)", "SetDouble(1.5)", "SetString(const\"cs\")", "SetString(copy\"ys\")", "SetArray", "SetObject"};
        return at + n[p];
      }
      if (p < P_RemoveMember0) {
        int q = p - P_AddMember0;
        static const char* vn[] = {"1", "\"s\"", "[]", "{}"};
        return at + "AddMember(\"" + kKeys[q / 8].shown + "\"," + vn[(q / 2) % 4] + (q % 2 ? ",copyKey)" : ",constKey)");
      }
      if (p < P_EraseMember0) return at + "RemoveMember(\"" + kKeys[p - P_RemoveMember0].shown + "\")";
      static const char* rn[] = {"[0,1)", "[0,n)", "[1,n)", "[n-1,n)", "[n/2,n/2)"};
      if (p < P_MemberReserve0) return at + "EraseMember" + rn[p - P_EraseMember0];
      if (p < P_CreateMap) return at + "MemberReserve(" + std::to_string(kReserve[p - P_MemberReserve0]) + ")";
      if (p == P_CreateMap) return at + "CreateMap";
      if (p == P_DestroyMap) return at + "DestroyMap";
      if (p == P_Clear) return at + "Clear";
      if (p == P_AddMember17) return at + "AddMember x17";
      static const char* vn[] = {"1", "\"s\"", "[]", "{}"};
      if (p < P_PopBack) return at + "PushBack(" + vn[p - P_PushBack0] + ")";
      if (p == P_PopBack) return at + "PopBack";
      if (p < P_Reserve0) return at + "Erase" + rn[p - P_Erase0];
      if (p < P_Assign0) return at + "Reserve(" + std::to_string(kReserve[p - P_Reserve0]) + ")";
      if (p < P_PushBack17) return at + "[" + ((p - P_Assign0) / 2 ? "last" : "0") + "]=" + ((p - P_Assign0) % 2 ? "[]" : "1");
      return at + "PushBack x17";
    }
    int o = (int)op;
    if (o < X_COPYEXT0) {
      int q = o - X_COPY0;
      return addr_name(q / (NADDR * 2)) + ".CopyFrom(" + addr_name((q / 2) % NADDR) + (q % 2 ? ",copyString)" : ")");
    }
    if (o < X_MOVE0) {
      int q = o - X_COPYEXT0;
      return addr_name(q / 2) + ".CopyFrom(external" + (q % 2 ? ",copyString)" : ")");
    }
    if (o < X_SWAP0) {
      int q = o - X_MOVE0;
      return addr_name(q / NADDR) + " = move(" + addr_name(q % NADDR) + ")";
    }
    if (o < X_DESTROY) {
      int q = o - X_SWAP0;
      return addr_name(q / NADDR) + ".Swap(" + addr_name(q % NADDR) + ")";
    }
    return "DestroyDocument";
  }

  bool range_ok(int r, size_t n, size_t& f, size_t& l) const {
    switch (r) {
      case 0: if (n < 1) return false; f = 0; l = 1; return true;
      case 1: f = 0; l = n; return n >= 1;
      case 2: if (n < 2) return false; f = 1; l = n; return true;
      case 3: if (n < 2) return false; f = n - 1; l = n; return true;
      default: if (n < 1) return false; f = l = n / 2; return true;
    }
  }
  static bool may_grow(size_t n) { return n < 3 || (n >= 17 && n < 19); }

  bool enabled(unsigned op) const {
    if (dead) return false;
    if ((int)op == X_DESTROY) return true;
    std::vector<int> ix, iy;
    if ((int)op < NADDR * P_COUNT) {
      int a = (int)op / P_COUNT, p = (int)op % P_COUNT;
      if (!resolve_model(model, a, ix)) return false;
      const ref::Value& v = *model_at(const_cast<ref::Value&>(model), ix);
      if (p < P_AddMember0) return true;
      size_t f, l;
      if (p < P_PushBack0) {
        if (v.k != ref::Obj) return false;
        if (p < P_RemoveMember0) {
          if (!may_grow(v.o.size())) return false;
          int val = ((p - P_AddMember0) / 2) % 4;
          return node_count(model) + (size_t)(val >= 2 ? 1 : 1) <= 26;
        }
        if (p < P_EraseMember0) {
          // which member a map-based removal picks among equal keys is unspecified: not explored
          if (v.aux && has_dups(v)) return false;
          return true;
        }
        if (p < P_MemberReserve0) return range_ok(p - P_EraseMember0, v.o.size(), f, l);
        if (p < P_CreateMap) return true;
        if (p == P_CreateMap) return true;
        if (p == P_DestroyMap) return true;
        if (p == P_Clear) return true;
        if (p == P_AddMember17) return v.o.empty() && node_count(model) < 8;
        return false;
      }
      if (v.k != ref::Arr) return false;
      if (p < P_PopBack) return may_grow(v.a.size()) && node_count(model) <= 25;
      if (p == P_PopBack) return !v.a.empty();
      if (p < P_Reserve0) return range_ok(p - P_Erase0, v.a.size(), f, l);
      if (p < P_Assign0) return true;
      if (p < P_PushBack17) return !v.a.empty();
      return v.a.empty() && node_count(model) < 8;
    }
    int o = (int)op;
    if (o < X_COPYEXT0) {
      int q = o - X_COPY0;
      int x = q / (NADDR * 2), y = (q / 2) % NADDR;
      if (!resolve_model(model, x, ix) || !resolve_model(model, y, iy)) return false;
      // source must not be the target, inside it, or contain it (the target is destroyed first)
      if (is_prefix(ix, iy) || is_prefix(iy, ix)) return false;
      return node_count(model) + node_count(*model_at(const_cast<ref::Value&>(model), iy)) <= 26;
    }
    if (o < X_MOVE0) {
      int q = o - X_COPYEXT0;
      return resolve_model(model, q / 2, ix) && node_count(model) <= 15;
    }
    if (o < X_SWAP0) {
      int q = o - X_MOVE0;
      int x = q / NADDR, y = q % NADDR;
      if (!resolve_model(model, x, ix) || !resolve_model(model, y, iy)) return false;
      if (ix == iy) return true;  // self-move: the implementation tests this != &rhs, so it is a supported no-op
      // X = move(Y): Y may be a descendant of X (documented), X must not lie inside Y
      if (is_prefix(iy, ix)) return false;
      return true;
    }
    {
      int q = o - X_SWAP0;
      int x = q / NADDR, y = q % NADDR;
      if (x > y) return false;
      if (!resolve_model(model, x, ix) || !resolve_model(model, y, iy)) return false;
      if (ix == iy) return x == y;  // self-swap (once per address)
      return !is_prefix(ix, iy) && !is_prefix(iy, ix);
    }
  }

  // ---- apply ----
  void apply(unsigned op, vr::Ctx& ctx, const std::string& tr) {
    Alloc& al = doc->GetAllocator();
    std::vector<int> ix, iy;
    if ((int)op == X_DESTROY) {
      doc.reset();
      ext.reset();
      dead = true;
      ref::release(model);
      ref::release(ext_model);
      {
        std::string tmp;
        ext_dump0.swap(tmp);
        std::string tmp2;
        key_cache.swap(tmp2);  // harness strings must not count in the heap balance below
      }
      if (kTrack) {
        ta::Ledger& L = ta::ledger();
        if (L.errors) ctx.violation("ledger_error", "dom_ledger_error", tr, "%s", L.first_error.c_str());
        if (!L.live.empty()) ctx.violation("ledger_leak", "dom_ledger_leak", tr, "%zu blocks still allocated after the documents were destroyed", L.live.size());
      }
      size_t hb = heap_bytes();
      if (hb != heap0) ctx.violation("heap_imbalance", "dom_heap_imbalance", tr, "heap bytes %zu before the documents were created, %zu after they were destroyed", heap0, hb);
      key_cache = "dead";
      return;
    }
    if ((int)op < NADDR * P_COUNT) {
      int a = (int)op / P_COUNT, p = (int)op % P_COUNT;
      resolve_model(model, a, ix);
      ref::Value& mv = *model_at(model, ix);
      N& rn = *real_at<N>(*doc, ix);
      size_t f = 0, l = 0;
      if (p < P_AddMember0) {
        switch (p) {
          case P_SetNull: rn.SetNull(); mv = ref::Value::mk(ref::Null); break;
          case P_SetBool: rn.SetBool(true); mv = ref::Value::mk(ref::True); break;
          case P_SetInt: rn.SetInt64(-5); mv = ref::Value::mkI(-5); break;
          case P_SetUint: rn.SetUint64(7); mv = ref::Value::mkU(7); break;
          case P_SetDouble: rn.SetDouble(1.5); mv = ref::Value::mkD(1.5); break;
          case P_SetStrConst: rn.SetString("cs"); mv = ref::Value::mkS("cs"); mv.skind = kStringConst; break;
          case P_SetStrCopy: rn.SetString("ys", al); mv = ref::Value::mkS("ys"); mv.skind = kStringFree; break;
          case P_SetArray: rn.SetArray(); mv = ref::Value::mk(ref::Arr); break;
          case P_SetObject: rn.SetObject(); mv = ref::Value::mk(ref::Obj); break;
        }
      } else if (p < P_RemoveMember0) {
        int q = p - P_AddMember0;
        const std::string key(kKeys[q / 8].p, kKeys[q / 8].n);
        int val = (q / 2) % 4;
        bool copyKey = q % 2;
        typename N::MemberIterator it;
        if (copyKey) {
          // copyKey: the node must own its key afterwards - the caller's buffer is transient
          size_t kl = key.size();
          char* tmpk = (char*)std::malloc(kl ? kl : 1);
          std::memcpy(tmpk, key.data(), kl);
          it = rn.AddMember(StringView(tmpk, kl), leaf_node<N>(val), al, true);
          std::memset(tmpk, '#', kl ? kl : 1);
          std::free(tmpk);
        } else {
          it = rn.AddMember(StringView(kKeys[q / 8].p, kKeys[q / 8].n), leaf_node<N>(val), al, false);  // constant key: static storage
        }
        mv.o.emplace_back(key, leaf_value(val));
        if (it != rn.MemberBegin() + (mv.o.size() - 1) || !(it->name == StringView(key.data(), key.size())))
          ctx.violation("addmember_result", "dom_addmember_result", tr, "AddMember returned an iterator that is not the new last member");
      } else if (p < P_EraseMember0) {
        const std::string key(kKeys[p - P_RemoveMember0].p, kKeys[p - P_RemoveMember0].n);
        bool got = rn.RemoveMember(StringView(key.data(), key.size()));
        int fi = -1;
        for (size_t j = 0; j < mv.o.size(); j++)
          if (mv.o[j].first == key) {
            fi = (int)j;
            break;
          }
        if (got != (fi >= 0)) ctx.violation("removemember_result", "dom_removemember_result", tr, "RemoveMember(\"%s\") returned %d but the model %s the key", kKeys[p - P_RemoveMember0].shown, (int)got, fi >= 0 ? "has" : "lacks");
        if (fi >= 0) {
          if ((size_t)fi != mv.o.size() - 1) mv.o[(size_t)fi] = mv.o.back();
          mv.o.pop_back();
        }
      } else if (p < P_MemberReserve0) {
        range_ok(p - P_EraseMember0, mv.o.size(), f, l);
        auto it = rn.EraseMember(rn.MemberBegin() + f, rn.MemberBegin() + l);
        mv.o.erase(mv.o.begin() + (long)f, mv.o.begin() + (long)l);
        mv.aux = false;  // EraseMember drops the lookup map
        if (it != rn.MemberBegin() + std::min(f, mv.o.size()) && !(mv.o.empty() && it == rn.MemberEnd()))
          ctx.violation("erasemember_result", "dom_erasemember_result", tr, "EraseMember returned a wrong iterator");
      } else if (p < P_CreateMap) {
        rn.MemberReserve(kReserve[p - P_MemberReserve0], al);
      } else if (p == P_CreateMap) {
        bool ok = rn.CreateMap(al);
        if (!ok) ctx.violation("createmap_failed", "dom_createmap_failed", tr, "CreateMap returned false");
        mv.aux = true;
      } else if (p == P_DestroyMap) {
        rn.DestroyMap();
        mv.aux = false;
      } else if (p == P_Clear) {
        rn.Clear();
        mv.a.clear();
        mv.o.clear();
        mv.aux = false;
      } else if (p == P_AddMember17) {
        static const char* k17[17] = {"m0", "m1", "m2", "m3", "m4", "m5", "m6", "m7", "m8", "m9", "m10", "m11", "m12", "m13", "m14", "m15", "m16"};
        for (int i = 0; i < 17; i++) {
          if (i % 2) {
            std::string tmpk = k17[i];
            rn.AddMember(tmpk, N(uint64_t(i)), al, true);
            tmpk.assign(tmpk.size(), '#');
          } else {
            rn.AddMember(k17[i], N(uint64_t(i)), al, false);
          }
          mv.o.emplace_back(k17[i], ref::Value::mkU((uint64_t)i));
        }
      } else if (p < P_PopBack) {
        int val = p - P_PushBack0;
        rn.PushBack(leaf_node<N>(val), al);
        mv.a.push_back(leaf_value(val));
      } else if (p == P_PopBack) {
        rn.PopBack();
        mv.a.pop_back();
      } else if (p < P_Reserve0) {
        range_ok(p - P_Erase0, mv.a.size(), f, l);
        auto it = rn.Erase(f, l);
        mv.a.erase(mv.a.begin() + (long)f, mv.a.begin() + (long)l);
        if (it != rn.Begin() + f) ctx.violation("erase_result", "dom_erase_result", tr, "Erase returned a wrong iterator");
      } else if (p < P_Assign0) {
        rn.Reserve(kReserve[p - P_Reserve0], al);
      } else if (p < P_PushBack17) {
        int q = p - P_Assign0;
        size_t i = q / 2 ? mv.a.size() - 1 : 0;
        rn[i] = leaf_node<N>(q % 2 ? 2 : 0);
        mv.a[i] = leaf_value(q % 2 ? 2 : 0);
      } else {
        for (int i = 0; i < 17; i++) {
          rn.PushBack(N(uint64_t(i)), al);
          mv.a.push_back(ref::Value::mkU((uint64_t)i));
        }
      }
    } else {
      int o = (int)op;
      if (o < X_COPYEXT0) {
        int q = o - X_COPY0;
        int x = q / (NADDR * 2), y = (q / 2) % NADDR;
        bool cs = q % 2;
        resolve_model(model, x, ix);
        resolve_model(model, y, iy);
        N& rx = *real_at<N>(*doc, ix);
        N& ry = *real_at<N>(*doc, iy);
        rx.CopyFrom(ry, al, cs);
        ref::Value c = *model_at(model, iy);
        clear_maps(c);
        copy_strings(c, cs);
        *model_at(model, ix) = c;
      } else if (o < X_MOVE0) {
        int q = o - X_COPYEXT0;
        bool cs = q % 2;
        resolve_model(model, q / 2, ix);
        N& rx = *real_at<N>(*doc, ix);
        rx.CopyFrom(*ext, al, cs);
        ref::Value c = ext_model;
        clear_maps(c);
        copy_strings(c, cs);
        *model_at(model, ix) = c;
      } else if (o < X_SWAP0) {
        int q = o - X_MOVE0;
        resolve_model(model, q / NADDR, ix);
        resolve_model(model, q % NADDR, iy);
        N& rx = *real_at<N>(*doc, ix);
        N& ry = *real_at<N>(*doc, iy);
        rx = std::move(ry);
        if (ix != iy) {
          ref::Value moved = *model_at(model, iy);
          *model_at(model, iy) = ref::Value::mk(ref::Null);
          *model_at(model, ix) = moved;  // if Y was inside X it disappears together with old X
        }
      } else {
        int q = o - X_SWAP0;
        resolve_model(model, q / NADDR, ix);
        resolve_model(model, q % NADDR, iy);
        N& rx = *real_at<N>(*doc, ix);
        N& ry = *real_at<N>(*doc, iy);
        rx.Swap(ry);
        std::swap(*model_at(model, ix), *model_at(model, iy));
      }
    }
    // The oracle toggles lookup maps (DestroyMap + CreateMap rebuilds a map from scratch), which would repair a map
    // that an earlier operation left inconsistent.  So the state key is taken BEFORE the oracle runs, and prefix
    // replays (quiet) do not run the oracle at all: the explored states are exactly those the operations produce.
    key_cache = key_now();
    if (!ctx.quiet) verify(ctx, tr);
  }

  // toggling the lookup map on every object with distinct keys must not change anything observable
  void map_toggle(N& n, const ref::Value& m, vr::Ctx& ctx, const std::string& tr, const std::string& where) {
    if (m.k == ref::Arr) {
      for (size_t i = 0; i < m.a.size(); i++) map_toggle(n[i], m.a[i], ctx, tr, where + "[" + std::to_string(i) + "]");
      return;
    }
    if (m.k != ref::Obj) return;
    for (size_t i = 0; i < m.o.size(); i++) map_toggle((n.MemberBegin() + i)->value, m.o[i].second, ctx, tr, where + "." + m.o[i].first);
    if (has_dups(m) || n.Capacity() == 0) return;
    Alloc& al = doc->GetAllocator();
    size_t cap = n.Capacity();
    if (m.aux) {
      n.DestroyMap();
      std::string d = sc::compare(n, m, where);
      if (!d.empty()) ctx.violation("map_changes_result", "dom_map_changes_result", tr, "after DestroyMap: %s", d.c_str());
      n.CreateMap(al);
    } else {
      n.CreateMap(al);
      std::string d = sc::compare(n, m, where);
      if (!d.empty()) ctx.violation("map_changes_result", "dom_map_changes_result", tr, "after CreateMap: %s", d.c_str());
      n.DestroyMap();
    }
    if (n.Capacity() != cap) ctx.violation("map_changes_capacity", "dom_map_changes_capacity", tr, "%s: toggling the lookup map changed Capacity() %zu -> %zu", where.c_str(), cap, n.Capacity());
  }

  void verify(vr::Ctx& ctx, const std::string& tr) {
    if (kTrack && ta::ledger().errors) ctx.violation("ledger_error", "dom_ledger_error", tr, "%s", ta::ledger().first_error.c_str());
    std::string want = ref::write_json(model);
    std::string got = doc->Dump();
    if (got != want) {
      ctx.violation("dump_vs_model", "dom_dump_vs_model", tr, "Dump() = %s but the model is %s", got.c_str(), want.c_str());
      return;
    }
    std::string d = sc::compare(*doc, model);
    if (!d.empty()) {
      ctx.violation("accessor_vs_model", "dom_accessor_vs_model", tr, "%s", d.c_str());
      return;
    }
    map_toggle(*doc, model, ctx, tr, "$");
    // C06 on every reached state: output accepted by the independent recogniser, parses back equal, re-serialises identically
    ref::Result rp = ref::parse(got);
    if (!rp.ok || !ref::identical(rp.v, strip(model))) ctx.violation("dump_not_json", "dom_dump_roundtrip", tr, "Dump() %s does not parse back (reference) to the model value", got.c_str());
    Document back;
    back.Parse(got);
    if (back.HasParseError() || back.Dump() != got) ctx.violation("dump_reparse", "dom_dump_reparse", tr, "Parse(Dump()) failed or re-serialises differently: %s", got.c_str());
    if (!has_any_dups(model) && !(back == *doc)) ctx.violation("dump_reparse_equal", "dom_dump_reparse_equal", tr, "Parse(Dump()) is not == the original document: %s", got.c_str());
    // the external source must be untouched by CopyFrom
    if (ext->Dump() != ext_dump0) ctx.violation("source_modified", "dom_copy_source_modified", tr, "the source of CopyFrom changed: %s", ext->Dump().c_str());
  }
  static ref::Value strip(const ref::Value& v) {  // drop engine-only annotations for identical()
    return v;
  }
  static bool has_any_dups(const ref::Value& v) { return ref::has_dup_keys(v); }

  template <class NN>
  static void hidden(const NN& n, std::string& k) {
    char buf[48];
    if (n.IsString()) {
      snprintf(buf, sizeof buf, "s%d", (int)n.GetType());
      k += buf;
    } else if (n.IsArray()) {
      snprintf(buf, sizeof buf, "A%zu(", n.Capacity());
      k += buf;
      for (auto it = n.Begin(); it != n.End(); ++it) hidden(*it, k);
      k += ")";
    } else if (n.IsObject()) {
      // the number of entries of the lookup map is part of the state: a map that has drifted from the member
      // list (too many / too few entries) has different futures even while every lookup still answers correctly
      snprintf(buf, sizeof buf, "O%zu%c%zu(", n.Capacity(), n.getMap() ? 'M' : '-', n.getMap() ? (size_t)n.getMap()->size() : (size_t)0);
      k += buf;
      for (auto it = n.MemberBegin(); it != n.MemberEnd(); ++it) {
        snprintf(buf, sizeof buf, "k%d", (int)it->name.GetType());
        k += buf;
        hidden(it->value, k);
      }
      k += ")";
    } else
      k += ".";
  }
  std::string key_cache;
  std::string key() const { return key_cache.empty() ? key_now() : key_cache; }
  std::string key_now() const {
    if (dead) return "dead";
    std::string k = ref::show(model) + "|";
    if (kTrack) {
      // outstanding allocations are part of the state (a history that leaked must not be merged with one that did not)
      size_t lbytes = 0;
      for (auto& kv : ta::ledger().live) lbytes += kv.second;
      k += "led" + std::to_string(ta::ledger().live.size()) + "/" + std::to_string(lbytes) + "|";
    }
    hidden(*doc, k);
    return k;
  }
};

template <class Sim>
static void explore(vr::Runner& R, const std::string& name, unsigned depth, std::string& extra, uint64_t& states, uint64_t& trans, const vr::Args& args, int& replay_rc) {
  hb::Explorer<Sim> ex(R, name,
                       "BFS over mutation-API histories of a real document vs a plain-container model: menu of " + std::to_string(MENU) +
                           " operations = 7 node addresses ($, first/last child, member a, one level below) x {9 setters, AddMember(3 keys x 4 values x copyKey), RemoveMember, EraseMember/Erase ranges, MemberReserve/Reserve, CreateMap, DestroyMap, Clear, PushBack, PopBack, element assignment, x17 growth macros} + CopyFrom(node|external document, copyString) + move-assign (incl. from a descendant) + Swap + DestroyDocument; after every transition Dump()==model, every accessor agrees, map toggling changes nothing, Dump round-trips; states de-duplicated by model value + string kinds + capacities + map flags",
                       depth);
  if (args.replay) {
    if (args.replay_family.rfind(name + "_depth", 0) == 0) replay_rc = ex.replay(args.replay_idx);
    return;
  }
  const std::string only = args.get("only");
  if (!only.empty() && only != name) return;
  ex.run();
  states += ex.st.states;
  trans += ex.st.transitions;
  if (!extra.empty()) extra += ", ";
  extra += "\"" + name + "\": {" + ex.extra_json() + "}";
}

int main(int argc, char** argv) {
  vr::Args args = vr::parse_args(argc, argv);
  vr::Runner R(args);
  const bool quick = R.quick();
  ta::ledger().live.reserve(1 << 14);
  (void)addr_paths();  // function-local statics are built before any heap baseline is taken
#if defined(__SANITIZE_ADDRESS__)
  const unsigned depth = quick ? 2 : 3;
#else
  const unsigned depth = quick ? 3 : 4;
#endif
  std::string extra;
  uint64_t states = 0, trans = 0;
  int rrc = -1;
  explore<DomSim<PoolDoc, 0>>(R, "M_pool_null", depth + 1, extra, states, trans, args, rrc);
  explore<DomSim<TrackDoc, 0>>(R, "M_track_null", depth + 1, extra, states, trans, args, rrc);
  explore<DomSim<PoolDoc, 1>>(R, "M_pool_obj", depth - 1, extra, states, trans, args, rrc);
  explore<DomSim<TrackDoc, 2>>(R, "M_track_objmap", depth - 1, extra, states, trans, args, rrc);
  explore<DomSim<PoolDoc, 2>>(R, "M_pool_objmap", depth - 1, extra, states, trans, args, rrc);
  explore<DomSim<TrackDoc, 3>>(R, "M_track_arr", depth - 1, extra, states, trans, args, rrc);
  explore<DomSim<PoolDoc, 4>>(R, "M_pool_nestedmap", depth - 1, extra, states, trans, args, rrc);
  explore<DomSim<TrackDoc, 4>>(R, "M_track_nestedmap", depth - 1, extra, states, trans, args, rrc);
  explore<DomSim<TrackDoc, 5>>(R, "M_track_obj17map", depth - 1, extra, states, trans, args, rrc);
  explore<DomSim<PoolDoc, 5>>(R, "M_pool_obj17map", depth - 1, extra, states, trans, args, rrc);
  if (args.replay) return rrc < 0 ? 2 : rrc;
  std::string ej = "\"states\": " + std::to_string(states) + ", \"transitions\": " + std::to_string(trans) + ", \"explorers\": {" + extra + "}";
  return R.finish(ej);
}
