// Engine domsweep (C12, C13): the mutation API over containers of EVERY size.
// The BFS of domexplore reaches containers of at most a few dozen children; thresholds that depend on the
// member / element COUNT (default capacity 16, growth by 1.5, any per-size fast path or bit mask) are swept
// here instead: for every size n, every way of building the container, every state of the lookup map and every
// single operation, the result is compared with the plain-container model through all accessors.
//   history = build(n, how) ; map state ; ONE operation (some are loops) ; oracle ; destroy
// Exhaustive over (n, build, map state, operation); both the pool allocator and the ledger-tracking freeing
// allocator (ledger exact, nothing left allocated when the document dies).
#include <memory>

#include "common/families.hpp"
#include "common/fence_alloc.hpp"
#include "common/refjson.hpp"
#include "common/runner.hpp"
#include "common/sonic_cmp.hpp"
#include "common/track_alloc.hpp"
#include "sonic/sonic.h"

#if defined(__SANITIZE_ADDRESS__)
extern "C" size_t __sanitizer_get_current_allocated_bytes();
static size_t heap_bytes() { return __sanitizer_get_current_allocated_bytes(); }
#else
static size_t heap_bytes() { return 0; }
#endif

using namespace sonic_json;
using PoolDoc = Document;
using TrackDoc = GenericDocument<DNode<ta::TrackingAllocator>>;
// production builds: every block directly in front of an inaccessible page (see common/fence_alloc.hpp)
using FenceDoc = GenericDocument<DNode<fa::FenceAllocator>>;

// every 16th key is its predecessor plus a trailing NUL byte: distinct keys that differ only in length / by a NUL
static std::string kname(unsigned i) {
  if (i % 16 == 5) return "k" + std::to_string(i - 1) + std::string(1, '\0');
  return "k" + std::to_string(i);
}
// member values: a mix of kinds so that moved / copied nodes carry owned memory
template <class N, class A>
static N mkval(unsigned i, A& al) {
  switch (i % 4) {
    case 0: return N((uint64_t)i);
    case 1: {
      std::string s = "v" + std::to_string(i);
      return N(s.data(), s.size(), al);  // owned string
    }
    case 2: {
      N a;
      a.SetArray();
      a.PushBack(N((uint64_t)i), al);
      return a;
    }
    default: return N(kNull);
  }
}
static ref::Value mkref(unsigned i) {
  switch (i % 4) {
    case 0: return ref::Value::mkU(i);
    case 1: return ref::Value::mkS("v" + std::to_string(i));
    case 2: {
      ref::Value a = ref::Value::mk(ref::Arr);
      a.a.push_back(ref::Value::mkU(i));
      return a;
    }
    default: return ref::Value::mk(ref::Null);
  }
}

enum { NOPS_OBJ = 23, NOPS_ARR = 14 };
static const char* kObjOps[NOPS_OBJ] = {"RemoveMember(first)", "RemoveMember(middle)", "RemoveMember(last)", "RemoveMember(missing)", "EraseMember[0,1)", "EraseMember[n/2,n/2+1)", "EraseMember[n-1,n)",
                                         "EraseMember[0,n)", "EraseMember[1,n-1)", "AddMember(new)", "AddMember x (n+1)", "MemberReserve(n+1)", "MemberReserve(2n+3)", "Clear", "CopyFrom into another node",
                                         "move into another node", "DestroyMap", "CreateMap", "RemoveMember all from the front", "RemoveMember all from the back", "RemoveMember(middle) ; AddMember(same key)",
                                         "copy-construct a document from it", "CopyFrom with copyString=false ; the source document parses another text ; the copy is read"};
static const char* kArrOps[NOPS_ARR] = {"PopBack", "Erase[0,1)", "Erase[n/2,n/2+1)", "Erase[n-1,n)", "Erase[0,n)", "Erase[1,n-1)", "PushBack", "PushBack x (n+1)", "Reserve(n+1)", "Reserve(2n+3)", "Clear",
                                         "CopyFrom into another node", "move into another node", "a[n/2] = new value"};

template <class Doc>
struct Sweep {
  using N = typename Doc::NodeType;
  static constexpr bool kTrack = std::is_same<Doc, TrackDoc>::value;

  static void oracle(const N& n, const ref::Value& m, const std::string& desc, const char* stage, vr::Ctx& ctx) {
    std::string d = sc::compare(n, m);
    if (!d.empty()) {
      ctx.violation("accessor_vs_model", "sweep_accessor_vs_model", desc, "%s: %s", stage, d.c_str());
      return;
    }
    std::string got = n.Dump();
    ref::Result rp = ref::parse(got);
    if (!rp.ok || !ref::identical(rp.v, m)) ctx.violation("dump_vs_model", "sweep_dump_vs_model", desc, "%s: Dump() = %s", stage, got.substr(0, 300).c_str());
  }

  // objects ------------------------------------------------------------------------------------
  static void object_case(unsigned n, unsigned build, unsigned mapst, unsigned op, vr::Ctx& ctx) {
    std::string desc = "object of " + std::to_string(n) + " members, built by " + (build == 0 ? "AddMember(copyKey)" : build == 1 ? "AddMember(constant keys)" : "Parse") +
                       ", map " + (mapst == 0 ? "absent" : mapst == 1 ? "created after the build" : "created half way through the build") + ", then " + kObjOps[op];
    if (ctx.want_sample) ctx.sample(desc);
    ctx.eval();
    ctx.nontriv();
    size_t h0 = heap_bytes();
    if (kTrack) ta::ledger().reset();
    {
      static std::vector<std::string> keystore;  // constant keys must outlive the documents
      if (keystore.size() < 3000) {
        keystore.clear();
        for (unsigned i = 0; i < 3000; i++) keystore.push_back(kname(i));
        h0 = heap_bytes();
      }
      Doc doc;
      auto& al = doc.GetAllocator();
      ref::Value m = ref::Value::mk(ref::Obj);
      for (unsigned i = 0; i < n; i++) m.o.emplace_back(kname(i), mkref(i));
      if (build == 2) {
        std::string text = ref::write_json(m);
        doc.Parse(text);
        if (doc.HasParseError()) {
          ctx.violation("harness", "harness_generator", desc, "harness error: generated text rejected");
          return;
        }
        if (mapst) doc.CreateMap(al);
      } else {
        doc.SetObject();
        for (unsigned i = 0; i < n; i++) {
          if (mapst == 2 && i == n / 2) doc.CreateMap(al);
          if (build == 0) {
            std::string tmp = kname(i);
            doc.AddMember(StringView(tmp.data(), tmp.size()), mkval<N>(i, al), al, true);
            tmp.assign(tmp.size(), '#');
          } else
            doc.AddMember(StringView(keystore[i].data(), keystore[i].size()), mkval<N>(i, al), al, false);
        }
        if (mapst == 1 || (mapst == 2 && n / 2 >= n)) doc.CreateMap(al);
      }
      oracle(doc, m, desc, "after the build", ctx);
      auto remove = [&](const std::string& k) {
        bool got = doc.RemoveMember(StringView(k.data(), k.size()));
        int fi = -1;
        for (size_t j = 0; j < m.o.size(); j++)
          if (m.o[j].first == k) {
            fi = (int)j;
            break;
          }
        if (got != (fi >= 0)) ctx.violation("removemember_result", "sweep_removemember_result", desc, "RemoveMember(%s) returned %d", k.c_str(), (int)got);
        if (fi >= 0) {
          if ((size_t)fi != m.o.size() - 1) m.o[(size_t)fi] = m.o.back();
          m.o.pop_back();
        }
      };
      auto erase = [&](size_t f, size_t l) {
        if (f > l || l > m.o.size()) return;
        auto it = doc.EraseMember(doc.MemberBegin() + (long)f, doc.MemberBegin() + (long)l);
        m.o.erase(m.o.begin() + (long)f, m.o.begin() + (long)l);
        if (it != doc.MemberBegin() + (long)std::min(f, m.o.size())) ctx.violation("erasemember_result", "sweep_erasemember_result", desc, "EraseMember returned a wrong iterator");
      };
      auto add = [&](unsigned i) {
        std::string tmp = kname(i);
        auto it = doc.AddMember(StringView(tmp.data(), tmp.size()), mkval<N>(i, al), al, true);
        m.o.emplace_back(tmp, mkref(i));
        if (it != doc.MemberBegin() + (long)(m.o.size() - 1)) ctx.violation("addmember_result", "sweep_addmember_result", desc, "AddMember returned an iterator that is not the new last member");
      };
      std::unique_ptr<Doc> other;
      switch (op) {
        case 0: if (n) remove(kname(0)); break;
        case 1: if (n) remove(kname(n / 2)); break;
        case 2: if (n) remove(kname(n - 1)); break;
        case 3: remove("missing-key"); break;
        case 4: if (n) erase(0, 1); break;
        case 5: if (n) erase(n / 2, n / 2 + 1); break;
        case 6: if (n) erase(n - 1, n); break;
        case 7: erase(0, n); break;
        case 8: if (n >= 2) erase(1, n - 1); break;
        case 9: add(n); break;
        case 10: for (unsigned i = 0; i <= n; i++) add(n + i); break;
        case 11: doc.MemberReserve(n + 1, al); break;
        case 12: doc.MemberReserve(2 * (size_t)n + 3, al); break;
        case 13: doc.Clear(); m.o.clear(); break;
        case 14: {
          other.reset(new Doc());
          other->SetArray();
          other->PushBack(N(kNull), other->GetAllocator());
          (*other)[0].CopyFrom(doc, other->GetAllocator(), true);
          ref::Value om = ref::Value::mk(ref::Arr);
          om.a.push_back(m);
          oracle(*other, om, desc, "the copy", ctx);
          // the copy is independent: change the source, look at the copy again
          if (n) remove(kname(n / 2));
          add(n + 7);
          oracle(*other, om, desc, "the copy after its source changed", ctx);
          if (!((*other)[0] != doc)) ctx.violation("copy_equal_after_change", "sweep_copy_equal_after_change", desc, "copy still compares equal to its changed source");
          break;
        }
        case 15: {
          N tmp(std::move(static_cast<N&>(doc)));
          ref::Value mm = m;
          m = ref::Value::mk(ref::Null);
          oracle(doc, m, desc, "the moved-from node", ctx);
          static_cast<N&>(doc) = std::move(tmp);
          m = mm;
          break;
        }
        case 16: doc.DestroyMap(); break;
        case 17: doc.CreateMap(al); break;
        case 18: for (unsigned i = 0; i < n; i++) remove(kname(i)); break;
        case 19: for (unsigned i = n; i-- > 0;) remove(kname(i)); break;
        case 20: if (n) { remove(kname(n / 2)); add(n / 2); } break;
        case 21: {
          other.reset(new Doc());
          other->CopyFrom(doc, other->GetAllocator(), true);
          oracle(*other, m, desc, "a document copied from it", ctx);
          bool eq = static_cast<const N&>(*other) == static_cast<const N&>(doc);
          if (!eq) ctx.violation("copy_not_equal", "sweep_copy_not_equal", desc, "a deep copy does not compare equal to its source");
          break;
        }
        case 22: {
          // the default CopyFrom (copyString = false) may share CONSTANT strings with its source, never strings
          // the source document owns (copied keys, the text buffer of a parsed document): the source parses
          // another text (its old buffers go back to a freeing allocator), then the copy is read
          other.reset(new Doc());
          other->CopyFrom(doc, other->GetAllocator());
          oracle(*other, m, desc, "the copy", ctx);
          ref::Value keepm = m;
          doc.Parse("[\"another text, longer than the short keys of the first one ..............................\"]");
          oracle(*other, keepm, desc, "the copy after its source parsed another text", ctx);
          m = ref::Value::mk(ref::Arr);
          m.a.push_back(ref::Value::mkS("another text, longer than the short keys of the first one .............................."));
          ref::release(keepm);
          break;
        }
      }
      oracle(doc, m, desc, "after the operation", ctx);
      // toggling the lookup map must change nothing
      if (doc.IsObject() && doc.Capacity() > 0) {
        doc.CreateMap(al);
        oracle(doc, m, desc, "after the operation, with a lookup map", ctx);
        doc.DestroyMap();
        oracle(doc, m, desc, "after the operation, lookup map destroyed", ctx);
      }
      ref::release(m);
    }
    finish(desc, h0, ctx);
  }

  // arrays -------------------------------------------------------------------------------------
  static void array_case(unsigned n, unsigned build, unsigned op, vr::Ctx& ctx) {
    std::string desc = "array of " + std::to_string(n) + " elements, built by " + (build == 0 ? "PushBack" : build == 1 ? "Reserve(n)+PushBack" : "Parse") + ", then " + kArrOps[op];
    if (ctx.want_sample) ctx.sample(desc);
    ctx.eval();
    ctx.nontriv();
    size_t h0 = heap_bytes();
    if (kTrack) ta::ledger().reset();
    {
      Doc doc;
      auto& al = doc.GetAllocator();
      ref::Value m = ref::Value::mk(ref::Arr);
      for (unsigned i = 0; i < n; i++) m.a.push_back(mkref(i));
      if (build == 2) {
        std::string text = ref::write_json(m);
        doc.Parse(text);
      } else {
        doc.SetArray();
        if (build == 1) doc.Reserve(n, al);
        for (unsigned i = 0; i < n; i++) doc.PushBack(mkval<N>(i, al), al);
      }
      oracle(doc, m, desc, "after the build", ctx);
      auto erase = [&](size_t f, size_t l) {
        if (f > l || l > m.a.size()) return;
        auto it = doc.Erase(f, l);
        m.a.erase(m.a.begin() + (long)f, m.a.begin() + (long)l);
        if (it != doc.Begin() + (long)f) ctx.violation("erase_result", "sweep_erase_result", desc, "Erase returned a wrong iterator");
      };
      std::unique_ptr<Doc> other;
      switch (op) {
        case 0: if (n) { doc.PopBack(); m.a.pop_back(); } break;
        case 1: if (n) erase(0, 1); break;
        case 2: if (n) erase(n / 2, n / 2 + 1); break;
        case 3: if (n) erase(n - 1, n); break;
        case 4: erase(0, n); break;
        case 5: if (n >= 2) erase(1, n - 1); break;
        case 6: doc.PushBack(mkval<N>(n, al), al); m.a.push_back(mkref(n)); break;
        case 7: for (unsigned i = 0; i <= n; i++) { doc.PushBack(mkval<N>(n + i, al), al); m.a.push_back(mkref(n + i)); } break;
        case 8: doc.Reserve(n + 1, al); break;
        case 9: doc.Reserve(2 * (size_t)n + 3, al); break;
        case 10: doc.Clear(); m.a.clear(); break;
        case 11: {
          other.reset(new Doc());
          other->SetObject();
          other->AddMember("c", N(kNull), other->GetAllocator());
          other->MemberBegin()->value.CopyFrom(doc, other->GetAllocator(), true);
          ref::Value om = ref::Value::mk(ref::Obj);
          om.o.emplace_back("c", m);
          oracle(*other, om, desc, "the copy", ctx);
          if (n) { doc.PopBack(); m.a.pop_back(); }
          doc.PushBack(N("changed"), al);
          m.a.push_back(ref::Value::mkS("changed"));
          oracle(*other, om, desc, "the copy after its source changed", ctx);
          break;
        }
        case 12: {
          N tmp(std::move(static_cast<N&>(doc)));
          ref::Value mm = m;
          m = ref::Value::mk(ref::Null);
          oracle(doc, m, desc, "the moved-from node", ctx);
          static_cast<N&>(doc) = std::move(tmp);
          m = mm;
          break;
        }
        case 13: if (n) { doc[n / 2] = mkval<N>(n + 1, al); m.a[n / 2] = mkref(n + 1); } break;
      }
      oracle(doc, m, desc, "after the operation", ctx);
      ref::release(m);
    }
    finish(desc, h0, ctx);
  }

  static void finish(const std::string& desc, size_t h0, vr::Ctx& ctx) {
    if (std::is_same<Doc, FenceDoc>::value) {
      if (fa::table().errors || !fa::table().live.empty()) {
        ctx.violation("fence_ledger", "sweep_fence_ledger", desc, "fence allocator: %d foreign frees, %zu blocks still allocated after the documents died", fa::table().errors, fa::table().live.size());
        fa::table().errors = 0;
      }
    }
    if (kTrack) {
      ta::Ledger& L = ta::ledger();
      if (L.errors) ctx.violation("ledger_error", "sweep_ledger_error", desc, "%s", L.first_error.c_str());
      if (!L.live.empty()) {
        ctx.violation("ledger_leak", "sweep_ledger_leak", desc, "%zu blocks still allocated after the documents died", L.live.size());
        for (auto& kv : L.live) std::free(kv.first);
        L.live.clear();
      }
    }
    size_t h1 = heap_bytes();
    if (h1 != h0) ctx.violation("heap_imbalance", "sweep_heap_imbalance", desc, "heap bytes %zu before, %zu after the documents died", h0, h1);
  }

  // duplicate-key histories ----------------------------------------------------------------------
  // An object is built by AddMember over a 4-key alphabet (so that keys repeat), the lookup map is created before
  // or after the build or not at all, then up to three RemoveMember calls follow. The oracle is step-wise: the
  // member list read through iteration must be exactly the built sequence, and after each RemoveMember(k) it must
  // be the previous list with ONE member named k replaced by the last member (any of the duplicates - exact when
  // the name is unique). After every step each key is looked up through every entry point, with the map, without
  // it and with a rebuilt map: the result must be a member that bears the key (the very member when the key is
  // unique), and a miss exactly when no member bears it. When all names are distinct again, == must be reflexive
  // and agree with a deep copy and with a parse of the dump, in both operand orders.
  struct Mem {
    std::string key;
    long id;
    bool operator==(const Mem& o) const { return key == o.key && id == o.id; }
  };
  static std::vector<Mem> read_members(const N& n) {
    std::vector<Mem> v;
    for (auto it = n.MemberBegin(); it != n.MemberEnd(); ++it) {
      Mem m;
      m.key.assign(it->name.GetStringView().data(), it->name.GetStringView().size());
      if (it->value.IsUint64())
        m.id = (long)it->value.GetUint64();
      else if (it->value.IsString() && it->value.Size() >= 2)
        m.id = std::atol(std::string(it->value.GetStringView().data() + 1, it->value.Size() - 1).c_str());
      else
        m.id = -1;
      v.push_back(m);
    }
    return v;
  }
  static bool lookups_ok(N& n, const std::vector<Mem>& L, const char* stage, const std::string& desc, vr::Ctx& ctx) {
    static const char* K[5] = {"a", "b", "c", "d", "zz"};
    if (n.Size() != L.size()) {
      ctx.violation("dup_history", "sweep_dup_size", desc, "%s: Size() = %zu but iteration yields %zu members", stage, (size_t)n.Size(), L.size());
      return false;
    }
    for (const char* k : K) {
      std::vector<size_t> P;
      for (size_t i = 0; i < L.size(); i++)
        if (L[i].key == k) P.push_back(i);
      auto judge = [&](const char* how, bool found, size_t index, long id) {
        if (P.empty() ? found : (!found || std::find(P.begin(), P.end(), index) == P.end() || L[index].id != id)) {
          ctx.violation("dup_history", "sweep_dup_lookup", desc, "%s: %s(\"%s\") %s%zu, but the members named so are at %zu position(s)%s", stage, how, k, found ? "finds index " : "misses, index ", found ? index : (size_t)0, P.size(),
                        P.size() == 1 ? (" (index " + std::to_string(P[0]) + ")").c_str() : "");
          return false;
        }
        return true;
      };
      auto idof = [](const N& v) -> long { return v.IsUint64() ? (long)v.GetUint64() : v.IsString() && v.Size() >= 2 ? std::atol(std::string(v.GetStringView().data() + 1, v.Size() - 1).c_str()) : -1; };
      auto it = n.FindMember(StringView(k));
      if (!judge("FindMember(view)", it != n.MemberEnd(), it != n.MemberEnd() ? (size_t)(it - n.MemberBegin()) : 0, it != n.MemberEnd() ? idof(it->value) : 0)) return false;
      auto it2 = n.FindMember(k, std::strlen(k));
      if (!judge("FindMember(ptr,len)", it2 != n.MemberEnd(), it2 != n.MemberEnd() ? (size_t)(it2 - n.MemberBegin()) : 0, it2 != n.MemberEnd() ? idof(it2->value) : 0)) return false;
      if (n.HasMember(StringView(k)) != !P.empty()) {
        ctx.violation("dup_history", "sweep_dup_lookup", desc, "%s: HasMember(\"%s\") = %d with %zu members of that name", stage, k, (int)n.HasMember(StringView(k)), P.size());
        return false;
      }
      const N& cn = n;
      const N& sub = cn[StringView(k)];
      if (P.empty() ? !sub.IsNull() : (sub.IsNull() || [&] {
            long id = idof(sub);
            for (size_t i : P)
              if (L[i].id == id) return false;
            return true;
          }())) {
        ctx.violation("dup_history", "sweep_dup_lookup", desc, "%s: operator[](\"%s\") returns a value that no member of that name holds", stage, k);
        return false;
      }
    }
    return true;
  }
  static void dup_case(uint64_t code, vr::Ctx& ctx) {
    // decode: removal sequence (1..3 keys), map point (0..2), build sequence (2..5 keys)
    static const char* K[4] = {"a", "b", "c", "d"};
    unsigned r = (unsigned)(code % 84);
    code /= 84;
    unsigned mappoint = (unsigned)(code % 3);
    unsigned b = (unsigned)(code / 3);
    std::vector<unsigned> rem, bld;
    {
      unsigned m = r < 4 ? 1 : r < 20 ? 2 : 3, x = r < 4 ? r : r < 20 ? r - 4 : r - 20;
      for (unsigned i = 0; i < m; i++, x /= 4) rem.push_back(x % 4);
      unsigned n = b < 16 ? 2 : b < 80 ? 3 : b < 336 ? 4 : 5, y = b < 16 ? b : b < 80 ? b - 16 : b < 336 ? b - 80 : b - 336;
      for (unsigned i = 0; i < n; i++, y /= 4) bld.push_back(y % 4);
    }
    std::string desc = std::string(mappoint == 1 ? "CreateMap ; " : "");
    for (unsigned k : bld) desc += std::string("AddMember(") + K[k] + ") ; ";
    if (mappoint == 2) desc += "CreateMap ; ";
    for (unsigned k : rem) desc += std::string("RemoveMember(") + K[k] + ") ; ";
    if (ctx.want_sample) ctx.sample(desc);
    ctx.eval();
    bool has_dup = false;
    for (size_t i = 0; i < bld.size(); i++)
      for (size_t j = i + 1; j < bld.size(); j++) has_dup |= bld[i] == bld[j];
    if (has_dup && mappoint) ctx.nontriv();
    size_t h0 = heap_bytes();
    if (kTrack) ta::ledger().reset();
    {
      Doc doc;
      auto& al = doc.GetAllocator();
      doc.SetObject();
      if (mappoint == 1) doc.CreateMap(al);
      std::vector<Mem> L;
      for (size_t i = 0; i < bld.size(); i++) {
        N v;
        if (i % 2) {
          std::string sv = "v" + std::to_string(i);
          v = N(sv.data(), sv.size(), al);
        } else
          v = N((uint64_t)i);
        doc.AddMember(StringView(K[bld[i]]), std::move(v), al, i % 2 == 0);
        L.push_back(Mem{K[bld[i]], (long)i});
      }
      if (mappoint == 2) doc.CreateMap(al);
      std::vector<Mem> got = read_members(doc);
      if (!(got == L)) {
        ctx.violation("dup_history", "sweep_dup_build", desc, "after the build the member list is not the sequence of AddMember calls");
        return;
      }
      if (!lookups_ok(doc, L, "after the build", desc, ctx)) return;
      for (size_t s = 0; s < rem.size(); s++) {
        const char* k = K[rem[s]];
        bool present = false;
        for (auto& m : L) present |= m.key == k;
        bool ret = doc.RemoveMember(StringView(k));
        std::string stage = "after RemoveMember(" + std::string(k) + ") no. " + std::to_string(s + 1);
        if (ret != present) {
          ctx.violation("dup_history", "sweep_dup_remove", desc, "%s: returned %d but a member of that name was %s", stage.c_str(), (int)ret, present ? "present" : "absent");
          return;
        }
        got = read_members(doc);
        bool legal = false;
        if (!present)
          legal = got == L;
        else
          for (size_t i = 0; i < L.size() && !legal; i++) {
            if (L[i].key != k) continue;
            std::vector<Mem> exp = L;
            exp[i] = exp.back();
            exp.pop_back();
            legal = got == exp;
          }
        if (!legal) {
          ctx.violation("dup_history", "sweep_dup_remove", desc, "%s: the member list is not the previous one with one member of that name replaced by the last", stage.c_str());
          return;
        }
        L = got;
        if (!lookups_ok(doc, L, stage.c_str(), desc, ctx)) return;
      }
      // distinct names again: lookups exact with the map toggled, == reflexive and agreeing with copies
      bool distinct = true;
      for (size_t i = 0; i < L.size(); i++)
        for (size_t j = i + 1; j < L.size(); j++) distinct &= L[i].key != L[j].key;
      if (distinct) {
        if (!(doc == doc)) ctx.violation("dup_history", "sweep_dup_equality", desc, "the object is not == itself");
        {
          Doc c;
          c.CopyFrom(doc, c.GetAllocator());
          if (!(c == doc) || !(doc == c)) ctx.violation("dup_history", "sweep_dup_equality", desc, "deep copy: copy == obj is %d, obj == copy is %d", (int)(c == doc), (int)(doc == c));
          Doc p;
          std::string text = doc.Dump();
          p.Parse(text);
          if (p.HasParseError() || !(p == doc) || !(doc == p)) ctx.violation("dup_history", "sweep_dup_equality", desc, "parse of the dump %s: parsed == obj is %d, obj == parsed is %d", text.c_str(), (int)(p == doc), (int)(doc == p));
        }
      }
      doc.DestroyMap();
      if (!lookups_ok(doc, L, "after DestroyMap", desc, ctx)) return;
      doc.CreateMap(al);
      if (!lookups_ok(doc, L, "after CreateMap again", desc, ctx)) return;
    }
    if (std::is_same<Doc, FenceDoc>::value) {
      if (fa::table().errors || !fa::table().live.empty()) {
        ctx.violation("fence_ledger", "sweep_fence_ledger", desc, "fence allocator: %d foreign frees, %zu blocks still allocated after the documents died", fa::table().errors, fa::table().live.size());
        fa::table().errors = 0;
      }
    }
    if (kTrack) {
      ta::Ledger& L2 = ta::ledger();
      if (L2.errors) ctx.violation("ledger_error", "sweep_ledger_error", desc, "%s", L2.first_error.c_str());
      if (!L2.live.empty()) {
        ctx.violation("ledger_leak", "sweep_ledger_leak", desc, "%zu blocks still allocated after the documents died", L2.live.size());
        for (auto& kv : L2.live) std::free(kv.first);
        L2.live.clear();
      }
    }
    size_t h1 = heap_bytes();
    if (h1 != h0) ctx.violation("heap_imbalance", "sweep_heap_imbalance", desc, "heap bytes %zu before, %zu after the documents died", h0, h1);
  }
};

int main(int argc, char** argv) {
  vr::Args args = vr::parse_args(argc, argv);
  vr::Runner R(args);
  const bool quick = R.quick();
  ta::ledger().live.reserve(1 << 14);
  static std::vector<unsigned> NS;
  for (unsigned n = 0; n <= (quick ? 70u : 130u); n++) NS.push_back(n);
  for (unsigned b : {128u, 256u, 1024u})
    for (int d = -1; d <= 1; d++)
      if (b + d > (quick ? 70u : 130u) && !(quick && b == 1024u)) NS.push_back(b + d);
  const std::string sizes = std::string("every n in 0..") + (quick ? "70 and 127..129, 255..257" : "130 and 255..257, 1023..1025");
#if defined(__SANITIZE_ADDRESS__)
  const unsigned NALLOC = 2;
#else
  const unsigned NALLOC = 3;  // + the fence allocator
#endif
  vr::Family fo, fa;
  fo.name = "W_objects";
  fo.count = (uint64_t)NS.size() * 3 * 3 * NOPS_OBJ * NALLOC;
  fo.group = "WO";
  fo.chunk = 16;
  fo.rule = "objects of " + sizes + " members with values of four kinds, built in 3 ways (AddMember with copied keys / with constant keys / Parse) x 3 lookup-map states (absent / created after the build / created half way so that later AddMembers update it) x " +
            std::to_string((int)NOPS_OBJ) + " operations (RemoveMember of the first / middle / last / a missing key, 5 EraseMember ranges, AddMember once and n+1 times, MemberReserve, Clear, CopyFrom + change of the source, move out and back, DestroyMap, CreateMap, RemoveMember of all members from either end, remove + re-add, document copy + ==) x pool / ledger-tracking freeing allocator / (production builds) fence allocator that puts every block directly in front of an inaccessible page; after the build and after the operation every accessor (keyed lookups included) agrees with the model, with the lookup map toggled on and off, Dump() round-trips, and nothing stays allocated";
  fa.name = "W_arrays";
  fa.count = (uint64_t)NS.size() * 3 * NOPS_ARR * NALLOC;
  fa.group = "WA";
  fa.chunk = 16;
  fa.rule = "arrays of " + sizes + " elements built in 3 ways (PushBack / Reserve + PushBack / Parse) x " + std::to_string((int)NOPS_ARR) + " operations (PopBack, 5 Erase ranges, PushBack once and n+1 times, Reserve, Clear, CopyFrom + change of the source, move out and back, element assignment) x the two allocators; same oracle";
  vr::Family fd;
  fd.name = "W_duplicate_histories";
  fd.count = 1360ull * 3 * 84 * NALLOC;
  fd.group = "WD";
  fd.chunk = 256;
  fd.rule = "objects built by every sequence of 2..5 AddMember calls over the keys a,b,c,d (names repeat; copied and constant keys, owned-string and integer values), lookup map absent / created before the build / after it, followed by every sequence of 1..3 RemoveMember calls: step-wise conformance (the member list is the previous one with one member of that name replaced by the last), every key looked up through FindMember(view / ptr,len), HasMember, operator[] after every step and with the map destroyed and rebuilt (a member bearing the key; the very one when unique; a miss iff none), == reflexive and equal to deep copy / parse of the dump in both orders once names are distinct; pool / ledger / fence allocator";
  vr::CheckFn check = [&](const vr::Family& f, uint64_t idx, vr::Ctx& ctx) {
    // first call in this process: run representative cases once with the oracle muted, so that one-time
    // allocations of the harness and of the C++ runtime are not taken for a heap imbalance of the first case
    static bool warm = false;
    if (!warm) {
      warm = true;
      bool q = ctx.quiet;
      ctx.quiet = true;
      for (unsigned op = 0; op < NOPS_OBJ; op++) {
        Sweep<PoolDoc>::object_case(20, op % 3, op % 3, op, ctx);
        Sweep<TrackDoc>::object_case(20, op % 3, op % 3, op, ctx);
      }
      for (unsigned op = 0; op < NOPS_ARR; op++) {
        Sweep<PoolDoc>::array_case(20, op % 3, op, ctx);
        Sweep<TrackDoc>::array_case(20, op % 3, op, ctx);
      }
      for (uint64_t c : {0ull, 100000ull, 342000ull}) {
        Sweep<PoolDoc>::dup_case(c, ctx);
        Sweep<TrackDoc>::dup_case(c, ctx);
      }
      ctx.quiet = q;
    }
    unsigned alloc = (unsigned)(idx % NALLOC);
    idx /= NALLOC;
    if (f.name[2] == 'd') {
      if (alloc == 0)
        Sweep<PoolDoc>::dup_case(idx, ctx);
      else if (alloc == 1)
        Sweep<TrackDoc>::dup_case(idx, ctx);
      else
        Sweep<FenceDoc>::dup_case(idx, ctx);
      return;
    }
    if (f.name[2] == 'o') {
      unsigned op = (unsigned)(idx % NOPS_OBJ);
      idx /= NOPS_OBJ;
      unsigned mapst = (unsigned)(idx % 3);
      idx /= 3;
      unsigned build = (unsigned)(idx % 3);
      unsigned n = NS[idx / 3];
      if (alloc == 0)
        Sweep<PoolDoc>::object_case(n, build, mapst, op, ctx);
      else if (alloc == 1)
        Sweep<TrackDoc>::object_case(n, build, mapst, op, ctx);
      else
        Sweep<FenceDoc>::object_case(n, build, mapst, op, ctx);
    } else {
      unsigned op = (unsigned)(idx % NOPS_ARR);
      idx /= NOPS_ARR;
      unsigned build = (unsigned)(idx % 3);
      unsigned n = NS[idx / 3];
      if (alloc == 0)
        Sweep<PoolDoc>::array_case(n, build, op, ctx);
      else if (alloc == 1)
        Sweep<TrackDoc>::array_case(n, build, op, ctx);
      else
        Sweep<FenceDoc>::array_case(n, build, op, ctx);
    }
  };
  std::vector<vr::Family> fams = {fo, fa, fd};
  if (args.replay) return R.replay_one(fams, check);
  const std::string only = args.get("only");
  for (auto& f : fams)
    if (only.empty() || only == f.name) R.run(f, check);
  return R.finish();
}
