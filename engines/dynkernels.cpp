// Engine dynkernels (C15): the runtime-dispatch build compiles the SSE4.2 and the AVX2 kernels into one
// binary and picks one per process; on this machine the public entry points always pick AVX2, so the SSE
// bodies OF THAT BUILD (which can differ from the static SSE build's bodies: include order, macro state,
// wrapper signatures) never run through the API.  This engine calls both namespaces directly, kernel by
// kernel, on exhaustive input families and demands identical results; together with the digest comparison
// (dispatch build via AVX2 == static builds) this closes the "westmere variant of the dispatch build" gap.
//   K1 parseStringInplace   K2 SkipString   K3 SkipContainer   K4 skip_space / skip_space_safe   K5 Quote
// Only meaningful with -DSONIC_DYNAMIC_DISPATCH.
#include <memory>

#include "common/families.hpp"
#include "common/refjson.hpp"
#include "common/runner.hpp"
#include "sonic/sonic.h"

using namespace sonic_json;

#ifdef SONIC_DYNAMIC_DISPATCH
#define T_SSE __attribute__((target(SONIC_WESTMERE)))
#define T_AVX __attribute__((target(SONIC_HASWELL)))
T_SSE static size_t psi_sse(uint8_t*& s, SonicError& e) { return internal::sse::parseStringInplace(s, e); }
T_AVX static size_t psi_avx(uint8_t*& s, SonicError& e) { return internal::avx2::parseStringInplace(s, e); }
T_SSE static int sks_sse(const uint8_t* d, size_t& p, size_t n) { return internal::sse::SkipString(d, p, n); }
T_AVX static int sks_avx(const uint8_t* d, size_t& p, size_t n) { return internal::avx2::SkipString(d, p, n); }
T_SSE static bool skc_sse(const uint8_t* d, size_t& p, size_t n, uint8_t l, uint8_t r) { return internal::sse::SkipContainer(d, p, n, l, r); }
T_AVX static bool skc_avx(const uint8_t* d, size_t& p, size_t n, uint8_t l, uint8_t r) { return internal::avx2::SkipContainer(d, p, n, l, r); }
T_SSE static uint8_t sp_sse(const uint8_t* d, size_t& p, size_t& e, uint64_t& b) { return internal::sse::skip_space(d, p, e, b); }
T_AVX static uint8_t sp_avx(const uint8_t* d, size_t& p, size_t& e, uint64_t& b) { return internal::avx2::skip_space(d, p, e, b); }
T_SSE static uint8_t sps_sse(const uint8_t* d, size_t& p, size_t n, size_t& e, uint64_t& b) { return internal::sse::skip_space_safe(d, p, n, e, b); }
T_AVX static uint8_t sps_avx(const uint8_t* d, size_t& p, size_t n, size_t& e, uint64_t& b) { return internal::avx2::skip_space_safe(d, p, n, e, b); }
T_SSE static char* q_sse(const char* s, size_t n, char* d) { return internal::sse::Quote(s, n, d); }
T_AVX static char* q_avx(const char* s, size_t n, char* d) { return internal::avx2::Quote(s, n, d); }
#endif

int main(int argc, char** argv) {
  vr::Args args = vr::parse_args(argc, argv);
  vr::Runner R(args);
#ifndef SONIC_DYNAMIC_DISPATCH
  (void)R;
  fprintf(stderr, "dynkernels: build with -DSONIC_DYNAMIC_DISPATCH\n");
  return 2;
#else
  const bool quick = R.quick();
  // string bodies: atoms incl. every kind of escape and malformed piece
  static const std::vector<std::string> atoms = {"",     "a",          "\\n",        "\\\"",   "\\\\",          "\\/",      "\\u0041",     "\\u00e9",       "\\ud83d\\ude00", "\\ud800", "\\udc00",
                                                 "\\x",  "\\u12G4",    "\x01",       "\x1f",   "\x7f\x80\xff",  "\\",       "\\u\x10" "041", "\\ud800\\u0041", "\"",             "\\b\\f",  "\\r\\t"};
  const unsigned NA = (unsigned)atoms.size(), NP = 71, NG = quick ? 3 : 6;
  static const unsigned gaps[6] = {0, 1, 13, 15, 29, 31};
  vr::Family k1, k2, k3, k4, k5;
  k1.name = "K1_parseStringInplace";
  k1.count = (uint64_t)NA * NA * NP * NG;
  k1.group = "K1";
  k1.chunk = 1024;
  k1.rule = "string bodies p plain bytes (p in 0..70) + atom + gap + atom over " + std::to_string(NA) + " atoms (all escapes, surrogates paired / lone, malformed escapes, raw control and high bytes, embedded quote, trailing backslash): sse:: and avx2::parseStringInplace of the dispatch build agree on accept/reject, decoded length, consumed bytes and decoded bytes (error codes of rejected literals are not compared)";
  k2 = k1;
  k2.name = "K2_SkipString";
  k2.group = "K2";
  k2.count = k1.count * 2;
  k2.rule = "the same bodies, closed and cut before the closing quote: sse:: and avx2::SkipString agree on the result (unclosed / plain / had escapes) and the end position";
  auto texts = std::make_shared<std::vector<std::string>>(
      fam::valid_texts_by_budget(quick ? 7 : 9, {"1", "\"a\"", "\"]\\\"{\"", "\"\\\\\"", "\"}[\""}, {"\"a\"", "\"\\u0061\"", "\"]\""}));
  k3.name = "K3_SkipContainer";
  k3.count = (uint64_t)texts->size() * 72 * 3;
  k3.group = "K3";
  k3.chunk = 512;
  k3.rule = "every valid container text (token budget, strings holding brackets / escaped quotes / backslashes) preceded inside its brackets by n in 0..71 pad digits, complete / cut one byte short / cut in the middle: sse:: and avx2::SkipContainer agree on closed / not closed and the end position";
  k4.name = "K4_skip_space";
  k4.count = 71ull * 136 * 4;
  k4.group = "K4";
  k4.chunk = 256;
  k4.rule = "texts with two whitespace runs (r1 in 0..70, r2 in 0..135 bytes, 4 shapes): the full sequence of tokens and positions returned by repeated skip_space (padded buffer) and skip_space_safe (exact length) calls with a carried bitmap cache is identical for sse:: and avx2::";
  k5.name = "K5_Quote";
  k5.count = 71ull * 71 * 256;
  k5.group = "K5";
  k5.chunk = 4096;
  k5.rule = "strings of length n in 0..70 with every byte value at every position: sse::Quote and avx2::Quote produce identical bytes";

  vr::CheckFn check = [&](const vr::Family& f, uint64_t idx, vr::Ctx& ctx) {
    ctx.eval();
    ctx.nontriv();
    if (f.name[1] == '1' || f.name[1] == '2') {
      bool cut = false;
      if (f.name[1] == '2') {
        cut = idx & 1;
        idx >>= 1;
      }
      unsigned g = gaps[idx % NG];
      idx /= NG;
      unsigned p = (unsigned)(idx % NP);
      idx /= NP;
      const std::string& a0 = atoms[idx % NA];
      const std::string& a1 = atoms[idx / NA];
      std::string body = std::string(p, 'q') + a0 + std::string(g, 'g') + a1;
      if (ctx.want_sample) ctx.sample(vr::hex(body));
      if (f.name[1] == '1') {
        // padded working copies (the kernel decodes in place and expects slack after the literal)
        // the document buffer the parser really works on ends in the sentinel x"x, which stops any literal whose
        // own closing quote is escaped; keep that contract here
        std::string lit = body + "\"" + "x\"x";
        alignas(64) uint8_t b1[512], b2[512];
        std::memset(b1, 0, sizeof b1);
        std::memcpy(b1, lit.data(), lit.size());
        std::memcpy(b2, b1, sizeof b1);
        uint8_t *s1 = b1, *s2 = b2;
        SonicError e1 = kErrorNone, e2 = kErrorNone;
        size_t n1 = psi_sse(s1, e1), n2 = psi_avx(s2, e2);
        bool ok1 = e1 == kErrorNone, ok2 = e2 == kErrorNone;
        if (ok1 != ok2)
          ctx.violation("dyn_kernel", "dyn_kernel_parseString_accept", body, "sse:: %s (code %d), avx2:: %s (code %d)", ok1 ? "accepts" : "rejects", (int)e1, ok2 ? "accepts" : "rejects", (int)e2);
        else if (ok1 && (n1 != n2 || (s1 - b1) != (s2 - b2) || std::memcmp(b1, b2, n1) != 0))
          ctx.violation("dyn_kernel", "dyn_kernel_parseString_value", body, "sse:: decodes %zu bytes consuming %td, avx2:: %zu bytes consuming %td", n1, s1 - b1, n2, s2 - b2);
        return;
      }
      std::string data = body + (cut ? "" : "\"tail,\"x\"");
      size_t p1 = 0, p2 = 0;
      // exact-size heap copy: the scalar tails must respect len
      uint8_t* d = (uint8_t*)std::malloc(data.size() ? data.size() : 1);
      std::memcpy(d, data.data(), data.size());
      int r1 = sks_sse(d, p1, data.size()), r2 = sks_avx(d, p2, data.size());
      std::free(d);
      if (r1 != r2 || (r1 != 0 && p1 != p2)) ctx.violation("dyn_kernel", "dyn_kernel_SkipString", data, "sse:: returns %d at %zu, avx2:: returns %d at %zu", r1, p1, r2, p2);
      return;
    }
    if (f.name[1] == '3') {
      unsigned mode = (unsigned)(idx % 3);
      idx /= 3;
      unsigned n = (unsigned)(idx % 72);
      const std::string& t = (*texts)[idx / 72];
      if (t[0] != '[' && t[0] != '{') {
        ctx.skip();
        return;
      }
      std::string pad = n ? (t[0] == '[' ? std::string(n, '1') + "," : "\"p\":" + std::string(n, '1') + ",") : "";
      if (t.size() == 2) pad = t[0] == '[' ? std::string(n, '1') : (n ? "\"p\":" + std::string(n, '1') : "");
      std::string data = std::string(1, t[0]) + pad + t.substr(1) + ",9]";
      size_t L = mode == 0 ? data.size() : mode == 1 ? 1 + pad.size() + t.size() - 2 : 1 + pad.size() + (t.size() - 1) / 2;
      if (ctx.want_sample) ctx.sample(data.substr(0, L));
      uint8_t* d = (uint8_t*)std::malloc(L ? L : 1);
      std::memcpy(d, data.data(), L);
      size_t p1 = 1, p2 = 1;
      uint8_t l = (uint8_t)t[0], r = (uint8_t)(t[0] == '[' ? ']' : '}');
      bool r1 = skc_sse(d, p1, L, l, r), r2 = skc_avx(d, p2, L, l, r);
      std::free(d);
      if (r1 != r2 || (r1 && p1 != p2)) ctx.violation("dyn_kernel", "dyn_kernel_SkipContainer", data.substr(0, L), "sse:: returns %d at %zu, avx2:: returns %d at %zu", (int)r1, p1, (int)r2, p2);
      return;
    }
    if (f.name[1] == '4') {
      unsigned shape = (unsigned)(idx % 4);
      idx /= 4;
      unsigned r2 = (unsigned)(idx % 136), r1 = (unsigned)(idx / 136);
      static const char* head[4] = {"{\"a\"", "[", "", "{\"a\":"};
      static const char* mid[4] = {":", "1,", "{\"a\":[", "{\"b\":"};
      static const char* tail[4] = {"1}", "2]", "1]}", "2}}"};
      std::string t = head[shape];
      for (unsigned i = 0; i < r1; i++) t.push_back(" \n\t\r"[(i * 7 + r2) % 4]);
      t += mid[shape];
      for (unsigned i = 0; i < r2; i++) t.push_back(" \n\t\r"[(i * 5 + r1) % 4]);
      t += tail[shape];
      if (ctx.want_sample) ctx.sample("shape " + std::to_string(shape) + " r1=" + std::to_string(r1) + " r2=" + std::to_string(r2));
      // (a) padded variant: walk the text token by token; after a token other than whitespace the callers step
      // over literals themselves, here every non-space byte is one "token"
      auto walk = [&](bool safe, bool use_sse) {
        std::string tr;
        std::string buf = t + std::string(safe ? 0 : 192, 'x');
        uint8_t* d = (uint8_t*)std::malloc(buf.size());
        std::memcpy(d, buf.data(), buf.size());
        size_t pos = 0, end = 0;
        uint64_t bits = 0;
        for (int guard = 0; guard < 400 && pos < t.size(); guard++) {
          uint8_t c = safe ? (use_sse ? sps_sse(d, pos, t.size(), end, bits) : sps_avx(d, pos, t.size(), end, bits)) : (use_sse ? sp_sse(d, pos, end, bits) : sp_avx(d, pos, end, bits));
          tr += std::to_string((int)c) + "@" + std::to_string(pos) + " ";
          if (c == 0) break;
        }
        std::free(d);
        return tr;
      };
      for (int safe = 0; safe < 2; safe++) {
        std::string a = walk(safe, true), b = walk(safe, false);
        if (a != b) {
          ctx.violation("dyn_kernel", safe ? "dyn_kernel_skip_space_safe" : "dyn_kernel_skip_space", t, "token/position sequences differ: sse:: %s | avx2:: %s", a.substr(0, 300).c_str(), b.substr(0, 300).c_str());
          return;
        }
      }
      return;
    }
    {
      unsigned byte = (unsigned)(idx % 256);
      idx /= 256;
      unsigned pos = (unsigned)(idx % 71), n = (unsigned)(idx / 71);
      if (pos >= n && !(n == 0 && pos == 0 && byte == 0)) {
        ctx.skip();
        return;
      }
      std::string s(n, 'a');
      if (n) s[pos] = (char)byte;
      char* src = (char*)std::malloc(n ? n : 1);
      std::memcpy(src, s.data(), n);
      size_t cap = 6 * n + 35;
      char* d1 = (char*)std::malloc(cap);
      char* d2 = (char*)std::malloc(cap);
      char* e1 = q_sse(src, n, d1);
      char* e2 = q_avx(src, n, d2);
      if ((e1 - d1) != (e2 - d2) || std::memcmp(d1, d2, (size_t)(e1 - d1)) != 0)
        ctx.violation("dyn_kernel", "dyn_kernel_Quote", s, "sse:: writes %td bytes, avx2:: %td bytes, or the bytes differ", e1 - d1, e2 - d2);
      std::free(src);
      std::free(d1);
      std::free(d2);
    }
  };
  std::vector<vr::Family> fams = {k1, k2, k3, k4, k5};
  if (args.replay) return R.replay_one(fams, check);
  const std::string only = args.get("only");
  for (auto& f : fams)
    if (only.empty() || only == f.name) R.run(f, check);
  return R.finish();
#endif
}
