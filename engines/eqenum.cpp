// Engine eqenum (C18): document equality is JSON value equality.
// A value set V (scalars of every kind incl. 1 vs 1.0, 0.0 vs -0.0, 2^63; arrays and objects
// with up to 3 children, nested to depth 2, distinct keys) is realised through several
// histories and allocators; all ordered pairs of V x all pairs of realisations are compared.
// Oracle: a==b  <=>  reference value equality (objects order-insensitive, number kinds and bit
// patterns distinguished); a!=b is the negation; symmetry; reflexivity; transitivity on triples.
#include <cmath>
#include <set>
#include <algorithm>
#include <memory>

#include "common/families.hpp"
#include "common/refjson.hpp"
#include "common/runner.hpp"
#include "common/sonic_cmp.hpp"
#include "sonic/sonic.h"

using namespace sonic_json;
using PoolDoc = Document;
using SimpleDoc = GenericDocument<DNode<SimpleAllocator>>;

static std::vector<ref::Value> build_values(bool thorough) {
  std::vector<ref::Value> leaves;
  leaves.push_back(ref::Value::mk(ref::Null));
  leaves.push_back(ref::Value::mk(ref::True));
  leaves.push_back(ref::Value::mk(ref::False));
  leaves.push_back(ref::Value::mkU(0));
  leaves.push_back(ref::Value::mkU(1));
  leaves.push_back(ref::Value::mkI(-1));
  leaves.push_back(ref::Value::mkU(1ull << 63));
  leaves.push_back(ref::Value::mkD(1.0));
  leaves.push_back(ref::Value::mkD(0.0));
  leaves.push_back(ref::Value::mkD(-0.0));
  leaves.push_back(ref::Value::mkS(""));
  leaves.push_back(ref::Value::mkS("a"));
  leaves.push_back(ref::Value::mkS("b"));
  std::vector<ref::Value> V = leaves;
  // children alphabet for depth-1 containers
  std::vector<ref::Value> C = {leaves[0], leaves[4], leaves[7], leaves[11]};
  if (thorough) {
    C.push_back(leaves[9]);
    C.push_back(leaves[3]);
  }
  const char* keys[3] = {"a", "b", "c"};
  std::vector<ref::Value> D1;
  auto gen_arrays = [&](const std::vector<ref::Value>& alpha, unsigned maxn, std::vector<ref::Value>& out) {
    for (unsigned n = 0; n <= maxn; n++) {
      uint64_t tot = fam::ipow(alpha.size(), n);
      for (uint64_t x = 0; x < tot; x++) {
        ref::Value a = ref::Value::mk(ref::Arr);
        uint64_t r = x;
        for (unsigned i = 0; i < n; i++) {
          a.a.push_back(alpha[r % alpha.size()]);
          r /= alpha.size();
        }
        out.push_back(a);
      }
    }
  };
  auto gen_objects = [&](const std::vector<ref::Value>& alpha, unsigned maxn, std::vector<ref::Value>& out) {
    // ordered sequences of distinct keys
    std::vector<std::vector<int>> seqs = {{}};
    for (int a = 0; a < 3; a++) seqs.push_back({a});
    for (int a = 0; a < 3; a++)
      for (int b = 0; b < 3; b++)
        if (a != b) seqs.push_back({a, b});
    for (int a = 0; a < 3; a++)
      for (int b = 0; b < 3; b++)
        for (int c = 0; c < 3; c++)
          if (a != b && b != c && a != c) seqs.push_back({a, b, c});
    for (auto& ks : seqs) {
      if (ks.size() > maxn) continue;
      uint64_t tot = fam::ipow(alpha.size(), (unsigned)ks.size());
      for (uint64_t x = 0; x < tot; x++) {
        ref::Value o = ref::Value::mk(ref::Obj);
        uint64_t r = x;
        for (size_t i = 0; i < ks.size(); i++) {
          o.o.emplace_back(keys[ks[i]], alpha[r % alpha.size()]);
          r /= alpha.size();
        }
        out.push_back(o);
      }
    }
  };
  gen_arrays(C, 3, D1);
  gen_objects(C, 3, D1);
  for (auto& v : D1) V.push_back(v);
  // depth 2: children from a small alphabet of leaves and depth-1 containers
  std::vector<ref::Value> C2 = {leaves[0], leaves[4], leaves[7], leaves[11]};
  {
    // hand-picked depth-1 containers: empty ones, permuted objects, arrays differing in one element/length
    auto pick = [&](const char* t) { C2.push_back(ref::parse(std::string(t)).v); };
    pick("[]");
    pick("{}");
    pick("[1]");
    pick("[1.0]");
    pick("[1,null]");
    pick("{\"a\":1}");
    pick("{\"a\":1.0}");
    pick("{\"b\":1}");
    pick("{\"a\":1,\"b\":null}");
    pick("{\"b\":null,\"a\":1}");
    if (thorough) {
      pick("[null,1]");
      pick("{\"a\":\"a\"}");
      pick("{\"a\":1,\"b\":null,\"c\":\"a\"}");
      pick("{\"c\":\"a\",\"a\":1,\"b\":null}");
    }
  }
  std::vector<ref::Value> D2;
  gen_arrays(C2, 2, D2);
  gen_objects(C2, 2, D2);
  for (auto& v : D2) {
    bool nested = false;
    for (auto& e : v.a) nested |= e.isContainer();
    for (auto& m : v.o) nested |= m.second.isContainer();
    if (nested) V.push_back(v);
  }
  return V;
}

// ---- realisations ----
template <class Doc>
static void build_api(typename Doc::NodeType& n, const ref::Value& v, typename Doc::Allocator& al, bool reverse, bool owned_strings, bool extras) {
  using N = typename Doc::NodeType;
  static const char* lit_empty = "";
  switch (v.k) {
    case ref::Null:
      if (extras) {
        // a null with stale bytes in the node: overwritten by SetNull, or the residue a move leaves behind
        // (move construction / PushBack / AddMember / Swap turn the source into null by rewriting the type only)
        static unsigned rot = 0;
        switch (rot++ % 4) {
          case 0:
            n.SetString("stale payload that is overwritten", al);
            n.SetNull();
            break;
          case 1: {
            n.SetString("moved-out string", al);
            N sink(std::move(n));
            break;
          }
          case 2: {
            n.SetDouble(-1234.5);
            N sink(std::move(n));
            break;
          }
          default: {
            n.SetArray();
            n.PushBack(N(7), al);
            N sink;
            sink = std::move(n);
            break;
          }
        }
        if (!n.IsNull()) n.SetNull();
      } else
        n.SetNull();
      break;
    case ref::True: n.SetBool(true); break;
    case ref::False:
      if (extras) n.SetDouble(123.456);
      n.SetBool(false);
      break;
    case ref::Uint:
      if (extras) n.SetString("zzzzzzzz", al);
      n.SetUint64(v.u);
      break;
    case ref::Sint: n.SetInt64((int64_t)v.u); break;
    case ref::Real:
      if (extras) n.SetInt64(-77);
      n.SetDouble(v.dbl());
      break;
    case ref::Str:
      if (owned_strings)
        n.SetString(v.s.data(), v.s.size(), al);
      else {
        // constant strings are views into ONE shared buffer "ab": "" and "a" start at the same address
        // with different lengths, "b" is a suffix (string equality must compare bytes and lengths)
        static const char kShared[] = "ab";
        (void)lit_empty;
        const char* p = v.s == "b" ? kShared + 1 : kShared;
        n.SetString(p, v.s.size());
      }
      break;
    case ref::Arr:
      n.SetArray();
      if (extras) n.Reserve(40, al);
      for (auto& e : v.a) {
        N c;
        build_api<Doc>(c, e, al, reverse, owned_strings, extras);
        n.PushBack(std::move(c), al);
      }
      break;
    case ref::Obj: {
      n.SetObject();
      if (extras) n.MemberReserve(40, al);
      size_t cnt = v.o.size();
      for (size_t i = 0; i < cnt; i++) {
        auto& m = v.o[reverse ? cnt - 1 - i : i];
        N c;
        build_api<Doc>(c, m.second, al, reverse, owned_strings, extras);
        const char* k = m.first == "a" ? "a" : m.first == "b" ? "b" : "c";
        n.AddMember(k, std::move(c), al, owned_strings);
      }
      if (extras) n.CreateMap(al);
      break;
    }
  }
}

// R5: like the plain API build, but every object first receives an extra member "zz", then a lookup map,
// then the remaining members, and finally RemoveMember("zz") (a non-last member, map present)
template <class Doc>
static void build_removed(typename Doc::NodeType& n, const ref::Value& v, typename Doc::Allocator& al) {
  using N = typename Doc::NodeType;
  switch (v.k) {
    case ref::Arr:
      n.SetArray();
      for (auto& e : v.a) {
        N c;
        build_removed<Doc>(c, e, al);
        n.PushBack(std::move(c), al);
      }
      n.PushBack(N(uint64_t(99)), al);
      n.PopBack();
      break;
    case ref::Obj: {
      n.SetObject();
      n.AddMember("zz", N(uint64_t(0)), al, true);
      n.CreateMap(al);
      // the model removes by moving the last member into the hole: to end with v's order, insert the
      // member that must end up first LAST
      size_t cnt = v.o.size();
      for (size_t i = 1; i < cnt; i++) {
        N c;
        build_removed<Doc>(c, v.o[i].second, al);
        n.AddMember(v.o[i].first == "a" ? "a" : v.o[i].first == "b" ? "b" : "c", std::move(c), al, true);
      }
      if (cnt > 0) {
        N c;
        build_removed<Doc>(c, v.o[0].second, al);
        n.AddMember(v.o[0].first == "a" ? "a" : v.o[0].first == "b" ? "b" : "c", std::move(c), al, true);
      }
      n.RemoveMember("zz");
      break;
    }
    default:
      build_api<Doc>(n, v, al, false, true, false);
  }
}

struct Real5 {
  std::unique_ptr<PoolDoc> parsed;      // R0 parsed, pool
  std::unique_ptr<PoolDoc> api_rev;     // R1 built by the API in reverse member order, const strings
  std::unique_ptr<SimpleDoc> copied;    // R2 deep copy into a freeing-allocator document
  std::unique_ptr<PoolDoc> api_extra;   // R3 API-built, owned strings, stale payloads, extra capacity, lookup maps
  std::unique_ptr<SimpleDoc> reparsed;  // R4 parse of Dump() with the freeing allocator
  std::unique_ptr<PoolDoc> removed;     // R5 every object gets an extra first member and a lookup map, then RemoveMember takes it out again
};

// E7: numbers whose 64-bit payloads coincide across kinds: (kind 0 uint / 1 sint / 2 double-bits, payload)
static const std::vector<std::pair<int, uint64_t>>& e7_numbers() {
  static std::vector<std::pair<int, uint64_t>> E7N;
  if (E7N.empty()) {
    for (uint64_t k : {(uint64_t)1, (uint64_t)2, (uint64_t)1234567, (uint64_t)1 << 31, (uint64_t)1 << 32, (uint64_t)1 << 52, (uint64_t)1 << 62, (uint64_t)1 << 63}) {
      E7N.push_back({1, (uint64_t)0 - k});  // -k
      E7N.push_back({0, (uint64_t)0 - k});  // 2^64 - k
      E7N.push_back({0, k});
    }
    for (uint64_t b : {(uint64_t)0, (uint64_t)0x8000000000000000ull, (uint64_t)0x3ff0000000000000ull, (uint64_t)0xbff0000000000000ull, (uint64_t)0x4340000000000000ull, (uint64_t)0x7fefffffffffffffull, (uint64_t)1}) {
      E7N.push_back({2, b});               // the double with these bits
      E7N.push_back({0, b});               // the unsigned integer with the same payload
      if (b >> 63) E7N.push_back({1, b});  // the negative integer with the same payload
    }
    E7N.push_back({0, 0});
  }
  return E7N;
}

int main(int argc, char** argv) {
  vr::Args args = vr::parse_args(argc, argv);
  vr::Runner R(args);
  const bool quick = R.quick();
  std::vector<ref::Value> V = build_values(!quick);
  std::vector<Real5> Z(V.size());
  std::string build_error;
  for (size_t i = 0; i < V.size(); i++) {
    std::string text = ref::write_json(V[i]);
    Z[i].parsed.reset(new PoolDoc());
    Z[i].parsed->Parse(text);
    Z[i].api_rev.reset(new PoolDoc());
    build_api<PoolDoc>(*Z[i].api_rev, V[i], Z[i].api_rev->GetAllocator(), true, false, false);
    Z[i].copied.reset(new SimpleDoc());
    Z[i].copied->CopyFrom(*Z[i].parsed, Z[i].copied->GetAllocator(), true);
    Z[i].api_extra.reset(new PoolDoc());
    build_api<PoolDoc>(*Z[i].api_extra, V[i], Z[i].api_extra->GetAllocator(), false, true, true);
    Z[i].reparsed.reset(new SimpleDoc());
    Z[i].reparsed->Parse(Z[i].api_extra->Dump());
    Z[i].removed.reset(new PoolDoc());
    build_removed<PoolDoc>(*Z[i].removed, V[i], Z[i].removed->GetAllocator());
    // every realisation must denote the value (through the accessors), otherwise the harness is wrong
    for (int r = 0; r < 6; r++) {
      ref::Value got = r == 0 ? sc::to_ref(*Z[i].parsed) : r == 1 ? sc::to_ref(*Z[i].api_rev) : r == 2 ? sc::to_ref(*Z[i].copied) : r == 3 ? sc::to_ref(*Z[i].api_extra) : r == 4 ? sc::to_ref(*Z[i].reparsed) : sc::to_ref(*Z[i].removed);
      if (!ref::equal(got, V[i]) && build_error.empty()) build_error = "realisation " + std::to_string(r) + " of " + text + " reads back as " + ref::show(got);
    }
  }
  const size_t NV = V.size();
  const size_t NT = std::min<size_t>(NV, quick ? 120 : 200);
  // the triple subset: every 1 in k values so that all shapes are represented
  std::vector<size_t> tsub;
  {
    // prefer values that have other, differently ordered but equal, values in V (permutation classes),
    // so that a==b and b==c actually occurs with a, b, c distinct; fill up with a stride over the rest
    std::function<std::string(const ref::Value&)> canon = [&](const ref::Value& v) -> std::string {
      if (v.k == ref::Obj) {
        std::vector<std::string> parts;
        for (auto& m : v.o) parts.push_back(m.first + ":" + canon(m.second));
        std::sort(parts.begin(), parts.end());
        std::string r = "{";
        for (auto& p : parts) r += p + ",";
        return r + "}";
      }
      if (v.k == ref::Arr) {
        std::string r = "[";
        for (auto& e : v.a) r += canon(e) + ",";
        return r + "]";
      }
      return ref::show(v);
    };
    std::map<std::string, std::vector<size_t>> classes;
    for (size_t i = 0; i < NV; i++) classes[canon(V[i])].push_back(i);
    for (auto& kv : classes)
      if (kv.second.size() >= 2)
        for (size_t i : kv.second)
          if (tsub.size() < NT * 3 / 4) tsub.push_back(i);
    for (size_t i = 0; tsub.size() < NT; i += NV / NT + 1) tsub.push_back(i % NV);
  }

  vr::Family f1, f2;
  f1.name = "E1_pairs_x_realisations";
  f1.count = (uint64_t)NV * NV;
  f1.group = "E1";
  f1.chunk = 512;
  f1.rule = "all ordered pairs over " + std::to_string(NV) +
            " values (13 scalars of every kind, arrays and objects with <= 3 children over {null,1,1.0,\"a\"...}, nested containers of depth 2; keys a,b,c, every member order) x all 36 pairs of realisations (parsed / API-built in reverse member order with constant strings / deep copy into a freeing-allocator document / API-built with owned strings, stale node payloads, extra capacity and lookup maps / reparse of Dump() / built with an extra member that RemoveMember takes out again under a lookup map): a==b <=> reference equality, != is the negation, symmetric. Non-trivial: the two values have the same kind.";
  f2.name = "E2_transitivity_triples";
  f2.count = (uint64_t)NT * NT * NT;
  f2.group = "E2";
  f2.chunk = 4096;
  f2.rule = "all ordered triples over a " + std::to_string(NT) + "-value subset, realisations rotated: a==b and b==c implies a==c";

  auto eq = [&](size_t i, int ri, size_t j, int rj) -> int {
    // returns bit0: a==b, bit1: a!=b
    auto go = [&](const auto& A) -> int {
      switch (rj) {
        case 0: return (int)(A == *Z[j].parsed) | ((int)(A != *Z[j].parsed) << 1);
        case 1: return (int)(A == *Z[j].api_rev) | ((int)(A != *Z[j].api_rev) << 1);
        case 2: return (int)(A == *Z[j].copied) | ((int)(A != *Z[j].copied) << 1);
        case 3: return (int)(A == *Z[j].api_extra) | ((int)(A != *Z[j].api_extra) << 1);
        case 4: return (int)(A == *Z[j].reparsed) | ((int)(A != *Z[j].reparsed) << 1);
        default: return (int)(A == *Z[j].removed) | ((int)(A != *Z[j].removed) << 1);
      }
    };
    switch (ri) {
      case 0: return go(static_cast<const PoolDoc::NodeType&>(*Z[i].parsed));
      case 1: return go(static_cast<const PoolDoc::NodeType&>(*Z[i].api_rev));
      case 2: return go(static_cast<const SimpleDoc::NodeType&>(*Z[i].copied));
      case 3: return go(static_cast<const PoolDoc::NodeType&>(*Z[i].api_extra));
      case 4: return go(static_cast<const SimpleDoc::NodeType&>(*Z[i].reparsed));
      default: return go(static_cast<const PoolDoc::NodeType&>(*Z[i].removed));
    }
  };
  static const char* rn[6] = {"parsed", "api-reversed", "deep-copy(freeing alloc)", "api+maps+capacity+stale", "reparsed-dump(freeing alloc)", "member-removed-under-map"};

  // E3: wide containers (any per-size threshold in lookup or comparison lies between 15 and 24 members)
  static std::vector<ref::Value> WV;
  struct RealW {
    std::unique_ptr<PoolDoc> parsed, mapped, api_rev;
    std::unique_ptr<SimpleDoc> copied;
  };
  static std::vector<RealW> WZ;
  auto realise_wide = [](const ref::Value& v, RealW& z) -> std::string {
    std::string text = ref::write_json(v);
    z.parsed.reset(new PoolDoc());
    z.parsed->Parse(text);
    z.mapped.reset(new PoolDoc());
    z.mapped->Parse(text);
    if (z.mapped->IsObject()) {
      z.mapped->CreateMap(z.mapped->GetAllocator());
      for (auto it = z.mapped->MemberBegin(); it != z.mapped->MemberEnd(); ++it)
        if (it->value.IsObject()) it->value.CreateMap(z.mapped->GetAllocator());
    }
    z.copied.reset(new SimpleDoc());
    z.copied->CopyFrom(*z.parsed, z.copied->GetAllocator(), true);
    // API build in reverse order (objects only: array order is significant), owned keys
    z.api_rev.reset(new PoolDoc());
    auto& al = z.api_rev->GetAllocator();
    if (v.k == ref::Obj) {
      z.api_rev->SetObject();
      for (size_t m = v.o.size(); m-- > 0;) {
        PoolDoc::NodeType c;
        c.CopyFrom((z.parsed->MemberBegin() + (long)m)->value, al, true);
        z.api_rev->AddMember(v.o[m].first, std::move(c), al, true);
      }
    } else
      z.api_rev->CopyFrom(*z.parsed, al, true);
    for (int r = 0; r < 4; r++) {
      ref::Value got = r == 0 ? sc::to_ref(*z.parsed) : r == 1 ? sc::to_ref(*z.mapped) : r == 2 ? sc::to_ref(*z.api_rev) : sc::to_ref(*z.copied);
      if (!ref::equal(got, v)) return "wide realisation " + std::to_string(r) + " of " + text.substr(0, 200) + " reads back as " + ref::show(got).substr(0, 200);
    }
    return "";
  };
  // object of n members k0..k(n-1) in a variant (used by E3 and E4)
  auto wobj = [](unsigned n, int variant, unsigned p) {
    ref::Value o = ref::Value::mk(ref::Obj);
    for (unsigned i = 0; i < n; i++) o.o.emplace_back("k" + std::to_string(i), ref::Value::mkU(i));
    switch (variant) {
      case 0: break;
      case 1: std::reverse(o.o.begin(), o.o.end()); break;
      case 2: if (n > 7) std::rotate(o.o.begin(), o.o.begin() + 7, o.o.end()); break;
      case 3: if (n) o.o[p].second = ref::Value::mkU(1000 + p); break;
      case 5: if (n) o.o.pop_back(); break;
    }
    return o;
  };
  static std::vector<std::string> kpool;
  if (kpool.empty()) {
    std::set<std::string> seen;
    for (unsigned len : {1u, 2u, 3u, 6u, 7u, 8u, 9u, 12u, 15u, 16u, 17u, 31u, 32u, 33u}) {
      std::string base(len, 'm');
      if (seen.insert(base).second) kpool.push_back(base);
      for (unsigned pos : {0u, 1u, 6u, 7u, 8u, 15u, 16u, 31u})
        for (unsigned char v : {(unsigned char)'a', (unsigned char)'z', (unsigned char)0x7f, (unsigned char)0x80, (unsigned char)0xc3, (unsigned char)0xe8, (unsigned char)0xff}) {
          if (pos >= len) continue;
          std::string k = base;
          k[pos] = (char)v;
          if (seen.insert(k).second) kpool.push_back(k);
        }
    }
  }
  // E4: size sweep
  static std::vector<unsigned> N4;
  if (N4.empty()) {
    for (unsigned n = 0; n <= 130; n++) N4.push_back(n);
    for (unsigned b : {256u, 512u, 1024u})
      for (int d = -1; d <= 1; d++) N4.push_back(b + d);
  }
  if (WV.empty()) {
    auto obj = [](unsigned n, int variant, unsigned p) {
      ref::Value o = ref::Value::mk(ref::Obj);
      for (unsigned i = 0; i < n; i++) o.o.emplace_back("k" + std::to_string(i), ref::Value::mkU(i));
      switch (variant) {
        case 0: break;
        case 1: std::reverse(o.o.begin(), o.o.end()); break;
        case 2: std::rotate(o.o.begin(), o.o.begin() + 7, o.o.end()); break;
        case 3: o.o[p].second = ref::Value::mkU(1000 + p); break;
        case 4: o.o[p].first = "x" + std::to_string(p); break;
        case 5: o.o.pop_back(); break;
        case 6: o.o.emplace_back("extra", ref::Value::mk(ref::Null)); break;
        case 7: o.o[p].second = ref::Value::mkD((double)p); break;  // same number, other kind
        case 8: o.o[p].second = ref::parse(std::string("{\"a\":1,\"b\":[1]}")).v; break;
        case 9: o.o[p].second = ref::parse(std::string("{\"b\":[1],\"a\":1}")).v; break;
      }
      return o;
    };
    // wide objects nested in wide objects (a comparison of the outer one re-enters the comparison of objects)
    for (unsigned n : {32u, 33u})
      for (unsigned n2 : {31u, 32u, 40u})
        for (unsigned p : {0u, n / 2, n - 1})
          for (int iv : {0, 1, 3}) {
            ref::Value o = obj(n, 0, 0);
            o.o[p].second = obj(n2, iv, n2 / 2);
            WV.push_back(o);
            if (iv == 1) {
              std::reverse(o.o.begin(), o.o.end());
              WV.push_back(o);
            }
          }
    for (unsigned n : {15u, 16u, 17u, 24u, 31u, 32u, 33u, 40u}) {
      for (int var : {0, 1, 2, 5, 6}) WV.push_back(obj(n, var, 0));
      for (int var : {3, 4, 7, 8, 9})
        for (unsigned p : {0u, n / 2, n - 1}) WV.push_back(obj(n, var, p));
      for (int av = 0; av < 4; av++) {
        ref::Value a = ref::Value::mk(ref::Arr);
        for (unsigned i = 0; i < n; i++) a.a.push_back(ref::Value::mkU(i));
        if (av == 1) std::swap(a.a[0], a.a[n - 1]);
        if (av == 2) a.a[n / 2] = ref::Value::mkD((double)(n / 2));
        if (av == 3) a.a.pop_back();
        WV.push_back(a);
      }
    }
    WZ.resize(WV.size());
    for (size_t i = 0; i < WV.size(); i++) {
      std::string err = realise_wide(WV[i], WZ[i]);
      if (!err.empty() && build_error.empty()) build_error = err;
    }
  }
  vr::Family f3;
  f3.name = "E3_wide_containers";
  f3.count = (uint64_t)WV.size() * WV.size();
  f3.group = "E3";
  f3.chunk = 64;
  f3.rule = "all ordered pairs over " + std::to_string(WV.size()) + " objects / arrays of 15, 16, 17, 24, 31, 32, 33 and 40 children and 32/33-member objects holding a 31/32/40-member object at the first, middle or last position (base, reversed, rotated, one value / key / kind changed at the first, middle, last position, nested member in two orders, one member fewer / more) x 16 pairs of realisations (parsed / parsed with lookup maps / API-built in reverse order with owned keys / deep copy into a freeing-allocator document)";
  auto eqw = [&](size_t i, int ri, size_t j, int rj) -> int {
    auto go = [&](const auto& A) -> int {
      switch (rj) {
        case 0: return (int)(A == *WZ[j].parsed) | ((int)(A != *WZ[j].parsed) << 1);
        case 1: return (int)(A == *WZ[j].mapped) | ((int)(A != *WZ[j].mapped) << 1);
        case 2: return (int)(A == *WZ[j].api_rev) | ((int)(A != *WZ[j].api_rev) << 1);
        default: return (int)(A == *WZ[j].copied) | ((int)(A != *WZ[j].copied) << 1);
      }
    };
    switch (ri) {
      case 0: return go(static_cast<const PoolDoc::NodeType&>(*WZ[i].parsed));
      case 1: return go(static_cast<const PoolDoc::NodeType&>(*WZ[i].mapped));
      case 2: return go(static_cast<const PoolDoc::NodeType&>(*WZ[i].api_rev));
      default: return go(static_cast<const SimpleDoc::NodeType&>(*WZ[i].copied));
    }
  };
  vr::CheckFn check = [&](const vr::Family& f, uint64_t idx, vr::Ctx& ctx) {
    if (!build_error.empty()) {
      if (idx == 0) ctx.violation("harness_build", "harness_build", build_error, "harness error: %s", build_error.c_str());
      return;
    }
    if (f.name[1] == '1') {
      size_t i = idx / NV, j = idx % NV;
      bool want = ref::equal(V[i], V[j]);
      if (V[i].k == V[j].k || (V[i].k <= ref::Real && V[j].k <= ref::Real && V[i].k >= ref::Uint && V[j].k >= ref::Uint)) ctx.nontriv();
      if (ctx.want_sample) ctx.sample(ref::show(V[i]) + "  vs  " + ref::show(V[j]));
      for (int ri = 0; ri < 6; ri++)
        for (int rj = 0; rj < 6; rj++) {
          ctx.eval();
          int r = eq(i, ri, j, rj);
          bool e = r & 1, ne = (r >> 1) & 1;
          if (e != want) {
            ctx.violation("eq_vs_model", want ? "eq_false_negative" : "eq_false_positive", ref::show(V[i]) + " vs " + ref::show(V[j]), "%s [%s] == %s [%s] is %d but the values are %s", ref::show(V[i]).c_str(), rn[ri],
                          ref::show(V[j]).c_str(), rn[rj], (int)e, want ? "equal" : "different");
          }
          if (ne == e) ctx.violation("ne_not_negation", "eq_ne_not_negation", ref::show(V[i]) + " vs " + ref::show(V[j]), "operator!= is not the negation of operator== for [%s] vs [%s]", rn[ri], rn[rj]);
          int r2 = eq(j, rj, i, ri);
          if ((r2 & 1) != (r & 1)) ctx.violation("eq_asymmetric", "eq_asymmetric", ref::show(V[i]) + " vs " + ref::show(V[j]), "a==b is %d but b==a is %d for [%s] vs [%s]", r & 1, r2 & 1, rn[ri], rn[rj]);
        }
      if (i == j) {
        for (int ri = 0; ri < 6; ri++)
          if (!(eq(i, ri, i, ri) & 1)) ctx.violation("eq_irreflexive", "eq_irreflexive", ref::show(V[i]), "a==a is false for realisation %s", rn[ri]);
      }
      return;
    }
    if (f.name[1] == '6') {
      static const char* wn[4] = {"parsed", "parsed+maps", "api-reversed", "deep-copy(freeing alloc)"};
      static const unsigned strides[8] = {1, 2, 3, 5, 7, 11, 13, 17};
      unsigned st = strides[idx % 8];
      size_t i0 = idx / 8;
      std::vector<size_t> ks;
      for (unsigned j = 0; j < 12; j++) {
        size_t k = (i0 + (size_t)j * st * 29) % kpool.size();
        if (std::find(ks.begin(), ks.end(), k) == ks.end()) ks.push_back(k);
      }
      ref::Value A = ref::Value::mk(ref::Obj);
      for (size_t j = 0; j < ks.size(); j++) A.o.emplace_back(kpool[ks[j]], ref::Value::mkU(j));
      ref::Value Brev = A;
      std::reverse(Brev.o.begin(), Brev.o.end());
      ref::Value C = A;
      C.o[C.o.size() / 2].second = ref::Value::mkU(999);
      RealW za, zb, zc;
      std::string e1 = realise_wide(A, za), e2 = realise_wide(Brev, zb), e3 = realise_wide(C, zc);
      std::string desc = "12 pool keys from " + std::to_string(i0) + " stride " + std::to_string(st);
      if (!e1.empty() || !e2.empty() || !e3.empty()) {
        ctx.violation("harness_build", "harness_build", desc, "harness error: %s", (e1 + e2 + e3).c_str());
        return;
      }
      ctx.nontriv();
      if (ctx.want_sample) ctx.sample(desc);
      auto cmp = [&](RealW& x, RealW& y, bool want, const char* what) {
        for (int ri = 0; ri < 4; ri++)
          for (int rj = 0; rj < 4; rj++) {
            ctx.eval();
            auto go = [&](const auto& X) -> bool {
              switch (rj) {
                case 0: return X == *y.parsed;
                case 1: return X == *y.mapped;
                case 2: return X == *y.api_rev;
                default: return X == *y.copied;
              }
            };
            bool e = ri == 0 ? go(static_cast<const PoolDoc::NodeType&>(*x.parsed)) : ri == 1 ? go(static_cast<const PoolDoc::NodeType&>(*x.mapped)) : ri == 2 ? go(static_cast<const PoolDoc::NodeType&>(*x.api_rev)) : go(static_cast<const SimpleDoc::NodeType&>(*x.copied));
            if (e != want) ctx.violation("eq_vs_model", want ? "eq_false_negative_keypool" : "eq_false_positive_keypool", desc, "%s %s: [%s] == [%s] is %d but the values are %s", desc.c_str(), what, wn[ri], wn[rj], (int)e, want ? "equal" : "different");
          }
      };
      cmp(za, za, true, "value vs itself");
      cmp(za, zb, true, "value vs its reversal");
      cmp(zb, za, true, "reversal vs value");
      cmp(za, zc, false, "value vs copy with one value changed");
      return;
    }
    if (f.name[1] == '7') {
      using N = PoolDoc::NodeType;
      unsigned pos = (unsigned)(idx % 3);
      idx /= 3;
      const auto& E7N = e7_numbers();
      auto A = E7N[idx / E7N.size()], B = E7N[idx % E7N.size()];
      auto mk = [](const std::pair<int, uint64_t>& x) {
        if (x.first == 0) return N((uint64_t)x.second);
        if (x.first == 1) return N((int64_t)x.second);
        double d;
        std::memcpy(&d, &x.second, 8);
        return N(d);
      };
      auto wrap = [&](N v, PoolDoc& d) {
        auto& al = d.GetAllocator();
        if (pos == 0) {
          static_cast<N&>(d) = std::move(v);
        } else if (pos == 1) {
          d.SetArray();
          d.PushBack(N(1), al);
          d.PushBack(std::move(v), al);
        } else {
          d.SetObject();
          d.AddMember("k", std::move(v), al);
        }
      };
      PoolDoc da, db, pb;
      wrap(mk(A), da);
      wrap(mk(B), db);
      std::string tb = db.Dump();
      pb.Parse(tb);
      ctx.eval();
      ctx.nontriv();
      bool want = A == B;
      std::string desc = da.Dump() + " vs " + tb + " (kinds " + std::to_string(A.first) + "," + std::to_string(B.first) + ")";
      if (ctx.want_sample) ctx.sample(desc);
      if (pb.HasParseError()) {
        ctx.violation("harness", "harness_generator", desc, "harness error: dump does not parse");
        return;
      }
      bool e1 = da == db, e2 = db == da, e3 = da == pb, e4 = pb == da;
      if (e1 != want || e2 != want || e3 != want || e4 != want)
        ctx.violation("eq_number_kinds", "eq_number_pair", desc, "a == b is %d, b == a is %d, a == parse(dump(b)) is %d, parse(dump(b)) == a is %d; kind and value are %s", (int)e1, (int)e2, (int)e3, (int)e4, want ? "the same" : "different");
      if ((da != db) == e1) ctx.violation("ne_not_negation", "eq_ne_not_negation", desc, "operator!= is not the negation of operator==");
      return;
    }
    if (f.name[1] == '5') {
      using N = PoolDoc::NodeType;
      PoolDoc holder;
      auto& al = holder.GetAllocator();
      // the node under test
      std::vector<N> nodes;
      {
        nodes.emplace_back(kNull);
        nodes.emplace_back(true);
        nodes.emplace_back(false);
        for (int64_t v : {(int64_t)0, (int64_t)1, (int64_t)-1, (int64_t)7, (int64_t)INT32_MAX, (int64_t)INT32_MIN, (int64_t)1 << 31, (int64_t)1 << 32, (int64_t)1 << 53, INT64_MAX, INT64_MIN}) nodes.emplace_back(v);
        for (uint64_t v : {(uint64_t)0, (uint64_t)7, (uint64_t)UINT32_MAX, (uint64_t)1 << 63, UINT64_MAX}) nodes.emplace_back(v);
        for (double v : {0.0, -0.0, 1.0, 1.5, 7.0, -7.0, 4294967296.0, 9223372036854775808.0, 1e300, std::nan(""), HUGE_VAL, -HUGE_VAL}) nodes.emplace_back(v);
        nodes.emplace_back("", 0, al);
        nodes.emplace_back("a", 1, al);
        nodes.emplace_back("1", 1, al);
        nodes.emplace_back("true", 4, al);
        {
          N a;
          a.SetArray();
          nodes.push_back(std::move(a));
          N o;
          o.SetObject();
          nodes.push_back(std::move(o));
        }
        while (nodes.size() < 40) nodes.emplace_back((int64_t)nodes.size());
      }
      const N& n = nodes[idx];
      ref::Value rn = sc::to_ref(n);
      ctx.nontriv();
      if (ctx.want_sample) ctx.sample(ref::show(rn));
      auto one = [&](bool got_eq, bool got_ne, const N& as_node, const char* tname) {
        ctx.eval();
        bool def = n == as_node;
        bool want = ref::equal(rn, sc::to_ref(as_node));
        if (got_eq != def || got_eq != want)
          ctx.violation("eq_scalar", "eq_scalar_overload", ref::show(rn), "%s == (%s)%s is %d, but node == NodeType(scalar) is %d and value equality is %d", ref::show(rn).c_str(), tname, ref::show(sc::to_ref(as_node)).c_str(), (int)got_eq, (int)def,
                        (int)want);
        if (got_ne == got_eq) ctx.violation("ne_not_negation", "eq_ne_not_negation", ref::show(rn), "operator!= is not the negation of operator== for a %s scalar", tname);
      };
      for (bool v : {true, false}) one(n == v, n != v, N(v), "bool");
      for (int v : {0, 1, -1, 7, INT32_MAX, INT32_MIN}) one(n == v, n != v, N(v), "int");
      for (uint32_t v : {0u, 1u, 7u, (uint32_t)INT32_MAX + 1u, UINT32_MAX}) one(n == v, n != v, N(v), "uint32_t");
      for (int64_t v : {(int64_t)0, (int64_t)-1, (int64_t)7, (int64_t)1 << 31, (int64_t)1 << 32, (int64_t)1 << 53, INT64_MAX, INT64_MIN}) one(n == v, n != v, N(v), "int64_t");
      for (uint64_t v : {(uint64_t)0, (uint64_t)7, (uint64_t)UINT32_MAX, (uint64_t)1 << 53, (uint64_t)1 << 63, UINT64_MAX}) one(n == v, n != v, N(v), "uint64_t");
      for (float v : {0.0f, -0.0f, 1.0f, 1.5f, 7.0f, -7.0f, 4294967296.0f, std::nanf(""), HUGE_VALF}) one(n == v, n != v, N(v), "float");
      for (double v : {0.0, -0.0, 1.0, 1.5, 7.0, -7.0, 4294967296.0, 9223372036854775808.0, 1e300, std::nan(""), HUGE_VAL, -HUGE_VAL}) one(n == v, n != v, N(v), "double");
      if (n.IsString())
        for (const char* sv : {"", "a", "1", "true", "ab"}) {
          ctx.eval();
          bool got = n == StringView(sv), ne = n != StringView(sv);
          bool want = rn.s == sv;
          if (got != want || ne == got) ctx.violation("eq_scalar", "eq_scalar_overload", ref::show(rn), "%s == StringView(\"%s\") is %d, != is %d", ref::show(rn).c_str(), sv, (int)got, (int)ne);
        }
      return;
    }
    if (f.name[1] == '4') {
      static const char* wn[4] = {"parsed", "parsed+maps", "api-reversed", "deep-copy(freeing alloc)"};
      static const int var5[5] = {0, 1, 2, 3, 5};
      unsigned n = N4[idx / 25];
      int vi = var5[(idx / 5) % 5], vj = var5[idx % 5];
      for (int kind = 0; kind < 2; kind++) {
        ref::Value A, B;
        if (kind == 0) {
          A = wobj(n, vi, n ? n - 1 : 0);
          B = wobj(n, vj, n ? n - 1 : 0);
        } else {
          if (vi > 3 || vj > 3 || vi == 2 || vj == 2) continue;  // arrays: base / reversed / last changed
          A = ref::Value::mk(ref::Arr);
          B = ref::Value::mk(ref::Arr);
          for (unsigned i = 0; i < n; i++) {
            A.a.push_back(ref::Value::mkU(i));
            B.a.push_back(ref::Value::mkU(i));
          }
          if (vi == 1) std::reverse(A.a.begin(), A.a.end());
          if (vj == 1) std::reverse(B.a.begin(), B.a.end());
          if (vi == 3 && n) A.a[n - 1] = ref::Value::mkU(1000 + n);
          if (vj == 3 && n) B.a[n - 1] = ref::Value::mkU(1000 + n);
        }
        RealW za, zb;
        std::string e1 = realise_wide(A, za), e2 = realise_wide(B, zb);
        std::string desc = std::string(kind ? "arrays" : "objects") + " of size " + std::to_string(n) + ", variants " + std::to_string(vi) + " vs " + std::to_string(vj);
        if (!e1.empty() || !e2.empty()) {
          ctx.violation("harness_build", "harness_build", desc, "harness error: %s", (e1 + e2).c_str());
          return;
        }
        bool want = ref::equal(A, B);
        ctx.nontriv();
        if (ctx.want_sample) ctx.sample(desc);
        for (int ri = 0; ri < 4; ri++)
          for (int rj = 0; rj < 4; rj++) {
            ctx.eval();
            auto go = [&](const auto& X) -> int {
              switch (rj) {
                case 0: return (int)(X == *zb.parsed) | ((int)(X != *zb.parsed) << 1);
                case 1: return (int)(X == *zb.mapped) | ((int)(X != *zb.mapped) << 1);
                case 2: return (int)(X == *zb.api_rev) | ((int)(X != *zb.api_rev) << 1);
                default: return (int)(X == *zb.copied) | ((int)(X != *zb.copied) << 1);
              }
            };
            int r = ri == 0 ? go(static_cast<const PoolDoc::NodeType&>(*za.parsed)) : ri == 1 ? go(static_cast<const PoolDoc::NodeType&>(*za.mapped)) : ri == 2 ? go(static_cast<const PoolDoc::NodeType&>(*za.api_rev)) : go(static_cast<const SimpleDoc::NodeType&>(*za.copied));
            bool e = r & 1, ne = (r >> 1) & 1;
            if (e != want) ctx.violation("eq_vs_model", want ? "eq_false_negative_size" : "eq_false_positive_size", desc, "%s: [%s] == [%s] is %d but the values are %s", desc.c_str(), wn[ri], wn[rj], (int)e, want ? "equal" : "different");
            if (ne == e) ctx.violation("ne_not_negation", "eq_ne_not_negation", desc, "operator!= is not the negation of operator== for [%s] vs [%s]", wn[ri], wn[rj]);
          }
      }
      return;
    }
    if (f.name[1] == '3') {
      static const char* wn[4] = {"parsed", "parsed+maps", "api-reversed", "deep-copy(freeing alloc)"};
      size_t i = idx / WV.size(), j = idx % WV.size();
      bool want = ref::equal(WV[i], WV[j]);
      if (WV[i].k == WV[j].k) ctx.nontriv();
      std::string desc = ref::show(WV[i]).substr(0, 300) + "  vs  " + ref::show(WV[j]).substr(0, 300);
      if (ctx.want_sample) ctx.sample(desc.substr(0, 200));
      for (int ri = 0; ri < 4; ri++)
        for (int rj = 0; rj < 4; rj++) {
          ctx.eval();
          int r = eqw(i, ri, j, rj);
          bool e = r & 1, ne = (r >> 1) & 1;
          if (e != want) ctx.violation("eq_vs_model", want ? "eq_false_negative_wide" : "eq_false_positive_wide", desc, "[%s] == [%s] is %d but the values are %s", wn[ri], wn[rj], (int)e, want ? "equal" : "different");
          if (ne == e) ctx.violation("ne_not_negation", "eq_ne_not_negation", desc, "operator!= is not the negation of operator== for [%s] vs [%s]", wn[ri], wn[rj]);
        }
      return;
    }
    size_t a = tsub[idx / (NT * NT)], b = tsub[(idx / NT) % NT], c = tsub[idx % NT];
    int ra = (int)(idx % 6), rb = (int)((idx / 6) % 6), rc = (int)((idx / 36) % 6);
    ctx.eval();
    bool ab = eq(a, ra, b, rb) & 1, bc = eq(b, rb, c, rc) & 1, ac = eq(a, ra, c, rc) & 1;
    if (ab && bc) ctx.nontriv();
    if (ab && bc && !ac) ctx.violation("eq_intransitive", "eq_intransitive", ref::show(V[a]), "a==b and b==c but not a==c: %s / %s / %s", ref::show(V[a]).c_str(), ref::show(V[b]).c_str(), ref::show(V[c]).c_str());
  };
  vr::Family f4;
  f4.name = "E4_size_sweep";
  f4.count = (uint64_t)N4.size() * 25;
  f4.group = "E4";
  f4.chunk = 8;
  f4.rule = "objects of EVERY size n in 0..130 and 255..257, 511..513, 1023..1025 (keys k0..): all ordered pairs over 5 variants (base, reversed, rotated by 7, last value changed, last member dropped) x 16 pairs of realisations (parsed / with lookup maps / API-built in reverse order / deep copy into a freeing-allocator document), and arrays of the same sizes (base, last element changed)";
  // E6: objects whose member NAMES come from a pool of keys of mixed lengths and byte values (non-ASCII next to ASCII,
  // lengths on both sides of 8 / 16 / 32): the lookup map of the right-hand side orders them with the library's comparator
  vr::Family f6;
  f6.name = "E6_key_pool_objects";
  f6.count = (uint64_t)kpool.size() * 8;
  f6.group = "E6";
  f6.chunk = 16;
  f6.rule = "objects of 12 members named from a pool of " + std::to_string(kpool.size()) + " keys (lengths 1..33 around 8/16/32, one byte of value a/z/7f/80/c3/e8/ff at positions 0,1,6,7,8,15,16,31), 8 strides: the value, its reversal and a copy with one value changed, each parsed / with lookup maps / API-built in reverse / deep-copied: all 16 realisation pairs of equal values are ==, of different values !=";
  vr::Family f5;
  // E7: number x number: all ordered pairs over numbers of the three kinds whose 64-bit PAYLOADS coincide across
  // kinds (-k and 2^64-k; an integer and the double with the same bit pattern; +0.0 / -0.0 / 0 / 2^63), as root,
  // array element and member value, parsed and API-built
  vr::Family f7;
  f7.name = "E7_number_pairs_coinciding_payloads";
  f7.count = 0;  // set below
  f7.group = "E7";
  f7.chunk = 64;
  const std::vector<std::pair<int, uint64_t>>& E7N = e7_numbers();
  f7.count = (uint64_t)E7N.size() * E7N.size() * 3;
  f7.rule = "all ordered pairs of " + std::to_string(E7N.size()) + " numbers of the three kinds whose 64-bit payloads coincide across kinds (-k vs 2^64-k for 8 values of k, integers vs the doubles with the same bit pattern, +0.0 / -0.0 / 0 / 2^63) x 3 positions (root, array element, member value), API-built against parsed: == holds iff kind and value are the same, symmetric, != its negation";
  f5.name = "E5_scalar_overloads";
  f5.count = 40;
  f5.group = "E5";
  f5.chunk = 4;
  f5.rule = "node == scalar for the C++ types the overload accepts (bool, int, uint32_t, int64_t, uint64_t, float, double, StringView): 40 nodes of every kind (integers around 0 / 2^31 / 2^32 / 2^53 / 2^63 / extremes, doubles incl. +-0.0, integral values, NaN, infinities, strings, empty containers, null, booleans) x 60 scalars: the result must be that of node == NodeType(scalar) and of reference value equality with number kinds distinguished, != its negation";
  std::vector<vr::Family> fams = {f1, f2, f3, f4, f5, f6, f7};
  if (args.replay) return R.replay_one(fams, check);
  for (auto& f : fams) R.run(f, check);
  return R.finish();
}
