// Engine ftoaenum (C07): finite doubles print as the shortest decimal that reads back to
// the same double, closest among the shortest.  Oracle per output, no reference printer:
//  (1) JSON number grammar with a fraction or an exponent, <= 32 bytes, sign of -0.0 kept
//  (2) strtod(out) == v  and  Document::Parse(out) is a double with the same bits
//  (3) minimal: with D*10^e (D without trailing zeros), neither floor(D/10) nor floor(D/10)+1
//      at 10^(e+1) reads back as v (convexity of the rounding interval makes these two enough)
//  (4) closest: if (D+-1)*10^e also reads back as v, v is at least as close to D*10^e
//      (exact big-integer comparison; exact ties accept either)
#include <xmmintrin.h>

#include <cmath>
#include <memory>

#include "common/env_locale.hpp"
#include "common/families.hpp"
#include "common/refjson.hpp"
#include "common/runner.hpp"
#include "sonic/internal/ftoa.h"
#include "sonic/sonic.h"

using namespace sonic_json;

struct Big {
  std::vector<uint32_t> l;
  explicit Big(uint64_t v = 0) {
    while (v) {
      l.push_back((uint32_t)(v % 1000000000u));
      v /= 1000000000u;
    }
  }
  void mul(uint32_t m) {
    uint64_t c = 0;
    for (auto& x : l) {
      uint64_t t = (uint64_t)x * m + c;
      x = (uint32_t)(t % 1000000000u);
      c = t / 1000000000u;
    }
    while (c) {
      l.push_back((uint32_t)(c % 1000000000u));
      c /= 1000000000u;
    }
  }
  void mul_pow2(int k) {
    while (k >= 29) {
      mul(1u << 29);
      k -= 29;
    }
    if (k) mul(1u << k);
  }
  void mul_pow10(int k) {
    while (k >= 9) {
      mul(1000000000u);
      k -= 9;
    }
    static const uint32_t p[9] = {1, 10, 100, 1000, 10000, 100000, 1000000, 10000000, 100000000};
    if (k) mul(p[k]);
  }
  static int cmp(const Big& a, const Big& b) {
    if (a.l.size() != b.l.size()) return a.l.size() < b.l.size() ? -1 : 1;
    for (size_t i = a.l.size(); i-- > 0;)
      if (a.l[i] != b.l[i]) return a.l[i] < b.l[i] ? -1 : 1;
    return 0;
  }
};
// sign of ( 2*c*2^q  -  D2*10^e )
static int cmp_exact(uint64_t c, int q, uint64_t D2, int e) {
  Big L(c), Rr(D2);
  L.mul(2);
  if (q >= 0) L.mul_pow2(q); else Rr.mul_pow2(-q);
  if (e >= 0) Rr.mul_pow10(e); else L.mul_pow10(-e);
  return Big::cmp(L, Rr);
}

static uint64_t bits_of(double d) {
  uint64_t b;
  std::memcpy(&b, &d, 8);
  return b;
}
static double dbl_of(uint64_t b) {
  double d;
  std::memcpy(&d, &b, 8);
  return d;
}

static bool reads_back(uint64_t D, int e, uint64_t want_abs_bits) {
  char buf[64];
  snprintf(buf, sizeof buf, "%llue%d", (unsigned long long)D, e);
  return bits_of(std::strtod(buf, nullptr)) == want_abs_bits;
}

static void check_double(uint64_t bits, vr::Ctx& ctx, bool through_doc) {
  double v = dbl_of(bits);
  char raw[80];
  std::memset(raw, 0x5a, sizeof raw);
  char* out = raw + 8;
  int n = internal::F64toa(out, v);
  ctx.eval();
  char id[40];
  snprintf(id, sizeof id, "bits=%016llx", (unsigned long long)bits);
  if (n <= 0 || n > 32) {
    ctx.violation("ftoa_length", "ftoa_length", id, "%s (%.17g): F64toa returned length %d", id, v, n);
    return;
  }
  for (int i = 0; i < 8; i++)
    if (raw[i] != 0x5a) ctx.violation("ftoa_underwrite", "ftoa_underwrite", id, "%s: wrote before the buffer", id);
  for (int i = 8 + 33; i < 80; i++)
    if (raw[i] != 0x5a) ctx.violation("ftoa_overwrite", "ftoa_overwrite", id, "%s: wrote beyond out+33", id);
  std::string s(out, (size_t)n);
  // (1) grammar: -? int frac? exp?  with at least one of frac/exp
  size_t i = 0;
  bool neg = false;
  if (i < s.size() && s[i] == '-') {
    neg = true;
    i++;
  }
  size_t is = i;
  while (i < s.size() && isdigit((unsigned char)s[i])) i++;
  size_t ie = i;
  bool ok = ie > is && !(s[is] == '0' && ie - is > 1);
  size_t fs = 0, fe = 0;
  bool has_frac = false, has_exp = false;
  if (i < s.size() && s[i] == '.') {
    has_frac = true;
    i++;
    fs = i;
    while (i < s.size() && isdigit((unsigned char)s[i])) i++;
    fe = i;
    if (fe == fs) ok = false;
  }
  int ex = 0;
  if (i < s.size() && (s[i] == 'e' || s[i] == 'E')) {
    has_exp = true;
    i++;
    bool eneg = false;
    if (i < s.size() && (s[i] == '-' || s[i] == '+')) {
      eneg = s[i] == '-';
      i++;
    }
    size_t es = i;
    while (i < s.size() && isdigit((unsigned char)s[i])) {
      ex = ex * 10 + (s[i] - '0');
      i++;
    }
    if (i == es) ok = false;
    if (eneg) ex = -ex;
  }
  if (i != s.size() || !ok || !(has_frac || has_exp)) {
    ctx.violation("ftoa_grammar", "ftoa_grammar", id, "%s: output '%s' is not a JSON number with a fraction or an exponent", id, s.c_str());
    return;
  }
  if (neg != ((bits >> 63) != 0)) {
    ctx.violation("ftoa_sign", "ftoa_sign", id, "%s: output '%s' has the wrong sign", id, s.c_str());
    return;
  }
  // (2) round trip
  if (bits_of(std::strtod(s.c_str(), nullptr)) != bits) {
    ctx.violation("ftoa_roundtrip", "ftoa_roundtrip_strtod", id, "%s: output '%s' reads back (strtod) as %016llx", id, s.c_str(), (unsigned long long)bits_of(std::strtod(s.c_str(), nullptr)));
    return;
  }
  {
    Document d;
    d.Parse(s);
    if (d.HasParseError() || !d.IsDouble() || bits_of(d.GetDouble()) != bits) {
      ctx.violation("ftoa_roundtrip", "ftoa_roundtrip_sonic", id, "%s: output '%s' does not parse back to the same double in this library (err %d)", id, s.c_str(), (int)d.GetParseError());
      return;
    }
  }
  if ((bits << 1) == 0) return;  // zero
  // digits D and exponent e:  |v| ~ D * 10^e
  std::string dg = s.substr(is, ie - is);
  int e = ex;
  if (has_frac) {
    dg += s.substr(fs, fe - fs);
    e -= (int)(fe - fs);
  }
  size_t lead = 0;
  while (lead + 1 < dg.size() && dg[lead] == '0') lead++;
  dg = dg.substr(lead);
  while (dg.size() > 1 && dg.back() == '0') {
    dg.pop_back();
    e++;
  }
  if (dg.size() > 17) {
    ctx.violation("ftoa_too_long", "ftoa_too_many_digits", id, "%s: output '%s' has %zu significant digits", id, s.c_str(), dg.size());
    return;
  }
  uint64_t D = std::strtoull(dg.c_str(), nullptr, 10);
  uint64_t abits = bits & ~(1ull << 63);
  ctx.count(0, dg.size());
  // (3) minimal
  if (dg.size() > 1) {
    uint64_t f = D / 10;
    if ((f > 0 && reads_back(f, e + 1, abits)) || reads_back(f + 1, e + 1, abits)) {
      ctx.violation("ftoa_not_shortest", "ftoa_not_shortest", id, "%s: output '%s' (%zu digits) is not the shortest: %llue%d or %llue%d also reads back", id, s.c_str(), dg.size(),
                    (unsigned long long)f, e + 1, (unsigned long long)f + 1, e + 1);
      return;
    }
  }
  // (4) closest among the shortest
  uint64_t be = abits >> 52, frac = abits & ((1ull << 52) - 1);
  uint64_t c = be ? (frac | (1ull << 52)) : frac;
  int q = be ? (int)be - 1075 : -1074;
  if (reads_back(D + 1, e, abits)) {
    ctx.count(1);
    // need 2c2^q <= (2D+1) 10^e
    if (cmp_exact(c, q, 2 * D + 1, e) > 0)
      ctx.violation("ftoa_not_closest", "ftoa_not_closest", id, "%s: output '%s' but %llue%d is strictly closer and as short", id, s.c_str(), (unsigned long long)(D + 1), e);
  }
  if (D > 1 && reads_back(D - 1, e, abits)) {
    ctx.count(1);
    if (cmp_exact(c, q, 2 * D - 1, e) < 0)
      ctx.violation("ftoa_not_closest", "ftoa_not_closest", id, "%s: output '%s' but %llue%d is strictly closer and as short", id, s.c_str(), (unsigned long long)(D - 1), e);
  }
  if (through_doc) {
    Document d;
    d.SetDouble(v);
    std::string dump = d.Dump();
    if (dump != s) ctx.violation("ftoa_dump", "ftoa_dump", id, "%s: Dump() gives '%s' but F64toa gives '%s'", id, dump.c_str(), s.c_str());
    Document arr;
    arr.SetArray();
    arr.PushBack(Node(v), arr.GetAllocator());
    arr.PushBack(Node(v), arr.GetAllocator());
    if (arr.Dump() != "[" + s + "," + s + "]") ctx.violation("ftoa_dump", "ftoa_dump_array", id, "%s: array Dump() gives '%s'", id, arr.Dump().c_str());
  }
}

int main(int argc, char** argv) {
  vr::Args args = vr::parse_args(argc, argv);
  vr::Runner R(args);
  const bool quick = R.quick();
  // significand patterns
  std::vector<uint64_t> pats;
  {
    const uint64_t ALL = (1ull << 52) - 1;
    pats.push_back(0);
    pats.push_back(ALL);
    for (int i = 0; i < 52; i++) {
      pats.push_back(1ull << i);
      pats.push_back(ALL ^ (1ull << i));
    }
    for (int i = 0; i < 52; i++)
      for (int j = i + 1; j < 52; j++) {
        pats.push_back((1ull << i) | (1ull << j));
        pats.push_back(ALL ^ ((1ull << i) | (1ull << j)));
      }
    for (uint64_t x : std::initializer_list<uint64_t>{0x5555555555555ull, 0xAAAAAAAAAAAAAull, 0x123456789ABCDull, 0xFEDCBA9876543ull, 0x3333333333333ull, 0xCCCCCCCCCCCCCull, 0x0F0F0F0F0F0F0ull, 0xF0F0F0F0F0F0Full, 2ull, 3ull, ALL - 1, ALL - 2})
      pats.push_back(x);
    std::sort(pats.begin(), pats.end());
    pats.erase(std::unique(pats.begin(), pats.end()), pats.end());
  }
  vr::Family d1, d2, d3, d3b, d4;
  d1.name = "D1_exponent_x_pattern";
  d1.count = (uint64_t)2047 * pats.size() * 2;
  d1.group = "D1";
  d1.chunk = 4096;
  d1.rule = "every biased exponent 0..2046 x " + std::to_string(pats.size()) + " significand patterns (<=2 bits set, <=2 bits clear" + " [all pairs]" + ", 0, all ones, alternating, ...) x both signs";
  d2.name = "D2_decimal_table_rows";
  d2.count = (uint64_t)633 * 99 * 7;
  d2.group = "D2";
  d2.chunk = 512;
  d2.rule = "for every decimal exponent -324..308 the doubles nearest d*10^k for d in 1..99 and their +-3 ulp neighbours (every entry of the power-of-ten table); also through Serialize/Dump";
  d3.name = "D3_integers";
  d3.count = 1ull << (quick ? 21 : 25);
  d3.group = "D3";
  d3.chunk = 8192;
  d3.rule = std::string("every integer-valued double 0..2^") + (quick ? "21" : "25") + " (integer fast path, format with .0)";
  std::vector<uint64_t> d3bv;
  {
    for (int k = 0; k < 64; k++)
      for (int d = -3; d <= 3; d++) {
        double x = std::ldexp(1.0, k) + d;
        if (x >= 0) d3bv.push_back(bits_of(x));
      }
    for (double x : {1e21, 1e20, 1e22, 1e-6, 1e-7, 1e-5, 1e15, 1e16, 1e17, 9007199254740992.0, 9007199254740991.0, 4503599627370496.0, 123456789012345680.0, 0.1, 0.2, 0.3, 1.0 / 3, 2.0 / 3, 5e-324, 1.7976931348623157e308,
                     2.2250738585072014e-308, 2.225073858507201e-308, 9.5367431640625e-7, 1e23, 8.41e21, 2.0e-3, 4.9406564584124654e-324})
      for (int d = -8; d <= 8; d++) {
        uint64_t b = bits_of(x) + (uint64_t)(int64_t)d;
        if ((b >> 52) < 0x7ff) d3bv.push_back(b);
      }
  }
  d3b.name = "D3b_format_switch_points";
  d3b.count = d3bv.size() * 2;
  d3b.group = "D3b";
  d3b.chunk = 64;
  d3b.rule = "2^k+-3 for k<64, and +-8 ulp around 1e21/1e20 (exponent-format switch), 1e-6/1e-7, 2^53, extremes; both signs; also through Serialize/Dump";
  d4.name = quick ? "D4_floats_low12_boundary" : "D4_all_floats";
  d4.count = quick ? (1ull << 20) * 8 : (1ull << 32);
  d4.group = "D4";
  d4.chunk = 1 << 16;
  d4.rule = quick ? "single-precision values widened to double: all floats whose low 12 mantissa bits are one of 0,1,2,0x7ff,0x800,0x801,0xffe,0xfff" : "every single-precision value (all 2^32 bit patterns; NaN/inf skipped) widened to double";

  // D5 / D6: SHORT decimals.  The digit generator works on the 16/17-digit decimal significand in 4- and 8-digit groups
  // and trims trailing zeros group-wise; random or boundary significands always produce 16-17 digits, so the digit
  // strings themselves are enumerated here: D5 = four 4-digit groups from a set of 10 (every zero / non-zero group
  // pattern) with 0..3 trailing digits cut off (every alignment of the groups to the right end); D6 = at most two
  // non-zero digits at every pair of the 17 positions.  Each is placed at 37 decimal exponents covering both output formats.
  static const char* G5[10] = {"0000", "0001", "0010", "0100", "1000", "1234", "5678", "9999", "9990", "0999"};
  static const int K5[] = {-340, -324, -320, -310, -200, -40, -30, -25, -22, -20, -18, -17, -16, -15, -14, -13, -12, -11, -10, -9, -8, -7, -6, -5, -4, -3, -2, -1, 0, 1, 2, 3, 4, 5, 8, 20, 200, 290};
  const unsigned NK5 = sizeof K5 / sizeof K5[0];
  vr::Family d5, d6;
  d5.name = "D5_short_decimal_groups";
  d5.count = (uint64_t)10000 * 4 * NK5;
  d5.group = "D5";
  d5.chunk = 2048;
  d5.rule = "doubles nearest g1g2g3g4 / 10^t x 10^k: every sequence of four 4-digit groups from {0000,0001,0010,0100,1000,1234,5678,9999,9990,0999}, t in 0..3 trailing digits removed, 38 decimal exponents k (both output formats, subnormal to 1e300); short shortest-decimals with zero groups inside";
  d6.name = "D6_two_nonzero_digits";
  d6.count = (uint64_t)17 * 17 * 81 * NK5;
  d6.group = "D6";
  d6.chunk = 2048;
  d6.rule = "doubles nearest the 17-digit strings with non-zero digits a at position i and b at position j (all i<=j, a,b in 1..9; i==j: one digit) x 38 decimal exponents";
  auto short_decimal = [&](const std::string& digits, int k, vr::Ctx& ctx) {
    std::string t = digits;
    size_t nz = t.find_first_not_of('0');
    if (nz == std::string::npos) {
      ctx.skip();
      return;
    }
    t = t.substr(nz) + "e" + std::to_string(k);
    double x = std::strtod(t.c_str(), nullptr);
    uint64_t bits = bits_of(x);
    if ((bits >> 52) >= 0x7ff || (bits << 1) == 0) {
      ctx.skip();
      return;
    }
    if (ctx.want_sample) ctx.sample(t);
    ctx.nontriv();
    check_double(bits, ctx, (bits & 7) == 0);
  };

  static bool g_comma_locale = false;
  {
    std::string self = argv[0];
    size_t sl = self.rfind('/');
    g_comma_locale = envl::build_comma_locale((sl == std::string::npos ? std::string(".") : self.substr(0, sl)) + "/locale_comma");
  }
  // D8: 16/17-digit decimals at the DIGIT-BLOCK boundaries of the formatter (it divides the significand by 10^8 and by
  // 10^4): high part H from 1000 values, low 8 digits L just below / above a multiple of 10^8 and around the middle
  static const uint32_t L8[] = {0, 1, 2, 3, 9, 10, 99, 9999, 10000, 49999999, 50000000, 50000001, 99990000, 99999989, 99999990, 99999991, 99999992, 99999993, 99999994, 99999995, 99999996, 99999997, 99999998, 99999999};
  const unsigned NL8 = sizeof L8 / sizeof L8[0];
  vr::Family d8;
  d8.name = "D8_digit_block_boundaries";
  d8.count = (uint64_t)1000 * NL8 * 2 * NK5;
  d8.group = "D8";
  d8.chunk = 4096;
  d8.rule = "doubles nearest H*10^8 + L (17 digits) and (H/10)*10^8 + L (16 digits) for 1000 values H spread over [10^8, 10^9), L from 24 values at the block boundaries (0..3, 9, 10, 99, 9999, 10000, 49999999..50000001, 99990000, 99999989..99999999), at 38 decimal exponents: the doubles whose shortest 16/17-digit text has its low eight digits next to a carry";
  // D7: the floating-point ENVIRONMENT. Printing works on the bit pattern; a process that runs with denormals-are-zero /
  // flush-to-zero (every program linked with -ffast-math) or a non-default rounding mode must get the same text
  vr::Family d7;
  d7.name = "D7_fp_environment";
  d7.count = (uint64_t)pats.size() * 6 * 2;
  d7.group = "D7";
  d7.chunk = 1024;
  d7.rule = "every significand pattern at biased exponents 0 (subnormal), 1, 2, 1023, 1075, 2046, both signs, printed under MXCSR = default, DAZ|FTZ, round-toward-zero, round-up, and in a process locale whose decimal point is ',': F64toa and Dump() must give the text of the default environment (which the other families check)";

  vr::CheckFn check = [&](const vr::Family& f, uint64_t idx, vr::Ctx& ctx) {
    const std::string& nm = f.name;
    if (nm[1] == '8') {
      int k = K5[idx % NK5];
      idx /= NK5;
      unsigned sixteen = (unsigned)(idx % 2);
      idx /= 2;
      uint32_t lo = L8[idx % NL8];
      uint64_t hi = 100000000ull + (idx / NL8) * 900000ull + ((idx / NL8) * 7919ull) % 900000ull;  // 1000 values in [10^8, 10^9)
      if (sixteen) hi /= 10;
      char b[48];
      snprintf(b, sizeof b, "%llu%08ue%d", (unsigned long long)hi, lo, k);
      double x = std::strtod(b, nullptr);
      uint64_t bits = bits_of(x);
      if ((bits >> 52) >= 0x7ff || (bits << 1) == 0) {
        ctx.skip();
        return;
      }
      if (ctx.want_sample) ctx.sample(b);
      ctx.nontriv();
      check_double(bits, ctx, false);
      return;
    }
    if (nm[1] == '7') {
      static const unsigned bes[6] = {0, 1, 2, 1023, 1075, 2046};
      uint64_t sign = idx & 1;
      idx >>= 1;
      uint64_t be = bes[idx % 6];
      uint64_t p = pats[idx / 6];
      uint64_t bits = (sign << 63) | (be << 52) | p;
      double v = dbl_of(bits);
      if (ctx.want_sample) {
        char b[40];
        snprintf(b, sizeof b, "%016llx", (unsigned long long)bits);
        ctx.sample(b);
      }
      ctx.eval();
      ctx.nontriv();
      char ref_out[64];
      size_t ref_n = (size_t)internal::F64toa(ref_out, v);
      if (g_comma_locale) {
        // the process locale (decimal point ','): printing must not consult it
        setlocale(LC_NUMERIC, "xx_XX");
        char out[64];
        size_t n = (size_t)internal::F64toa(out, v);
        Document dl;
        dl.SetDouble(v);
        std::string dump = dl.Dump();
        setlocale(LC_NUMERIC, "C");
        if (n != ref_n || std::memcmp(out, ref_out, n) != 0 || dump != std::string(ref_out, ref_n))
          ctx.violation("ftoa_fp_environment", "ftoa_process_locale", std::string(ref_out, ref_n), "bits=%016llx: F64toa prints '%.*s' / Dump '%s' in a locale with decimal point ',' but '%.*s' in the C locale", (unsigned long long)bits, (int)n, out, dump.c_str(), (int)ref_n, ref_out);
      }
      const unsigned saved = _mm_getcsr();
      static const unsigned envs[3] = {0x8040u /* DAZ | FTZ */, 0x6000u /* round toward zero */, 0x4000u /* round up */};
      static const char* envn[3] = {"DAZ|FTZ", "round-toward-zero", "round-up"};
      for (int e = 0; e < 3; e++) {
        char out[64];
        std::string dump;
        _mm_setcsr((saved & ~0x6000u) | envs[e]);
        size_t n = (size_t)internal::F64toa(out, v);
        {
          Document d;
          d.SetDouble(v);
          dump = d.Dump();
        }
        _mm_setcsr(saved);
        if (n != ref_n || std::memcmp(out, ref_out, n) != 0)
          ctx.violation("ftoa_fp_environment", "ftoa_fp_environment", std::string(ref_out, ref_n), "bits=%016llx: F64toa prints '%.*s' under %s but '%.*s' in the default environment", (unsigned long long)bits, (int)n, out, envn[e], (int)ref_n, ref_out);
        else if (dump != std::string(ref_out, ref_n))
          ctx.violation("ftoa_fp_environment", "ftoa_fp_environment_dump", std::string(ref_out, ref_n), "bits=%016llx: Dump() gives '%s' under %s but F64toa gives '%.*s' in the default environment", (unsigned long long)bits, dump.c_str(), envn[e], (int)ref_n, ref_out);
      }
      return;
    }
    if (nm[1] == '5') {
      int k = K5[idx % NK5];
      idx /= NK5;
      unsigned t = (unsigned)(idx % 4);
      idx /= 4;
      std::string dg;
      for (int g = 0; g < 4; g++) {
        dg = std::string(G5[idx % 10]) + dg;
        idx /= 10;
      }
      dg.resize(dg.size() - t);
      short_decimal(dg, k, ctx);
      return;
    }
    if (nm[1] == '6') {
      int k = K5[idx % NK5];
      idx /= NK5;
      unsigned b = (unsigned)(idx % 9) + 1;
      idx /= 9;
      unsigned a = (unsigned)(idx % 9) + 1;
      idx /= 9;
      unsigned j = (unsigned)(idx % 17);
      unsigned i = (unsigned)(idx / 17);
      if (i > j || (i == j && a != b)) {
        ctx.skip();
        return;
      }
      std::string dg(17, '0');
      dg[i] = (char)('0' + a);
      dg[j] = (char)('0' + b);
      short_decimal(dg, k, ctx);
      return;
    }
    if (nm[1] == '1') {
      uint64_t sign = idx & 1;
      idx >>= 1;
      uint64_t p = pats[idx % pats.size()];
      uint64_t be = idx / pats.size();
      uint64_t bits = (sign << 63) | (be << 52) | p;
      if (ctx.want_sample) {
        char b[40];
        snprintf(b, sizeof b, "%016llx", (unsigned long long)bits);
        ctx.sample(b);
      }
      ctx.nontriv();
      check_double(bits, ctx, false);
      return;
    }
    if (nm[1] == '2') {
      int du = (int)(idx % 7) - 3;
      idx /= 7;
      unsigned d = (unsigned)(idx % 99) + 1;
      int k = (int)(idx / 99) - 324;
      char b[40];
      snprintf(b, sizeof b, "%ue%d", d, k);
      double x = std::strtod(b, nullptr);
      uint64_t bits = bits_of(x) + (uint64_t)(int64_t)du;
      if ((bits >> 52) >= 0x7ff || (int64_t)bits < 0) {
        ctx.skip();
        return;
      }
      if (ctx.want_sample) ctx.sample(std::string(b) + (du >= 0 ? "+" : "") + std::to_string(du) + "ulp");
      ctx.nontriv();
      check_double(bits, ctx, true);
      return;
    }
    if (nm == "D3_integers") {
      if (ctx.want_sample) ctx.sample(std::to_string(idx));
      ctx.nontriv();
      check_double(bits_of((double)idx), ctx, (idx & 1023) == 0);
      return;
    }
    if (nm[1] == '3') {
      uint64_t bits = d3bv[idx / 2] | ((idx & 1) << 63);
      if (ctx.want_sample) {
        char b[40];
        snprintf(b, sizeof b, "%.17g", dbl_of(bits));
        ctx.sample(b);
      }
      ctx.nontriv();
      check_double(bits, ctx, true);
      return;
    }
    {
      uint32_t fb;
      if (quick) {
        static const uint32_t low[8] = {0, 1, 2, 0x7ff, 0x800, 0x801, 0xffe, 0xfff};
        fb = (uint32_t)((idx / 8) << 12) | low[idx % 8];
      } else
        fb = (uint32_t)idx;
      float fl;
      std::memcpy(&fl, &fb, 4);
      if (std::isnan(fl) || std::isinf(fl)) {
        ctx.skip();
        return;
      }
      if (ctx.want_sample) {
        char b[40];
        snprintf(b, sizeof b, "float %08x = %.9g", fb, (double)fl);
        ctx.sample(b);
      }
      ctx.nontriv();
      check_double(bits_of((double)fl), ctx, false);
    }
  };

  std::vector<vr::Family> fams = {d1, d2, d3, d3b, d4, d5, d6, d7, d8};
  if (args.replay) return R.replay_one(fams, check);
  const std::string only = args.get("only");
  for (auto& f : fams)
    if (only.empty() || only == f.name) R.run(f, check);
  return R.finish();
}
