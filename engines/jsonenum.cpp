// Engine jsonenum: exhaustive JSON-text families through Document::Parse.
//   --prop C01 : accept/reject + error coherence against the reference model
//   --prop C02 : totality and memory safety (ASan build, several allocators,
//                reuse histories, heap-balance and ledger monitors)
//   --prop C03 : accepted texts -> document identical to the denoted value
#include <memory>
#include <string>
#include <vector>
// PROGRAM PHASE: a global defined ABOVE every library include; its constructor (body below) parses and dumps a few texts
// during static initialisation, before any dynamic initialiser the library's headers may add to this translation unit
struct EarlyParse {
  struct R {
    bool ok;
    int code;
    size_t off;
    std::string dump;
  };
  std::vector<R> r;
  EarlyParse();
};
static EarlyParse g_early;

#include "common/families.hpp"
#include "common/fence_alloc.hpp"
#include "common/refjson.hpp"
#include "common/runner.hpp"
#include "common/sonic_cmp.hpp"
#include "common/track_alloc.hpp"
#include "sonic/sonic.h"

#if defined(__SANITIZE_ADDRESS__)
extern "C" size_t __sanitizer_get_current_allocated_bytes();
#define HAVE_ASAN 1
#else
#define HAVE_ASAN 0
#endif

using namespace sonic_json;
using PoolDoc = Document;
using SimpleDoc = GenericDocument<DNode<SimpleAllocator>>;
using TrackDoc = GenericDocument<DNode<ta::TrackingAllocator>>;

static size_t heap_bytes() {
#if HAVE_ASAN
  return __sanitizer_get_current_allocated_bytes();
#else
  return 0;
#endif
}

struct ExactBuf {
  char* p;
  size_t n;
  explicit ExactBuf(const std::string& s) : n(s.size()) {
    p = (char*)std::malloc(n);  // exact size: ASan red zone starts at p+n
    if (n) std::memcpy(p, s.data(), n);
  }
  ~ExactBuf() { std::free(p); }
};

template <class A>
static auto clear_pool(A& a) -> decltype(a.Clear(), void()) {
  a.Clear();
}
static void clear_pool(...) {}

static const char* kEarlyTexts[] = {"{\"a\":[1,-2,3.25,1e300,18446744073709551615,123456789012345678901234567890],\"s\":\"x\\n\\u00e9\\ud83d\\ude00 \\\"q\\\"\",\"t\":[true,false,null]}",
                                     "[1234567890123,100000000,99999999,0.1,2.2250738585072011e-308,1.7976931348623157e308]", "   [ \"long string long string long string long string long string long string\" ,  {} , [] ]  ",
                                     "[1e400]", "{\"a\":tru}", "\"\\ud800\"", "[1,2"};
EarlyParse::EarlyParse() {
  for (const char* t : kEarlyTexts) {
    Document d;
    d.Parse(t, std::strlen(t));
    r.push_back({!d.HasParseError(), (int)d.GetParseError(), d.GetErrorOffset(), d.HasParseError() ? std::string() : d.Dump()});
  }
}

static bool parse_code_ok(int c) { return (c >= 1 && c <= 10) || c == 15; }

// ---------------------------------------------------------------- C01
template <class Doc>
static void c01_judge(Doc& doc, const std::string& text, const ref::Result& r, const std::string& sfx, vr::Ctx& ctx);
static void check_C01(const std::string& text, vr::Ctx& ctx) {
  ref::Result r = ref::parse(text);
  ExactBuf b(text);
  PoolDoc doc;
  doc.Parse(b.p, b.n);
  ctx.eval();
  if (r.ok || r.tokens >= 2) ctx.nontriv();
  if (r.ok) ctx.count(0);
  c01_judge(doc, text, r, "", ctx);
}
// the C01 oracle on a document that has just parsed `text` (sfx distinguishes fresh and reused documents in the class name)
template <class Doc>
static void c01_judge(Doc& doc, const std::string& text, const ref::Result& r, const std::string& sfx, vr::Ctx& ctx) {
  bool acc = !doc.HasParseError();
  int code = (int)doc.GetParseError();
  size_t off = doc.GetErrorOffset();
  if (acc != r.ok) {
    ctx.violation("accept_mismatch", std::string((acc ? "accepts_invalid" : "rejects_valid")) + sfx, text,
                  "impl %s (code %d, offset %zu) but reference %s (fault %d at %zu)", acc ? "accepts" : "rejects", code,
                  off, r.ok ? "accepts" : "rejects", (int)r.fault, r.fault_off);
    return;
  }
  if (acc) {
    if (code != 0) ctx.violation("success_code", std::string("success_code") + sfx, text, "success with code %d", code);
    if (off != text.size())
      ctx.violation("success_offset", std::string("success_offset") + sfx, text, "success but offset %zu != length %zu", off, text.size());
    return;
  }
  if (!doc.IsNull()) ctx.violation("failure_not_null", std::string("failure_not_null") + sfx, text, "document not null after failed parse (code %d)", code);
  if (!parse_code_ok(code)) ctx.violation("failure_code_range", std::string("failure_code_range") + sfx, text, "code %d is not a parse error code", code);
  if (off > text.size())
    ctx.violation("offset_gt_len", std::string("offset_gt_len") + sfx, text, "error offset %zu > length %zu (code %d)", off, text.size(), code);
  if (r.lenient_ok && r.bad_literals == 0 && r.overflow_numbers >= 1) {
    ctx.count(1);
    if (code != kParseErrorInfinity)
      ctx.violation("fault_class", std::string("class_infinity") + sfx, text, "only fault is an overflowing number but code is %d, not kParseErrorInfinity", code);
  }
  if (r.lenient_ok && r.bad_literals == 1 && r.overflow_numbers == 0) {
    ctx.count(2);
    int cls = r.bad_literal_classes;
    bool ok = (code == kParseErrorUnEscaped && (cls & ref::SC_CONTROL)) ||
              (code == kParseErrorEscapedFormat && (cls & ref::SC_ESCAPE)) ||
              (code == kParseErrorEscapedUnicode && (cls & ref::SC_UNICODE));
    if (!ok)
      ctx.violation("fault_class", std::string("class_string") + sfx, text, "only fault is one malformed string literal with fault classes %d (1=control 2=escape 4=unicode) but code is %d", cls, code);
  }
}

// C01 after a history: Y parsed into a document that has parsed X before must be judged exactly like Y on a fresh document
template <class Doc>
static void c01_after_history(const std::string& X, const std::string& Y, const char* tag, vr::Ctx& ctx) {
  ref::Result r = ref::parse(Y);
  Doc doc;
  {
    ExactBuf bx(X);
    doc.Parse(bx.p, bx.n);
  }
  ExactBuf by(Y);
  doc.Parse(by.p, by.n);
  c01_judge(doc, Y, r, std::string("_after_history_") + tag, ctx);
}

// ---------------------------------------------------------------- C03
static bool g_fence_this_family = false;  // set per family by main(): third realisation with the fence allocator
static void check_C03(const std::string& text, vr::Ctx& ctx) {
  ref::Result r = ref::parse(text);
  ctx.eval();
  if (!r.ok) return;  // C01 decides acceptance; C03 is about accepted texts
  ExactBuf b(text);
  PoolDoc doc;
  doc.Parse(b.p, b.n);
  if (doc.HasParseError()) {
    ctx.violation("rejects_valid", "rejects_valid", text, "valid text rejected with code %d", (int)doc.GetParseError());
    return;
  }
  if (r.v.isContainer() || text.size() > 4) ctx.nontriv();
  std::string d = sc::compare(doc, r.v);
  if (!d.empty()) {
    ctx.violation("value_mismatch", "value_mismatch", text, "%s", d.c_str());
    return;
  }
  // second realisation: freeing allocator (different node/str ownership paths)
  SimpleDoc d2;
  d2.Parse(b.p, b.n);
  if (d2.HasParseError()) {
    ctx.violation("rejects_valid", "rejects_valid_simplealloc", text, "valid text rejected (SimpleAllocator) code %d", (int)d2.GetParseError());
    return;
  }
  d = sc::compare(d2, r.v);
  if (!d.empty()) ctx.violation("value_mismatch", "value_mismatch_simplealloc", text, "%s", d.c_str());
#if !defined(__SANITIZE_ADDRESS__)
  // third realisation (production builds, selected families): every block the parser obtains - the padded copy of
  // the input, the node stack, the final node arrays - ends directly in front of an inaccessible page
  if (g_fence_this_family) {
    using FDoc = GenericDocument<DNode<fa::FenceAllocator>>;
    {
      FDoc d3;
      d3.Parse(b.p, b.n);
      if (d3.HasParseError()) {
        ctx.violation("rejects_valid", "rejects_valid_fencealloc", text, "valid text rejected (fence allocator) code %d", (int)d3.GetParseError());
        return;
      }
      d = sc::compare(d3, r.v);
      if (!d.empty()) ctx.violation("value_mismatch", "value_mismatch_fencealloc", text, "%s", d.c_str());
      if (d3.Dump() != doc.Dump()) ctx.violation("value_mismatch", "dump_mismatch_fencealloc", text, "Dump() differs between the pool and the fence allocator document");
    }
    if (fa::table().errors || !fa::table().live.empty()) {
      ctx.violation("fence_ledger", "fence_ledger", text, "fence allocator: %d foreign frees, %zu blocks still allocated after the document died", fa::table().errors, fa::table().live.size());
      fa::table().errors = 0;
    }
  }
#endif
}

// the value read back after a history of earlier calls on the same document (C03: "a successful Parse yields
// exactly the value", also when the document has been used before, successfully or not)
template <class Doc>
static void c03_after_history(const std::vector<const std::string*>& before, int mode, const std::string& last, const ref::Value& want, const char* tag, vr::Ctx& ctx) {
  std::string desc;
  for (auto x : before) desc += *x + " ; ";
  desc += (mode == 1 ? "[then ParseOnDemand /a] ; " : mode == 2 ? "[then ParseSchema] ; " : mode == 3 ? "[then allocator.Clear()] ; " : "") + last;
  Doc doc;
  for (auto x : before) {
    ExactBuf b(*x);
    doc.Parse(b.p, b.n);
  }
  if (mode == 3) {
    static_cast<typename Doc::NodeType&>(doc).SetNull();
    clear_pool(doc.GetAllocator());
  } else if (mode == 1) {
    ExactBuf b(last);
    doc.ParseOnDemand(b.p, b.n, JsonPointer({JsonPointerNode("a")}));
  } else if (mode == 2) {
    ExactBuf b(last);
    doc.ParseSchema(b.p, b.n);
  }
  ExactBuf b(last);
  doc.Parse(b.p, b.n);
  if (doc.HasParseError()) {
    ctx.violation("rejects_valid", std::string("rejects_valid_after_history_") + tag, desc, "valid text rejected with code %d after earlier calls on the same document", (int)doc.GetParseError());
    return;
  }
  std::string d = sc::compare(doc, want);
  if (!d.empty()) ctx.violation("value_mismatch", std::string("value_mismatch_after_history_") + tag, desc, "%s", d.c_str());
}

// ---------------------------------------------------------------- C02
static const char kProbe[] = "[1,\"a\",{\"b\":null,\"c\":[true,2.5]}]";

template <class Doc>
struct Outcome {
  int code;
  size_t off;
  std::string dump;
  bool isnull;
};
template <class Doc>
static Outcome<Doc> outcome(const Doc& d) {
  Outcome<Doc> o;
  o.code = (int)d.GetParseError();
  o.off = d.GetErrorOffset();
  o.isnull = d.IsNull();
  o.dump = d.Dump();
  return o;
}
template <class A, class B>
static bool same_outcome(const A& a, const B& b) {
  return a.code == b.code && a.off == b.off && a.dump == b.dump && a.isnull == b.isnull;
}

template <class Doc>
static void c02_one(const std::string& text, const char* tag, vr::Ctx& ctx) {
  ExactBuf b(text);
  ExactBuf probe{std::string(kProbe)};
  size_t h0 = heap_bytes();
  {
    Doc doc;
    doc.Parse(b.p, b.n);
    auto o1 = outcome(doc);
    if (o1.code != 0 && !o1.isnull)
      ctx.violation("failure_not_null", std::string("failure_not_null_") + tag, text, "document not null after failed parse");
    // reuse after (possibly failed) parse
    doc.Parse(probe.p, probe.n);
    if (doc.HasParseError() || doc.Dump() != kProbe)
      ctx.violation("reuse_broken", std::string("reuse_broken_") + tag, text, "parsing a valid probe into the reused document gave code %d dump %s",
                    (int)doc.GetParseError(), doc.Dump().c_str());
    // reparse the same text: must behave as the first time
    doc.Parse(b.p, b.n);
    auto o2 = outcome(doc);
    if (!same_outcome(o1, o2))
      ctx.violation("reparse_differs", std::string("reparse_differs_") + tag, text, "first parse (code %d off %zu dump %s) != reparse on reused document (code %d off %zu dump %s)",
                    o1.code, o1.off, o1.dump.c_str(), o2.code, o2.off, o2.dump.c_str());
    // mutate after parse (exercise ownership of nodes created by the parser)
    if (doc.IsArray()) {
      doc.PushBack(typename Doc::NodeType(1), doc.GetAllocator());
      if (doc.Size() > 1) doc.Erase(doc.Begin());
    } else if (doc.IsObject()) {
      doc.AddMember("zz", typename Doc::NodeType(2), doc.GetAllocator());
      doc.RemoveMember("a");
    }
    (void)doc.Dump();
  }
  size_t h1 = heap_bytes();
  if (h1 != h0)
    ctx.violation("heap_imbalance", std::string("leak_") + tag, text, "heap bytes before %zu after %zu: %zd bytes not returned after the document died", h0, h1, (ssize_t)(h1 - h0));
}

static void check_C02(const std::string& text, vr::Ctx& ctx) {
  ctx.eval();
  if (text.size() >= 2) ctx.nontriv();
  c02_one<PoolDoc>(text, "pool", ctx);
  c02_one<SimpleDoc>(text, "simple", ctx);
  ta::Ledger& L = ta::ledger();
  L.reset();
  c02_one<TrackDoc>(text, "track", ctx);
  if (L.errors) ctx.violation("ledger_error", "ledger_error", text, "%s", L.first_error.c_str());
  if (!L.live.empty())
    ctx.violation("ledger_leak", "ledger_leak", text, "%zu blocks still live after the document died (mallocs %llu frees %llu)", L.live.size(),
                  (unsigned long long)L.mallocs, (unsigned long long)L.frees);
}

// reuse histories: pairs/triples over a text set S parsed into ONE document
struct HistSet {
  std::vector<std::string> S;
};
template <class Doc>
static void c02_hist(const HistSet& hs, const std::vector<unsigned>& seq, unsigned mode, const char* tag, vr::Ctx& ctx) {
  std::string desc;
  for (unsigned i : seq) desc += hs.S[i] + " ; ";
  std::vector<std::unique_ptr<ExactBuf>> bufs;
  for (unsigned i : seq) bufs.emplace_back(new ExactBuf(hs.S[i]));
  const size_t last = seq.size() - 1;
  JsonPointer path({JsonPointerNode("a")});
  size_t h0 = heap_bytes();
  {
    Doc doc;
    for (size_t k = 0; k < last; k++) doc.Parse(bufs[k]->p, bufs[k]->n);
    // modes 2 / 3 (pool allocator): something legal happens to ANOTHER object between the two calls
    typename Doc::NodeType keep;
    std::string kept;
    bool have_kept = false;
    if (mode == 2) {
      // the document's allocator is cleared (its chunks go back to the base allocator): the next Parse must not
      // touch anything the document obtained before
      static_cast<typename Doc::NodeType&>(doc).SetNull();
      clear_pool(doc.GetAllocator());
    } else if (mode == 4) {
      // the root itself becomes a string that owns a copy (only the mutation API produces such a root)
      doc.SetString("an owned string value of the root, long enough to need its own block", doc.GetAllocator());
    } else if (mode == 3) {
      // a string value is moved out of the document and kept by the caller (it lives as long as the allocator)
      typename Doc::NodeType* src = nullptr;
      if (doc.IsArray() && doc.Size() > 0) src = &doc[doc.Size() - 1];
      if (doc.IsObject() && doc.Size() > 0) src = &(doc.MemberBegin() + (doc.Size() - 1))->value;
      if (src && src->IsString()) {
        kept.assign(src->GetStringView().data(), src->GetStringView().size());
        keep = std::move(*src);
        have_kept = true;
      }
    }
    if (mode == 5 || mode == 6) {
      // lookup maps on every object of the parsed tree (the parser never builds one; a user does before many
      // lookups); mode 6 additionally empties every object member by member, so that emptied objects still own
      // their member array and their map when the document is parsed again / destroyed
      std::vector<typename Doc::NodeType*> stack = {&doc};
      while (!stack.empty()) {
        typename Doc::NodeType* n = stack.back();
        stack.pop_back();
        if (n->IsObject()) {
          n->CreateMap(doc.GetAllocator());
          for (auto it = n->MemberBegin(); it != n->MemberEnd(); ++it) stack.push_back(&it->value);
        } else if (n->IsArray())
          for (auto it = n->Begin(); it != n->End(); ++it) stack.push_back(&*it);
      }
      if (mode == 6 && doc.IsObject())
        while (doc.Size() > 0) {
          auto nm = doc.MemberBegin()->name.GetStringView();
          std::string k(nm.data(), nm.size());
          if (!doc.RemoveMember(StringView(k.data(), k.size()))) break;
        }
    }
    Doc fresh;
    if (mode == 0 || mode == 2 || mode == 3 || mode == 4 || mode == 5 || mode == 6) {
      doc.Parse(bufs[last]->p, bufs[last]->n);
      fresh.Parse(bufs[last]->p, bufs[last]->n);
      if (have_kept && (!keep.IsString() || std::string(keep.GetStringView().data(), keep.GetStringView().size()) != kept))
        ctx.violation("kept_node_changed", std::string("kept_string_changed_by_reparse_") + tag, desc, "a string moved out of the document before the second Parse read '%s' before and '%s' after it", kept.c_str(),
                      keep.IsString() ? std::string(keep.GetStringView().data(), keep.GetStringView().size()).c_str() : "<not a string>");
    } else if (mode == 1) {
      doc.ParseOnDemand(bufs[last]->p, bufs[last]->n, path);
      fresh.ParseOnDemand(bufs[last]->p, bufs[last]->n, path);
    }
    auto a = outcome(doc), f = outcome(fresh);
    if (!same_outcome(a, f))
      ctx.violation("history_differs", std::string("history_differs_") + tag + "_m" + std::to_string(mode), desc,
                    "result on reused document (code %d off %zu dump %s) != result on fresh document (code %d off %zu dump %s)", a.code, a.off,
                    a.dump.c_str(), f.code, f.off, f.dump.c_str());
  }
  size_t h1 = heap_bytes();
  if (h1 != h0)
    ctx.violation("heap_imbalance", std::string("leak_hist_") + tag + "_m" + std::to_string(mode), desc, "heap bytes before %zu after %zu", h0, h1);
}

int main(int argc, char** argv) {
  vr::Args args = vr::parse_args(argc, argv);
  vr::Runner R(args);
  const bool quick = R.quick();
  const std::string prop = args.prop;
  const bool asan = HAVE_ASAN;
  ta::ledger().live.reserve(4096);

  std::vector<fam::TextFamily> tf;
  auto base6 = std::make_shared<std::vector<fam::BaseText>>(fam::base_valid(quick ? 5 : 6, true, 3));
  auto lmbase = std::make_shared<std::vector<std::string>>();
  {
    auto b = fam::base_valid(quick ? 5 : 6, true, 0);
    for (auto& x : b) lmbase->push_back(x.join());
    for (const char* s : {"{\"a\":[1,2.5e3,\"x\\ny\",null,true,false],\"b\":{\"c\":{}}}", "[[[[]]]]", " [ 1 , 2 ] ", "-0.0e-0", "\"\\ud83d\\ude00\"",
                          "[18446744073709551615,-9223372036854775808]"})
      lmbase->push_back(s);
  }
  auto lxbase = std::make_shared<std::vector<fam::BaseText>>(fam::base_valid(quick ? 3 : 4, false, 1));
  unsigned lm_maxlen = 0;
  for (auto& s : *lmbase) lm_maxlen = std::max<unsigned>(lm_maxlen, (unsigned)s.size());

  if (prop == "C01") {
    // prod build: big families; asan build: smaller (the asan pass is shared with C02)
    if (asan) {
      tf.push_back(fam::make_L0(quick ? 4 : 5));
      tf.push_back(fam::make_LA(quick ? 5 : 6));
    } else {
      tf.push_back(fam::make_L0(quick ? 5 : 6));
      tf.push_back(fam::make_LA(quick ? 7 : 8));
    }
    tf.push_back(fam::make_LA1(quick ? (asan ? 4 : 5) : (asan ? 5 : 6)));
    if (!asan) tf.push_back(fam::make_LA2(quick ? 3 : 4));
    tf.push_back(fam::make_LB1(base6, quick ? 3 : 67, quick ? 131 : 131, 7, "sp"));
    if (!quick) {
      tf.push_back(fam::make_LB1(base6, 3, 131, 7, "tab", "\t"));
      tf.push_back(fam::make_LB1(base6, 3, 67, 7, "crlf", "\r\n"));
    }
    if (!asan) tf.push_back(fam::make_LB2(base6, quick ? 5 : 6));
    tf.push_back(fam::make_LC(quick ? (asan ? 2 : 3) : (asan ? 3 : 4), !quick));
    tf.push_back(fam::make_LM(lmbase, lm_maxlen));
    tf.push_back(fam::make_LW());
    tf.push_back(fam::make_LX(lxbase, quick ? 3 : 4));
    tf.push_back(fam::make_LN());
    tf.push_back(fam::make_LU());
    tf.push_back(fam::make_LD());
    tf.push_back(fam::make_LH(quick ? 18 : 20));
    tf.push_back(fam::make_LP());
  } else if (prop == "C03") {
    tf.push_back(fam::make_LA(quick ? 7 : 8));
    tf.push_back(fam::make_LA1(quick ? 5 : 6));
    tf.push_back(fam::make_LA2(quick ? 3 : 4));
    tf.push_back(fam::make_LB1(base6, quick ? 3 : 67, 131, 7, "sp"));
    tf.push_back(fam::make_LB1(base6, 2, 131, 7, "tab", "\t"));
    tf.push_back(fam::make_LB2(base6, quick ? 5 : 6));
    tf.push_back(fam::make_LC(quick ? 2 : 3, !quick));
    tf.push_back(fam::make_LW());
    tf.push_back(fam::make_LX(lxbase, quick ? 3 : 4));
    tf.push_back(fam::make_LN());
    tf.push_back(fam::make_LU());
    tf.push_back(fam::make_LD());
    tf.push_back(fam::make_LH(quick ? 18 : 20));
    tf.push_back(fam::make_LP());
  } else if (prop == "C02") {
    tf.push_back(fam::make_L0(quick ? 4 : 5));
    tf.push_back(fam::make_LA(quick ? 5 : 6));
    tf.push_back(fam::make_LA1(quick ? 4 : 5));
    tf.push_back(fam::make_LB1(base6, 2, quick ? 70 : 131, 7, "sp"));
    tf.push_back(fam::make_LC(quick ? 2 : 3, !quick));
    tf.push_back(fam::make_LM(lmbase, lm_maxlen));
    tf.push_back(fam::make_LW());
    tf.push_back(fam::make_LX(lxbase, 3));
    tf.push_back(fam::make_LN());
    tf.push_back(fam::make_LH(quick ? 17 : 19));  // under ASan x 3 allocators x fill bytes
    tf.push_back(fam::make_LP());
  } else {
    fprintf(stderr, "jsonenum: --prop C01|C02|C03 required\n");
    return 2;
  }

  // history families (C02 only)
  HistSet hs;
  vr::Family fpairs, ftriples;
  vr::Family fhv, fh1;
  if (prop == "C01" || prop == "C02" || prop == "C03") {
    auto b = fam::base_valid(4, false, 2);
    for (auto& x : b) hs.S.push_back(x.join());
    for (const char* s : {"", " ", "[", "{", "{\"a\":", "{\"a\":{\"b\":[1,", "[1,2", "\"abc", "{\"a\":1}", "{\"a\":[1,{\"a\":2}],\"b\":\"s\"}", "{\"b\":1,\"a\":\"x\\ny\"}",
                          "[[[[[[[[[[[[[[[[[[[[[[[[],[],1]", "[[[[[[[[[[[[[[[[[[[[[[[[]]]]]]]]]]]]]]]]]]]]]]]]", "1e400", "[\"\\ud800\"]", "{\"a\":\"" "xxxxxxxxxxxxxxxxxxxxxxxxxxxxxxxxxxxxxxxxxxxxxxxxxxxxxxxxxxxxxxxxxxxxxxxxxxxx" "\"}"})
      hs.S.push_back(s);
    // whitespace layouts: a parser object that survives between calls may keep scanning state (cached whitespace
    // bitmaps, block offsets) from the previous text; runs of >= 2 whitespace bytes at different offsets, valid
    // and with garbage where another layout has whitespace, and a long pretty-printed document
    {
      static const unsigned R[4] = {0, 2, 5, 12};
      for (unsigned a : R)
        for (unsigned bb : R)
          for (unsigned c : R) {
            hs.S.push_back("[1," + std::string(a, ' ') + "2," + std::string(bb, ' ') + "3" + std::string(c, ' ') + "]");
            if (bb) hs.S.push_back("[1," + std::string(a, ' ') + "2," + std::string(bb, '@') + "3" + std::string(c, ' ') + "]");
          }
      std::string big = "{\n";
      for (int i = 0; i < 40; i++) big += "    \"k" + std::to_string(i) + "\":   [ 1,\n        2 ]" + (i < 39 ? ",\n" : "\n");
      big += "}";
      hs.S.push_back(big);
      hs.S.push_back("[1,  2]");
      hs.S.push_back("{ \"a\"  :  [ 1 ,  { \"a\" :  2 } ] ,  \"b\"  : \"s\"  }");
    }
    fh1.name = "H1_outcome_after_history";
    fh1.count = (uint64_t)hs.S.size() * hs.S.size();
    fh1.group = "H1";
    fh1.chunk = 64;
    fh1.rule = "all ordered pairs (X,Y) over the " + std::to_string(hs.S.size()) + "-text set (valid, invalid, truncated, deep, whitespace layouts with runs at different offsets, garbage where another layout has whitespace, a long pretty-printed document): Parse X ; Parse Y on ONE document (pool and freeing allocator): Y must be accepted / rejected / reported exactly as the C01 oracle demands for Y alone";
    fhv.name = "H2v_value_after_history";
    fhv.count = (uint64_t)hs.S.size() * hs.S.size() * 4;
    fhv.group = "H2v";
    fhv.chunk = 64;
    fhv.rule = "all ordered pairs (X,Y) over the " + std::to_string(hs.S.size()) + "-text set (valid, invalid, truncated, deep) with Y valid, in 4 histories on ONE document (Parse X ; Parse Y / Parse X ; ParseOnDemand(Y,/a) ; Parse Y / Parse X ; ParseSchema(Y) ; Parse Y / Parse X ; allocator.Clear() ; Parse Y [pool]), pool and freeing allocator: the document read back through the accessors must be exactly Y's value";
    fpairs.name = "H2_reuse_pairs";
    fpairs.count = (uint64_t)hs.S.size() * hs.S.size() * 7;
    fpairs.group = "H2";
    fpairs.rule = "reuse histories: all ordered pairs (X,Y) over a " + std::to_string(hs.S.size()) +
                  "-text set (valid, invalid, truncated, deep) parsed into ONE document in 7 modes (Parse;Parse / Parse;ParseOnDemand(/a) / Parse;allocator.Clear();Parse / Parse;a string value moved out and kept by the caller;Parse - these two for the pool allocator - / Parse;root.SetString(copy);Parse / Parse;CreateMap on every object;Parse / Parse;CreateMap on every object;RemoveMember of every root member;Parse), pool + freeing + tracking allocator; result compared with a fresh document, the kept string must be unchanged";
    fpairs.chunk = 64;
    if (!quick) {
      ftriples.name = "H3_reuse_triples";
      size_t m = std::min<size_t>(hs.S.size(), 40);
      ftriples.count = (uint64_t)m * m * m;
      ftriples.group = "H3";
      ftriples.rule = "reuse histories: all ordered triples over the first 40 texts of the set, Parse;Parse;Parse into one document vs fresh";
      ftriples.chunk = 64;
    }
  }

  std::map<std::string, const fam::TextFamily*> byname;
  for (auto& f : tf) byname[f.meta.name] = &f;

  vr::CheckFn check = [&](const vr::Family& f, uint64_t idx, vr::Ctx& ctx) {
    if (f.name == "PH_static_initialisation_phase") {
      const char* t = kEarlyTexts[idx];
      Document d;
      d.Parse(t, std::strlen(t));
      ctx.eval();
      ctx.nontriv();
      if (ctx.want_sample) ctx.sample(t);
      const EarlyParse::R& e = g_early.r[idx];
      std::string now = d.HasParseError() ? std::string() : d.Dump();
      if (e.ok != !d.HasParseError() || e.code != (int)d.GetParseError() || e.off != d.GetErrorOffset() || e.dump != now)
        ctx.violation("static_init_phase", "parse_differs_during_static_initialisation", t, "Parse during static initialisation: ok=%d code=%d offset=%zu dump=%s ; from main(): ok=%d code=%d offset=%zu dump=%s", (int)e.ok, e.code, e.off,
                      e.dump.substr(0, 150).c_str(), (int)!d.HasParseError(), (int)d.GetParseError(), d.GetErrorOffset(), now.substr(0, 150).c_str());
      ref::Result r = ref::parse(std::string(t));
      if (e.ok != r.ok) ctx.violation("static_init_phase", "parse_differs_during_static_initialisation", t, "Parse during static initialisation %s a text that the reference %s", e.ok ? "accepts" : "rejects", r.ok ? "accepts" : "rejects");
      return;
    }
    if (f.name == "PU_user_buffer_fill") {
      unsigned m = (unsigned)(idx % 50);
      idx /= 50;
      unsigned n = (unsigned)(idx % 232);
      idx /= 232;
      size_t size = (idx % 2) ? 1024 : 512;
      unsigned k = (unsigned)(idx / 2);
      std::string text = "[" + std::string(n, ' ');
      for (unsigned i = 0; i < m; i++) text += i ? ",1" : "1";
      text += "]";
      ctx.eval();
      ctx.nontriv();
      std::string desc = "user buffer misaligned by " + std::to_string(k) + ", size " + std::to_string(size) + ", " + std::to_string(n) + " spaces, " + std::to_string(m) + " elements";
      if (ctx.want_sample) ctx.sample(desc);
      const size_t canary = HAVE_ASAN ? 0 : 32;
      char* block = (char*)std::malloc(k + size + canary);
      std::memset(block, 0xC3, k + size + canary);
      ref::Result r = ref::parse(text);
      {
        ExactBuf in(text);
        MemoryPoolAllocator<> alloc(block + k, size);
        Document doc(&alloc);
        doc.Parse(in.p, in.n);
        if (doc.HasParseError() || !r.ok)
          ctx.violation("user_buffer_outcome", "user_buffer_outcome", desc, "Parse over a user-buffer pool failed (code %d) on a valid text", (int)doc.GetParseError());
        else {
          std::string d = sc::compare(doc, r.v);
          if (!d.empty()) ctx.violation("user_buffer_value", "user_buffer_value", desc, "%s", d.c_str());
        }
        for (size_t i = 0; i < k; i++)
          if ((unsigned char)block[i] != 0xC3) ctx.violation("user_buffer_before", "user_buffer_written_before", desc, "byte %zu in front of the user buffer was overwritten", i);
        for (size_t i = 0; i < canary; i++)
          if ((unsigned char)block[k + size + i] != 0xC3) {
            ctx.violation("user_buffer_behind", "user_buffer_written_behind", desc, "byte %zu behind the end of the user buffer was overwritten", i);
            break;
          }
      }
      std::free(block);
      return;
    }
    if (f.name == "H4_two_documents_one_pool") {
      unsigned mode = (unsigned)(idx % 3);
      uint64_t r0 = idx / 3;
      const std::string& X = hs.S[r0 / hs.S.size()];
      const std::string& Y = hs.S[r0 % hs.S.size()];
      ctx.eval();
      ctx.nontriv();
      std::string desc = "mode " + std::to_string(mode) + ": X=" + X.substr(0, 200) + " ; Y=" + Y.substr(0, 200);
      if (ctx.want_sample) ctx.sample(desc);
      ref::Result rx = ref::parse(X), ry = ref::parse(Y);
      ExactBuf bx(X), by(Y);
      auto holds = [&](const Document& d, const ref::Result& r, const char* who, const char* stage) {
        if (r.ok) {
          if (d.HasParseError()) {
            ctx.violation("two_docs_one_pool", "two_docs_one_pool_rejects", desc, "%s %s: a valid text was rejected (code %d)", who, stage, (int)d.GetParseError());
            return;
          }
          std::string dd = sc::compare(d, r.v);
          if (!dd.empty()) ctx.violation("two_docs_one_pool", "two_docs_one_pool_value", desc, "%s %s: %s", who, stage, dd.c_str());
        } else if (!d.HasParseError() || !d.IsNull())
          ctx.violation("two_docs_one_pool", "two_docs_one_pool_error_state", desc, "%s %s: invalid text left error=%d isnull=%d", who, stage, (int)d.GetParseError(), (int)d.IsNull());
      };
      {
        MemoryPoolAllocator<> pool;
        std::unique_ptr<Document> d1(new Document(&pool)), d2(new Document(&pool));
        d1->Parse(bx.p, bx.n);
        d2->Parse(by.p, by.n);
        holds(*d1, rx, "d1", "after both parsed");
        holds(*d2, ry, "d2", "after both parsed");
        if (mode == 1) {
          d1->Parse(by.p, by.n);
          holds(*d2, ry, "d2", "after d1 parsed again");
          holds(*d1, ry, "d1", "after parsing Y");
          d1->Parse(bx.p, bx.n);
          holds(*d2, ry, "d2", "after d1 parsed a third time");
          holds(*d1, rx, "d1", "after parsing X again");
        } else if (mode == 2) {
          d1.reset();
          holds(*d2, ry, "d2", "after d1 was destroyed");
          Document d3(&pool);
          d3.Parse(bx.p, bx.n);
          holds(*d2, ry, "d2", "after a third document parsed X");
          holds(d3, rx, "d3", "after parsing X");
        }
      }
      return;
    }
    if (f.name == "H1_outcome_after_history") {
      const std::string& X = hs.S[idx / hs.S.size()];
      const std::string& Y = hs.S[idx % hs.S.size()];
      ctx.eval();
      ctx.nontriv();
      if (ctx.want_sample) ctx.sample(X + " ; " + Y);
      c01_after_history<PoolDoc>(X, Y, "pool", ctx);
      c01_after_history<SimpleDoc>(X, Y, "simple", ctx);
      return;
    }
    if (f.name == "H2v_value_after_history") {
      int mode = (int)(idx % 4);
      uint64_t r = idx / 4;
      const std::string& X = hs.S[r / hs.S.size()];
      const std::string& Y = hs.S[r % hs.S.size()];
      ref::Result ry = ref::parse(Y);
      if (!ry.ok) {
        ctx.skip();
        return;
      }
      ctx.eval();
      ctx.nontriv();
      if (ctx.want_sample) ctx.sample("mode " + std::to_string(mode) + ": " + X + " ; " + Y);
      c03_after_history<PoolDoc>({&X}, mode, Y, ry.v, "pool", ctx);
      if (mode != 3) c03_after_history<SimpleDoc>({&X}, mode, Y, ry.v, "simple", ctx);
      return;
    }
    if (f.name == "H2_reuse_pairs" || f.name == "H3_reuse_triples") {
      std::vector<unsigned> seq;
      unsigned mode = 0;
      if (f.name == "H2_reuse_pairs") {
        mode = (unsigned)(idx % 7);
        uint64_t r = idx / 7;
        seq = {(unsigned)(r / hs.S.size()), (unsigned)(r % hs.S.size())};
      } else {
        size_t m = std::min<size_t>(hs.S.size(), 40);
        seq = {(unsigned)(idx / (m * m)), (unsigned)((idx / m) % m), (unsigned)(idx % m)};
      }
      ctx.eval();
      ctx.nontriv();
      if (ctx.want_sample) {
        std::string d;
        for (unsigned i : seq) d += hs.S[i] + " ; ";
        ctx.sample("mode " + std::to_string(mode) + ": " + d);
      }
      c02_hist<PoolDoc>(hs, seq, mode, "pool", ctx);
      if (mode == 2 || mode == 3) return;  // Clear() / kept nodes are pool-allocator scenarios
      c02_hist<SimpleDoc>(hs, seq, mode, "simple", ctx);
      ta::Ledger& L = ta::ledger();
      L.reset();
      c02_hist<TrackDoc>(hs, seq, mode, "track", ctx);
      std::string d;
      for (unsigned i : seq) d += hs.S[i] + " ; ";
      if (L.errors) ctx.violation("ledger_error", "ledger_error_hist_m" + std::to_string(mode), d, "%s", L.first_error.c_str());
      if (!L.live.empty()) ctx.violation("ledger_leak", "ledger_leak_hist_m" + std::to_string(mode), d, "%zu blocks live after the documents died", L.live.size());
      return;
    }
    const fam::TextFamily* t = byname[f.name];
    g_fence_this_family = f.name.compare(0, 2, "LA") != 0 && f.name.compare(0, 2, "L0") != 0;  // all but the two mass families
    std::string text;
    if (!t->gen(idx, text)) {
      ctx.skip();
      return;
    }
    if (ctx.want_sample) ctx.sample(text);
    if (prop == "C01")
      check_C01(text, ctx);
    else if (prop == "C03")
      check_C03(text, ctx);
    else
      check_C02(text, ctx);
  };

  std::vector<vr::Family> fams;
  for (auto& f : tf) fams.push_back(f.meta);
  vr::Family fph;
  fph.name = "PH_static_initialisation_phase";
  fph.count = sizeof kEarlyTexts / sizeof kEarlyTexts[0];
  fph.group = "PH";
  fph.chunk = 1;
  fph.rule = "7 texts (numbers of every path, escapes, whitespace, overflow, malformed, truncated) parsed and dumped from the constructor of a global defined above every library include, i.e. during static initialisation: same outcome, error code, offset and Dump() as the same call from main()";
  fams.push_back(fph);
  // PU: a pool over a caller-supplied buffer (aligned or not), filled exactly: the input copy and the array of the
  // text are sized by n spaces and m elements so that some (n, m) ends the last block in every one of the last bytes
  vr::Family fpu;
  fpu.name = "PU_user_buffer_fill";
  fpu.count = 8ull * 2 * 232 * 50;
  fpu.group = "PU";
  fpu.chunk = 256;
  fpu.rule = "Document over MemoryPoolAllocator(buffer + k, size) for every misalignment k in 0..7 and size in {512, 1024}, the buffer ending at the end of its heap block (ASan red zone / canary bytes behind it); text '[' + n spaces + m elements '1' + ']' for every n in 0..231 and m in 0..49, so that input copy + element array end at every offset around the end of the buffer: nothing outside the buffer is touched, value equal to the reference";
  // H4: TWO documents over ONE pool allocator object (Document(&pool)): what one document does - parse, fail,
  // re-parse, die - must leave the other's value alone
  vr::Family fh4;
  fh4.name = "H4_two_documents_one_pool";
  fh4.count = (uint64_t)hs.S.size() * hs.S.size() * 3;
  fh4.group = "H4";
  fh4.chunk = 64;
  fh4.rule = "all ordered pairs (X,Y) over the history text set, two documents d1, d2 constructed over ONE MemoryPoolAllocator object, 3 histories (d1.Parse X ; d2.Parse Y | ... ; d1.Parse Y ; d1.Parse X | ... ; destroy d1 ; d3.Parse X): after every step every live document holds exactly the value of its last accepted text (read back through the accessors) or is null with its error set; ASan";
  if (prop == "C02") {
    fams.push_back(fpairs);
    fams.push_back(fpu);
    fams.push_back(fh4);
    if (!quick) fams.push_back(ftriples);
  }
  if (prop == "C03") fams.push_back(fhv);
  if (prop == "C01") fams.push_back(fh1);
  if (args.replay) return R.replay_one(fams, check);
  const std::string only = args.get("only");
  const std::string skip = args.get("skip");  // comma-separated list of family-name prefixes
  auto skipped = [&](const std::string& name) {
    size_t a = 0;
    while (a < skip.size()) {
      size_t b = skip.find(',', a);
      if (b == std::string::npos) b = skip.size();
      if (b > a && name.compare(0, b - a, skip, a, b - a) == 0) return true;
      a = b + 1;
    }
    return false;
  };
  for (auto& f : fams)
    if ((only.empty() || only == f.name) && !skipped(f.name)) R.run(f, check);
  return R.finish();
}
