// Engine kernels: exhaustive enumeration of small kernels' domains.
//   --prop C08 : U64toa / I64toa / Utoa_8 (vectorised 8-digit splitter)
//   --prop C09 : Quote (all bytes, all lengths, sources abutting an unmapped page, exact-size destinations)
//   --prop C14 : InlinedMemcmpEq / InlinedMemcmp / FindMember / map lookup (all lengths, mismatch
//                positions, both operands placed independently relative to a PROT_NONE page)
#include <sys/mman.h>

#include <cinttypes>
#include <string>
#include <vector>
// PROGRAM PHASE: a global defined ABOVE every library include. Dynamic initialisation of one translation unit runs in
// definition order, so its constructor (body further down) calls the integer printers and Dump() before any dynamic
// initialiser that the library's headers might contribute to this translation unit has run.
struct EarlyCalls {
  std::vector<std::string> u64, i64, dump;
  EarlyCalls();
};
static EarlyCalls g_early;

#include <memory>
#include <utility>

#include "common/families.hpp"
#include "common/refjson.hpp"
#include <algorithm>
#include <set>

#include "common/runner.hpp"
#include "sonic/internal/arch/simd_base.h"
#include "sonic/internal/arch/simd_quote.h"
#include "sonic/internal/itoa.h"
#include "sonic/sonic.h"

using namespace sonic_json;

#if defined(__SANITIZE_ADDRESS__)
#define HAVE_ASAN 1
#else
#define HAVE_ASAN 0
#endif

static constexpr size_t PG = 4096;
struct Guarded {
  uint8_t* base;
  size_t np;
  explicit Guarded(size_t npages) : np(npages) {
    base = (uint8_t*)mmap(nullptr, (np + 2) * PG, PROT_NONE, MAP_PRIVATE | MAP_ANONYMOUS, -1, 0);
    if (base == MAP_FAILED) {
      perror("mmap");
      exit(2);
    }
    mprotect(base + PG, np * PG, PROT_READ | PROT_WRITE);
  }
  uint8_t* lo() { return base + PG; }
  uint8_t* hi() { return base + PG + np * PG; }  // first unmapped byte
};

static const uint64_t kEarlyVals[] = {0ull, 7ull, 99999999ull, 100000000ull, 123456789ull, 9999999999999999ull, 10000000000000000ull, 1234567890123456789ull, 18446744073709551615ull, 9223372036854775808ull,
                                     1234567890123ull, 4294967296ull, 100000000000ull};
EarlyCalls::EarlyCalls() {
  for (uint64_t v : kEarlyVals) {
    char b[64];
    char* e = internal::U64toa(b, v);
    u64.emplace_back(b, e);
    int64_t sv = (int64_t)(0 - v);
    e = internal::I64toa(b, sv);
    i64.emplace_back(b, e);
    Document d;
    d.SetArray();
    d.PushBack(Node(v), d.GetAllocator());
    d.PushBack(Node(sv), d.GetAllocator());
    d.PushBack(Node("s\n"), d.GetAllocator());
    d.PushBack(Node(1.5), d.GetAllocator());
    dump.push_back(d.Dump());
  }
}

// ------------------------------------------------------------------ C08
static const std::vector<uint64_t>& boundary_vals() {
  static std::vector<uint64_t> v;
  if (!v.empty()) return v;
  uint64_t p = 1;
  for (int k = 0; k <= 8; k++) {
    for (int64_t d : {-2, -1, 0, 1, 2}) {
      int64_t x = (int64_t)p + d;
      if (x >= 0 && x < 100000000) v.push_back((uint64_t)x);
    }
    p *= 10;
  }
  for (uint64_t x : {0ull, 5ull, 12345678ull, 99999999ull, 50000000ull, 49999999ull, 9999ull, 10000ull, 65535ull, 65536ull, 1234ull, 99990000ull, 10009999ull, 42949672ull, 94967295ull, 7ull, 70ull, 700ull,
                     7000ull, 70000ull, 700000ull, 7000000ull, 70000000ull, 11111111ull, 90909090ull, 9090909ull})
    v.push_back(x);
  std::sort(v.begin(), v.end());
  v.erase(std::unique(v.begin(), v.end()), v.end());
  return v;
}
static void check_u64(uint64_t val, vr::Ctx& ctx, const char* how) {
  char buf[64];
  std::memset(buf, 0x5a, sizeof buf);
  char* out = internal::U64toa(buf + 8, val);
  char exp[32];
  int n = snprintf(exp, sizeof exp, "%" PRIu64, val);
  ctx.eval();
  if (out - (buf + 8) != n || std::memcmp(buf + 8, exp, (size_t)n) != 0) {
    ctx.violation("u64toa", "u64toa", exp, "[%s] U64toa(%s) wrote '%.*s' (len %td)", how, exp, (int)std::min<ptrdiff_t>(out - (buf + 8), 24), buf + 8, out - (buf + 8));
    return;
  }
  for (int i = 0; i < 8; i++)
    if (buf[i] != 0x5a) ctx.violation("u64toa_underwrite", "u64toa_underwrite", exp, "[%s] byte before the output buffer modified", how);
  for (int i = 8 + 32; i < 64; i++)
    if (buf[i] != 0x5a) ctx.violation("u64toa_overwrite", "u64toa_overwrite", exp, "[%s] byte beyond out+32 modified", how);
}
static void check_i64(uint64_t bits, vr::Ctx& ctx) {
  int64_t val;
  std::memcpy(&val, &bits, 8);
  char buf[64];
  std::memset(buf, 0x5a, sizeof buf);
  char* out = internal::I64toa(buf + 8, val);
  char exp[32];
  int n = snprintf(exp, sizeof exp, "%" PRId64, val);
  ctx.eval();
  if (out - (buf + 8) != n || std::memcmp(buf + 8, exp, (size_t)n) != 0) {
    ctx.violation("i64toa", "i64toa", exp, "I64toa(%s) wrote '%.*s' (len %td)", exp, (int)std::min<ptrdiff_t>(out - (buf + 8), 24), buf + 8, out - (buf + 8));
    return;
  }
  for (int i = 0; i < 8; i++)
    if (buf[i] != 0x5a) ctx.violation("i64toa_underwrite", "i64toa_underwrite", exp, "byte before the output buffer modified");
  for (int i = 8 + 32; i < 64; i++)
    if (buf[i] != 0x5a) ctx.violation("i64toa_overwrite", "i64toa_overwrite", exp, "byte beyond out+32 modified");
}
// through the document: Serialize + Parse keeps kind and value
static void check_int_roundtrip(uint64_t bits, bool is_signed, vr::Ctx& ctx) {
  Document d;
  if (is_signed) {
    int64_t v;
    std::memcpy(&v, &bits, 8);
    d.SetInt64(v);
  } else
    d.SetUint64(bits);
  std::string s = d.Dump();
  char exp[32];
  if (is_signed) {
    int64_t v;
    std::memcpy(&v, &bits, 8);
    snprintf(exp, sizeof exp, "%" PRId64, v);
  } else
    snprintf(exp, sizeof exp, "%" PRIu64, bits);
  ctx.eval();
  if (s != exp) {
    ctx.violation("int_dump", "int_dump", exp, "Dump of integer %s gave %s", exp, s.c_str());
    return;
  }
  Document p;
  p.Parse(s);
  bool ok = !p.HasParseError() && p.IsNumber() && !p.IsDouble();
  if (ok) {
    int64_t sv;
    std::memcpy(&sv, &bits, 8);
    if (is_signed && sv < 0)
      ok = p.IsInt64() && !p.IsUint64() && p.GetInt64() == sv;
    else
      ok = p.IsUint64() && p.GetUint64() == bits;
  }
  if (!ok) ctx.violation("int_reparse", "int_reparse", exp, "integer %s does not read back as the same integer of the same kind", exp);
}

// ------------------------------------------------------------------ C09
static bool needs_escape(uint8_t b) { return b < 0x20 || b == '"' || b == '\\'; }
// validate the output of Quote against the input, accepting any correct JSON escape spelling
// for bytes that must be escaped and demanding verbatim copies for all others
static std::string quote_oracle(const uint8_t* in, size_t n, const char* out, size_t m) {
  if (m < 2 || out[0] != '"' || out[m - 1] != '"') return "missing quotes";
  if (m > 6 * n + 2) return "longer than 6n+2";
  size_t c = 1;
  for (size_t i = 0; i < n; i++) {
    uint8_t b = in[i];
    if (c >= m - 1) return "output ends early at input byte " + std::to_string(i);
    if (!needs_escape(b)) {
      if ((uint8_t)out[c] != b) return "byte " + std::to_string(i) + " not copied verbatim";
      c++;
      continue;
    }
    if (out[c] != '\\') return "byte " + std::to_string(i) + " not escaped";
    char e = c + 1 < m - 1 ? out[c + 1] : 0;
    char shortf = 0;
    switch (b) {
      case '"': shortf = '"'; break;
      case '\\': shortf = '\\'; break;
      case '\b': shortf = 'b'; break;
      case '\f': shortf = 'f'; break;
      case '\n': shortf = 'n'; break;
      case '\r': shortf = 'r'; break;
      case '\t': shortf = 't'; break;
    }
    if (shortf && e == shortf) {
      c += 2;
      continue;
    }
    if (e == 'u' && c + 5 < m) {
      unsigned v = 0;
      bool ok = true;
      for (int k = 0; k < 4; k++) {
        int h = ref::hexval((uint8_t)out[c + 2 + k]);
        if (h < 0) ok = false;
        v = v * 16 + (unsigned)(h < 0 ? 0 : h);
      }
      if (ok && v == b) {
        c += 6;
        continue;
      }
    }
    return "byte " + std::to_string(i) + " has a wrong escape";
  }
  if (c != m - 1) return "trailing garbage in output";
  return "";
}

struct QuoteEnv {
  Guarded src{18};   // longest Q4 string 65537 + distance e
  Guarded dst{100};  // 6n+35 for n = 65537
};
// Which Quote kernel is under test.  Static builds have one.  The runtime-dispatch build compiles both
// instruction-set variants into one binary but, on this machine, always selects the AVX2 one through the
// public entry point, so the SSE body of THAT build (which may differ from the static SSE build's body:
// include order, macro state) would never run; --kernel sse / avx2 calls the namespaces directly.
static int g_kernel = 0;  // 0 dispatched entry point, 1 sse, 2 avx2
#ifdef SONIC_DYNAMIC_DISPATCH
__attribute__((target(SONIC_HASWELL))) static char* quote_avx2(const char* s, size_t n, char* d) { return internal::avx2::Quote(s, n, d); }
__attribute__((target(SONIC_WESTMERE))) static char* quote_sse(const char* s, size_t n, char* d) { return internal::sse::Quote(s, n, d); }
#endif
static inline char* quote_under_test(const char* s, size_t n, char* d) {
#ifdef SONIC_DYNAMIC_DISPATCH
  if (g_kernel == 1) return quote_sse(s, n, d);
  if (g_kernel == 2) return quote_avx2(s, n, d);
#endif
  return internal::Quote(s, n, d);
}
static void check_quote(QuoteEnv& env, const std::string& s, unsigned e, int fill, vr::Ctx& ctx, std::string* first_out) {
  const size_t n = s.size();
  const size_t cap = 6 * n + 32 + 3;  // what Serialize reserves
  ctx.eval();
#if HAVE_ASAN
  (void)env;
  (void)e;
  (void)fill;
  char* src = (char*)std::malloc(n);
  if (n) std::memcpy(src, s.data(), n);
  char* dst = (char*)std::malloc(cap);
  char* end = quote_under_test(src, n, dst);
  std::string why = quote_oracle((const uint8_t*)s.data(), n, dst, (size_t)(end - dst));
  if (!why.empty()) ctx.violation("quote_output", "quote_output", s, "Quote output wrong: %s; got %s", why.c_str(), vr::hex(dst, std::min<size_t>((size_t)(end - dst), 200)).c_str());
  if (first_out) first_out->assign(dst, end);
  std::free(src);
  std::free(dst);
#else
  // source: last byte e bytes before the unmapped page; the in-page bytes after it are 'fill'
  uint8_t* sp = env.src.hi() - e - n;
  if (n) std::memcpy(sp, s.data(), n);
  std::memset(sp + n, fill, e);
  // destination: exactly cap bytes, then the unmapped page
  char* dp = (char*)env.dst.hi() - cap;
  char* end = quote_under_test((const char*)sp, n, dp);
  std::string why = quote_oracle((const uint8_t*)s.data(), n, dp, (size_t)(end - dp));
  if (!why.empty())
    ctx.violation("quote_output", "quote_output", s, "[e=%u fill=%02x] Quote output wrong: %s; got %s", e, fill, why.c_str(), vr::hex(dp, std::min<size_t>((size_t)(end - dp), 200)).c_str());
  std::string got(dp, end);
  if (first_out) {
    if (first_out->empty())
      *first_out = got;
    else if (*first_out != got)
      ctx.violation("quote_tail_influence", "quote_tail_influence", s, "[e=%u] output depends on the bytes after the string", e);
  }
#endif
}

// ------------------------------------------------------------------ C14
struct CmpEnv {
  Guarded a{2}, b{2};
};
static int sgn(int x) { return (x > 0) - (x < 0); }

// ------------------------------------------------------------------ C14 / M9: lengths that are COMPILE-TIME constants
// (FindMember("literal", 3): the compiler may select special code for a constant length; lengths enumerated in a run-time
// loop never reach it)
template <size_t N>
static void m9_one(vr::Ctx& ctx) {
  char key[64];
  for (size_t i = 0; i < sizeof key; i++) key[i] = (char)('a' + (i * 5) % 23);
  for (int exact = 0; exact < 2; exact++) {
    Document doc;
    auto& al = doc.GetAllocator();
    doc.SetObject();
    // N near misses (one byte changed at every position) in front of the exact name, then a longer and a shorter name
    for (size_t i = 0; i < N; i++) {
      std::string nm(key, N);
      nm[i] = (char)(nm[i] ^ 0x01);
      doc.AddMember(nm, Node((int64_t)i), al, true);
    }
    if (exact) doc.AddMember(std::string(key, N), Node((int64_t)1000), al, true);
    doc.AddMember(std::string(key, N + 1), Node((int64_t)2000), al, true);
    if (N) doc.AddMember(std::string(key, N - 1), Node((int64_t)3000), al, true);
    ctx.eval();
    auto it = doc.FindMember(key, N);  // N is a constant expression here
    int got = it == doc.MemberEnd() ? -1 : (int)(it - doc.MemberBegin());
    int want = exact ? (int)N : -1;
    if (N == 0 && !exact) want = -1;
    if (got != want)
      ctx.violation("findmember", "findmember_constant_length", std::string(key, N), "FindMember(ptr, %zu) with the length a compile-time constant returned member %d, expected %d (near misses differ in exactly one byte)", N, got, want);
    auto it2 = doc.FindMember(StringView(key, N));
    int got2 = it2 == doc.MemberEnd() ? -1 : (int)(it2 - doc.MemberBegin());
    if (got2 != want) ctx.violation("findmember", "findmember_constant_length", std::string(key, N), "FindMember(StringView(ptr, %zu)) with a constant length returned member %d, expected %d", N, got2, want);
  }
}
template <size_t... I>
static void m9_dispatch(size_t n, vr::Ctx& ctx, std::index_sequence<I...>) {
  using Fn = void (*)(vr::Ctx&);
  static const Fn table[] = {&m9_one<I>...};
  table[n](ctx);
}

int main(int argc, char** argv) {
  vr::Args args = vr::parse_args(argc, argv);
  vr::Runner R(args);
  const bool quick = R.quick();
  const std::string prop = args.prop;
  std::vector<vr::Family> fams;
  vr::CheckFn check;
  const auto& B = boundary_vals();
  QuoteEnv qenv;
  CmpEnv cenv;

  if (prop == "C08") {
    vr::Family f1, f2, f3, f4, f5, f6;
    f1.name = "I1_u64_below_1e8";
    f1.count = 100000000ull;
    f1.chunk = 1 << 18;
    f1.group = "I1";
    f1.rule = "U64toa for every value 0..10^8-1 (exhaustive: the whole 1-8 digit kernel)";
    f2.name = "I2_low8_all_under_high";
    f2.count = 100000000ull;
    f2.chunk = 1 << 18;
    f2.group = "I2";
    f2.rule = "U64toa(h*10^8 + v) for every v in 0..10^8-1 with h cycling through boundary values (exhaustive for the vectorised 8-digit splitter Utoa_8) and U64toa(h2*10^16 + v*10^8 + v) (both halves of Utoa_16)";
    f3.name = "I3_composed_boundaries";
    f3.count = (uint64_t)B.size() * B.size() * 1845;
    f3.chunk = 1 << 16;
    f3.group = "I3";
    f3.rule = "all h*10^16 + a*10^8 + b for every h in 0..1844 and boundary a,b (" + std::to_string(B.size()) + " values: 10^k-2..10^k+2 etc.), values that overflow uint64 skipped";
    f4.name = "I4_signed";
    f4.count = (uint64_t)B.size() * B.size() * 923 * 2;
    f4.chunk = 1 << 16;
    f4.group = "I4";
    f4.rule = "I64toa on +-(h*10^16 + a*10^8 + b) for h in 0..922 and boundary a,b that fit int64, plus INT64_MIN/MAX";
    f5.name = "I5_powers";
    f5.count = 64 * 5 + 20 * 5 + 8;
    f5.chunk = 64;
    f5.group = "I5";
    f5.rule = "2^k+-2, 10^k+-2 for all k, UINT64_MAX, INT64_MIN/MAX: kernel output and Serialize+Parse round trip keeping the integer kind";
    f6.name = "I6_i64_small_all";
    f6.count = 1ull << (quick ? 24 : 27);
    f6.chunk = 1 << 18;
    f6.group = "I6";
    f6.rule = "I64toa for every value in -2^(k-1)..2^(k-1)-1";
    vr::Family f7;
    static uint64_t W7;  // static: the check lambda outlives this block
    W7 = quick ? 4096 : 65536;  // half width of each neighbourhood
    f7.name = "I7_power_neighbourhoods";
    f7.count = (64 + 20) * (2 * W7 + 1);
    f7.chunk = 1 << 14;
    f7.group = "I7";
    f7.rule = "for every k: all values 2^k+d and 10^k+d with |d| <= " + std::to_string(W7) + ", as uint64 through U64toa, as the int64 with the same bits and as its negation through I64toa (every word-size and digit-count boundary of both signs), d = -2..2 also through Serialize+Parse";
    // I8: the printer splits the value by 10^4 / 10^8 / 10^16 and keeps the parts in narrower integers; a quotient that is
    // a multiple of 2^16 or 2^32 (or just next to one) is exactly what a narrowing slip would mis-handle
    static std::vector<uint64_t> V8;
    {
      static const uint64_t R8[] = {0, 1, 9, 10, 99, 100, 999, 1000, 9999, 10000, 12345, 65535, 65536, 99999, 100000, 999999, 1000000, 9999999, 10000000, 12345678, 50000000, 99990000, 99999998, 99999999};
      const unsigned __int128 LIM = (unsigned __int128)UINT64_MAX;
      for (uint64_t M : {10000ull, 100000000ull}) {
        for (int sft : {16, 32}) {
          const uint64_t kmax = (uint64_t)((LIM / M) >> sft);
          std::vector<uint64_t> ks;
          for (uint64_t k = 1; k <= std::min<uint64_t>(kmax, 70000); k++) ks.push_back(k);
          for (int j = 0; j < 64; j++)
            for (int d = -1; d <= 1; d++) {
              uint64_t k = ((uint64_t)1 << j) + (uint64_t)d;
              if (k > 70000 && k <= kmax) ks.push_back(k);
            }
          for (uint64_t k = kmax > 2 ? kmax - 2 : 1; k <= kmax; k++)
            if (k > 70000) ks.push_back(k);
          for (uint64_t k : ks) {
            unsigned __int128 q0 = (unsigned __int128)k << sft;
            for (int d = -2; d <= 2; d++) {
              unsigned __int128 q = q0 + d;
              for (uint64_t r : R8) {
                if (r >= M) continue;
                unsigned __int128 v = q * M + r;
                if (v <= LIM) V8.push_back((uint64_t)v);
              }
            }
          }
        }
      }
      std::sort(V8.begin(), V8.end());
      V8.erase(std::unique(V8.begin(), V8.end()), V8.end());
    }
    vr::Family f8;
    f8.name = "I8_quotient_word_boundaries";
    f8.count = V8.size();
    f8.chunk = 1 << 12;
    f8.group = "I8";
    f8.rule = "all values q*M + r with M in {10^4, 10^8}, q = k*2^16 + d or k*2^32 + d (|d| <= 2; k = 1..70000, 2^j-1..2^j+1 and the last three that fit; for 2^32 x 10^8 that is every k), r from 24 boundary remainders: as uint64, as int64 bits and negated";
    vr::Family f9;
    f9.name = "I9_static_initialisation_phase";
    f9.count = sizeof kEarlyVals / sizeof kEarlyVals[0];
    f9.chunk = 1;
    f9.group = "I9";
    f9.rule = "U64toa, I64toa and Dump() called from the constructor of a global that is defined above every library include (i.e. during static initialisation, before any dynamic initialiser of the library's headers in this translation unit) on 13 values of every digit-count class: same text as snprintf";
    // I10: the ADDRESS of the output buffer relative to a page boundary (a printer may choose its store strategy
    // by whether a 16-byte store would cross into the next page): every offset of out from 40 bytes before to 8
    // bytes after a boundary between two mapped pages, values with zero-padded digit groups in every position
    static std::vector<uint64_t> V10;
    if (V10.empty()) {
      static const uint64_t lows[] = {0, 1, 9, 10, 99, 9999, 10000, 1234567, 9999999, 10000000, 10000001, 12345678, 99999999};
      static const uint64_t highs[] = {0, 1, 9, 10, 12, 999, 1000000, 9999999, 10000000, 99999999};
      static const uint64_t tops[] = {0, 1, 12, 999, 1844};
      for (uint64_t t : tops)
        for (uint64_t h : highs)
          for (uint64_t l : lows) {
            unsigned __int128 v = (unsigned __int128)t * 10000000000000000ull + h * 100000000ull + l;
            if (v <= UINT64_MAX) V10.push_back((uint64_t)v);
          }
      std::sort(V10.begin(), V10.end());
      V10.erase(std::unique(V10.begin(), V10.end()), V10.end());
    }
    static char* pg10 = nullptr;
    if (!pg10) {
      pg10 = (char*)mmap(nullptr, 3 * 4096, PROT_READ | PROT_WRITE, MAP_PRIVATE | MAP_ANONYMOUS, -1, 0);
    }
    vr::Family f10;
    f10.name = "I10_output_address_at_page_boundary";
    f10.count = (uint64_t)V10.size() * 49;
    f10.chunk = 256;
    f10.group = "I10";
    f10.rule = "values top*10^16 + high*10^8 + low with zero-padded / full / boundary groups (" + std::to_string(V10.size()) + " values) printed by U64toa and (negated, where it fits) I64toa into a buffer that starts at every offset from 40 bytes before to 8 bytes after a boundary between two mapped pages: same text as snprintf, nothing written before the buffer or beyond out+32";
    fams = {f1, f2, f3, f4, f5, f6, f7, f8, f9, f10};
    check = [&](const vr::Family& f, uint64_t idx, vr::Ctx& ctx) {
      if (f.name[1] == '1' && f.name[2] == '0') {
        int off = (int)(idx % 49) - 40;
        uint64_t v = V10[idx / 49];
        char* out0 = pg10 + 4096 + off;
        char exp[32];
        ctx.nontriv();
        if (ctx.want_sample) ctx.sample(std::to_string(v) + " at page boundary " + (off < 0 ? "-" : "+") + std::to_string(off < 0 ? -off : off));
        for (int sg = 0; sg < 2; sg++) {
          if (sg && v > (uint64_t)INT64_MAX + 1) break;
          std::memset(out0 - 8, 0x5a, 8 + 32 + 8);
          char* e;
          int n;
          if (!sg) {
            e = internal::U64toa(out0, v);
            n = snprintf(exp, sizeof exp, "%" PRIu64, v);
          } else {
            int64_t sv = (int64_t)(0 - v);
            e = internal::I64toa(out0, sv);
            n = snprintf(exp, sizeof exp, "%" PRId64, sv);
          }
          ctx.eval();
          if (e - out0 != n || std::memcmp(out0, exp, (size_t)n) != 0)
            ctx.violation(sg ? "i64toa" : "u64toa", sg ? "i64toa_at_page_boundary" : "u64toa_at_page_boundary", exp, "%s(%s) into a buffer %d bytes %s a page boundary wrote '%.*s' (len %td)", sg ? "I64toa" : "U64toa", exp, off < 0 ? -off : off,
                          off < 0 ? "before" : "after", (int)std::min<ptrdiff_t>(e - out0, 24), out0, e - out0);
          for (int i = -8; i < 0; i++)
            if (out0[i] != 0x5a) ctx.violation("u64toa_underwrite", "u64toa_underwrite", exp, "[page boundary] byte before the output buffer modified");
          for (int i = 32; i < 40; i++)
            if (out0[i] != 0x5a) ctx.violation("u64toa_overwrite", "u64toa_overwrite", exp, "[page boundary] byte beyond out+32 modified");
        }
        return;
      }
      switch (f.name[1]) {
        case '9': {
          uint64_t v = kEarlyVals[idx];
          int64_t sv = (int64_t)(0 - v);
          char eu[32], ei[32];
          snprintf(eu, sizeof eu, "%" PRIu64, v);
          snprintf(ei, sizeof ei, "%" PRId64, sv);
          ctx.eval();
          ctx.nontriv();
          if (ctx.want_sample) ctx.sample(eu);
          if (g_early.u64[idx] != eu) ctx.violation("u64toa", "u64toa_during_static_initialisation", eu, "U64toa(%s) called during static initialisation wrote '%s'", eu, vr::hex(g_early.u64[idx]).c_str());
          if (g_early.i64[idx] != ei) ctx.violation("i64toa", "i64toa_during_static_initialisation", ei, "I64toa(%s) called during static initialisation wrote '%s'", ei, vr::hex(g_early.i64[idx]).c_str());
          std::string want = std::string("[") + eu + "," + ei + ",\"s\\n\",1.5]";
          if (g_early.dump[idx] != want) ctx.violation("int_dump", "dump_during_static_initialisation", want, "Dump() called during static initialisation gave '%s', expected '%s'", vr::hex(g_early.dump[idx]).c_str(), want.c_str());
          break;
        }
        case '8': {
          uint64_t v = V8[idx];
          if (ctx.want_sample) ctx.sample(std::to_string(v));
          ctx.nontriv();
          check_u64(v, ctx, "quotient-boundary");
          check_i64(v, ctx);
          check_i64((uint64_t)0 - v, ctx);
          break;
        }
        case '7': {
          uint64_t k = idx / (2 * W7 + 1);
          int64_t d = (int64_t)(idx % (2 * W7 + 1)) - (int64_t)W7;
          uint64_t base;
          if (k < 64)
            base = (uint64_t)1 << k;
          else {
            base = 1;
            for (uint64_t i = 0; i < k - 64; i++) base *= 10;
          }
          uint64_t v = base + (uint64_t)d;  // wraps for tiny bases: still a legitimate 64-bit pattern
          if (ctx.want_sample) ctx.sample(std::to_string(v) + " and -" + std::to_string(v));
          ctx.nontriv();
          check_u64(v, ctx, "neighbourhood");
          check_i64(v, ctx);
          check_i64((uint64_t)0 - v, ctx);
          if (d >= -2 && d <= 2) {
            check_int_roundtrip(v, false, ctx);
            check_int_roundtrip(v, true, ctx);
            check_int_roundtrip((uint64_t)0 - v, true, ctx);
          }
          break;
        }
        case '1':
          if (ctx.want_sample) ctx.sample(std::to_string(idx));
          ctx.nontriv();
          check_u64(idx, ctx, "1-8");
          break;
        case '2': {
          uint64_t h = B[idx % B.size()];
          if (h == 0) h = 1;
          uint64_t v = h * 100000000ull + idx;
          if (ctx.want_sample) ctx.sample(std::to_string(v));
          ctx.nontriv();
          check_u64(v, ctx, "9-16");
          uint64_t h2 = 1 + idx % 1844;
          unsigned __int128 w = (unsigned __int128)h2 * 10000000000000000ull + (unsigned __int128)idx * 100000000ull + (99999999ull - idx);
          if (w <= UINT64_MAX) check_u64((uint64_t)w, ctx, "17-20");
          break;
        }
        case '3': {
          uint64_t b = B[idx % B.size()];
          uint64_t a = B[(idx / B.size()) % B.size()];
          uint64_t h = idx / (B.size() * B.size());
          unsigned __int128 w = (unsigned __int128)h * 10000000000000000ull + (unsigned __int128)a * 100000000ull + b;
          if (w > UINT64_MAX) {
            ctx.skip();
            return;
          }
          if (ctx.want_sample) ctx.sample(std::to_string((uint64_t)w));
          ctx.nontriv();
          check_u64((uint64_t)w, ctx, "composed");
          break;
        }
        case '4': {
          bool neg = idx & 1;
          uint64_t r = idx >> 1;
          uint64_t b = B[r % B.size()];
          uint64_t a = B[(r / B.size()) % B.size()];
          uint64_t h = r / (B.size() * B.size());
          unsigned __int128 w = (unsigned __int128)h * 10000000000000000ull + (unsigned __int128)a * 100000000ull + b;
          if (w > (unsigned __int128)INT64_MAX + (neg ? 1 : 0)) {
            ctx.skip();
            return;
          }
          uint64_t bits = neg ? (uint64_t)0 - (uint64_t)w : (uint64_t)w;
          if (ctx.want_sample) ctx.sample((neg ? "-" : "") + std::to_string((uint64_t)w));
          ctx.nontriv();
          check_i64(bits, ctx);
          break;
        }
        case '5': {
          std::vector<uint64_t> vals;
          static const int64_t ds[5] = {-2, -1, 0, 1, 2};
          uint64_t v;
          if (idx < 64 * 5)
            v = ((uint64_t)1 << (idx / 5)) + (uint64_t)ds[idx % 5];
          else if (idx < 64 * 5 + 100) {
            uint64_t p = 1;
            for (uint64_t k = 0; k < (idx - 320) / 5; k++) p *= 10;
            v = p + (uint64_t)ds[idx % 5];
          } else {
            static const uint64_t sp[8] = {UINT64_MAX, (uint64_t)INT64_MAX, (uint64_t)INT64_MIN, (uint64_t)INT64_MAX + 1, 0, 1, UINT64_MAX - 1, (uint64_t)INT64_MIN + 1};
            v = sp[idx - 420];
          }
          if (ctx.want_sample) ctx.sample(std::to_string(v));
          ctx.nontriv();
          check_u64(v, ctx, "powers");
          check_i64(v, ctx);
          check_int_roundtrip(v, false, ctx);
          check_int_roundtrip(v, true, ctx);
          break;
        }
        case '6': {
          uint64_t half = f.count / 2;
          uint64_t bits = idx - half;  // wraps: two's complement of negative values
          if (ctx.want_sample) ctx.sample(std::to_string((int64_t)bits));
          ctx.nontriv();
          check_i64(bits, ctx);
          break;
        }
      }
    };
  } else if (prop == "C09") {
    {
      const std::string k = args.get("kernel");
      g_kernel = k == "sse" ? 1 : k == "avx2" ? 2 : 0;
#ifndef SONIC_DYNAMIC_DISPATCH
      if (g_kernel) {
        fprintf(stderr, "kernels: --kernel needs the runtime-dispatch build\n");
        return 2;
      }
#endif
    }
    static const uint8_t Rset[] = {0x00, 0x1f, '"', '\\', 0x20, 0x7f, 0x80, 0xff, '\n', 0x08, '/', 0x21, 0x0c, '\t', '\r', 0x01};
    const unsigned NR = quick ? 8 : 16;
    const unsigned NMAX = 101;  // n in 0..100
    vr::Family q1, q2, q3;
    q1.name = "Q1_single_special_all_bytes";
    q1.count = (uint64_t)NMAX * NMAX * 256;
    q1.chunk = 4096;
    q1.group = "Q1";
    q1.rule = "strings of length n in 0..100 of filler 'a' with one byte of every value 0..255 at every position";
    q2.name = "Q2_two_specials_all_pairs";
    q2.count = (uint64_t)NMAX * NMAX * NMAX * NR * NR;
    q2.chunk = 1 << 16;
    q2.group = "Q2";
    q2.rule = "length n in 0..100, two special bytes at all position pairs i<j, specials from a " + std::to_string(NR) + "-byte set (controls, quote, backslash, 0x20, 0x7f, 0x80, 0xff, ...)";
    q3.name = "Q3_page_placement";
    // distance e between the last source byte and the unmapped page: every value inside the 64-byte window in which the
    // kernel takes its page-end path, and values outside it (there the ordinary tail code runs and the bytes that follow
    // the string in memory are readable: they must still not influence the output)
    static std::vector<unsigned> E3;
    for (unsigned e = 0; e <= 64; e++) E3.push_back(e);
    for (unsigned e : {65u, 66u, 95u, 96u, 97u, 127u, 128u, 129u, 255u, 256u, 1000u, 3000u}) E3.push_back(e);
    const unsigned NE3 = (unsigned)E3.size();
    q3.count = (uint64_t)NMAX * NMAX * NR * NE3;
    q3.chunk = 4096;
    q3.group = "Q3";
    q3.rule = "production path: string (one special at every position) whose last byte lies e in 0..64 and 65,66,95..97,127..129,255,256,1000,3000 bytes before an unmapped page; the in-page bytes after it filled with '\"', 'a' and backslash must not influence the output; destination of exactly 6n+35 bytes followed by an unmapped page";
    // Q4: long strings. The kernels work in vector blocks and may unroll over several of them, so one special byte is put
    // at every position of strings far longer than any unrolling factor.
    static std::vector<std::pair<uint32_t, uint32_t>> Q4;  // (n, pos)
    {
      std::vector<uint32_t> LN;
      for (uint32_t b : {128u, 256u, 384u, 512u, 640u, 768u, 1024u, 2048u, 4096u})
        for (int d = -1; d <= 1; d++) LN.push_back(b + d);
      LN.push_back(1100);
      for (uint32_t n : LN)
        for (uint32_t p = 0; p < n; p++) Q4.push_back({n, p});
      // (the 16 KiB / 64 KiB strings are left to the production builds, whose guard pages are as strict as ASan's red zones)
      if (!HAVE_ASAN)
        for (uint32_t b : {16384u, 65536u})
          for (int d = -1; d <= 1; d++) {
            uint32_t n = b + d;
            for (uint32_t p = 0; p < n; p++) {
              uint32_t m = p % 128;
              if (p < 300 || p + 300 >= n || m <= 1 || (m >= 31 && m <= 33) || (m >= 63 && m <= 65) || (m >= 95 && m <= 97) || m == 127) Q4.push_back({n, p});
            }
          }
    }
    static const uint8_t S4[] = {'\\', '"', 0x1f, 0x00};
    vr::Family q4;
    q4.name = "Q4_long_strings";
    q4.count = (uint64_t)Q4.size() * 4 * 2;
    q4.chunk = 256;
    q4.group = "Q4";
    q4.rule = "long strings: n in {128,256,384,512,640,768,1024,2048,4096}+-1 and 1100 with one of backslash, quote, 0x1f, 0x00 at EVERY position; n in {16384,65536}+-1 with it at every position within 300 bytes of either end and at every position congruent to 0,1,31..33,63..65,95..97,127 mod 128; source ending 0 and 70 bytes before the unmapped page (production) / exact-size heap blocks (ASan); next byte in memory a quote";
    fams = {q1, q2, q3, q4};
#if HAVE_ASAN
    fams = {q1, q2, q4};  // page placement is a production-build concern (the in-page fast path is compiled out under sanitizers)
#endif
    check = [&, NR, NE3](const vr::Family& f, uint64_t idx, vr::Ctx& ctx) {
      if (f.name[1] == '4') {
        unsigned ei = (unsigned)(idx % 2);
        idx /= 2;
        uint8_t b = S4[idx % 4];
        idx /= 4;
        uint32_t n = Q4[idx].first, pos = Q4[idx].second;
        std::string s(n, 'a');
        s[pos] = (char)b;
        if (ctx.want_sample) ctx.sample("n=" + std::to_string(n) + " pos=" + std::to_string(pos) + " byte=" + std::to_string(b));
        ctx.nontriv();
        check_quote(qenv, s, ei ? 70 : 0, '"', ctx, nullptr);
        return;
      }
      if (f.name[1] == '1') {
        unsigned byte = (unsigned)(idx % 256);
        idx /= 256;
        unsigned pos = (unsigned)(idx % NMAX);
        unsigned n = (unsigned)(idx / NMAX);
        if (pos >= n && !(n == 0 && pos == 0 && byte == 0)) {
          ctx.skip();
          return;
        }
        std::string s(n, 'a');
        if (n) s[pos] = (char)byte;
        if (ctx.want_sample) ctx.sample(vr::hex(s));
        if (needs_escape((uint8_t)byte)) ctx.nontriv();
        check_quote(qenv, s, 0, '"', ctx, nullptr);
        return;
      }
      if (f.name[1] == '2') {
        unsigned b2 = (unsigned)(idx % NR);
        idx /= NR;
        unsigned b1 = (unsigned)(idx % NR);
        idx /= NR;
        unsigned j = (unsigned)(idx % NMAX);
        idx /= NMAX;
        unsigned i = (unsigned)(idx % NMAX);
        unsigned n = (unsigned)(idx / NMAX);
        if (!(i < j && j < n)) {
          ctx.skip();
          return;
        }
        std::string s(n, 'a');
        s[i] = (char)Rset[b1];
        s[j] = (char)Rset[b2];
        if (ctx.want_sample) ctx.sample(vr::hex(s));
        ctx.nontriv();
        check_quote(qenv, s, (i + j) % 33, 'a', ctx, nullptr);
        return;
      }
      {
        unsigned e = E3[idx % NE3];
        idx /= NE3;
        unsigned b = (unsigned)(idx % NR);
        idx /= NR;
        unsigned pos = (unsigned)(idx % NMAX);
        unsigned n = (unsigned)(idx / NMAX);
        if (pos >= n && !(n == 0 && pos == 0 && b == 0)) {
          ctx.skip();
          return;
        }
        std::string s(n, 'a');
        if (n) s[pos] = (char)Rset[b];
        if (ctx.want_sample) ctx.sample("e=" + std::to_string(e) + " " + vr::hex(s));
        ctx.nontriv();
        std::string first;
        check_quote(qenv, s, e, '"', ctx, &first);
        check_quote(qenv, s, e, 'a', ctx, &first);
        check_quote(qenv, s, e, '\\', ctx, &first);
      }
    };
  } else if (prop == "C14") {
    static const uint8_t pairs[][2] = {{0, 1}, {1, 0}, {0x7f, 0x80}, {0x80, 0x7f}, {0, 0xff}, {0xff, 0}, {'a', 'b'}, {'b', 'a'}};
    const unsigned NP = 8;
    const unsigned NL = quick ? 100 : 131;
    const unsigned NE = quick ? 34 : 41;
    vr::Family m1, m2, m3;
    m1.name = "M1_kernel_placement";
    // len, first-diff index (len = equal), pair, ea, eb
    m1.count = (uint64_t)NL * (NL + 1) * NP * NE * NE;
    m1.chunk = 1 << 16;
    m1.group = "M1";
    m1.rule = "InlinedMemcmpEq / InlinedMemcmp for every length 0.." + std::to_string(NL - 1) + ", equal or first difference at every index (8 byte pairs incl. 0x7f/0x80 sign cases, with a second opposite-signed difference later), each operand independently ending e in 0.." +
              std::to_string(NE - 1) + " bytes before an unmapped page, in-page bytes after the ranges differing between the operands; oracle memcmp";
    m2.name = "M2_start_alignment";
    m2.count = (uint64_t)NL * (NL + 1) * 32 * 32;
    m2.chunk = 1 << 16;
    m2.group = "M2";
    m2.rule = "same lengths/mismatch positions with both operands' start offsets modulo 32 in 0..31 (mid-page)";
    m3.name = "M3_findmember";
    m3.count = (uint64_t)NL * (NL + 1) * 3;
    m3.chunk = 256;
    m3.group = "M3";
    m3.rule = "objects whose member names differ from the probe key at every index / in length: FindMember(view), FindMember(ptr,len), HasMember, operator[] with and without the lookup map agree with byte equality";
    // key pool for the lookup-map order: lengths around the word / vector sizes, one distinguished byte at the
    // positions where a word- or block-wise comparison changes regime, with sign- and order-sensitive values
    static std::vector<std::string> pool;
    if (pool.empty()) {
      std::set<std::string> seen;
      for (unsigned len : {0u, 1u, 2u, 3u, 7u, 8u, 9u, 15u, 16u, 17u, 31u, 32u, 33u, 40u}) {
        std::string base(len, 'm');
        if (seen.insert(base).second) pool.push_back(base);
        for (unsigned pos : {0u, 1u, 6u, 7u, 8u, 15u, 16u, 31u, 32u})
          for (unsigned char v : {(unsigned char)0x00, (unsigned char)0x01, (unsigned char)'a', (unsigned char)'z', (unsigned char)0x7f, (unsigned char)0x80, (unsigned char)0xff}) {
            if (pos >= len) continue;
            std::string k = base;
            k[pos] = (char)v;
            if (seen.insert(k).second) pool.push_back(k);
          }
      }
    }
    vr::Family m4, m5;
    m4.name = "M4_map_order_is_lexicographic";
    m4.count = (uint64_t)pool.size() * pool.size();
    m4.chunk = 4096;
    m4.group = "M4";
    m4.rule = "all ordered pairs over " + std::to_string(pool.size()) + " keys (lengths 0..40 around 8/16/32, one byte of value 00/01/a/z/7f/80/ff at positions 0,1,6,7,8,15,16,31,32): the comparator of the optional lookup map must be the lexicographic byte order (sign of memcmp on the common prefix, then length), hence a strict weak order consistent with byte equality";
    m5.name = "M5_map_lookup_mixed_keys";
    m5.count = (uint64_t)pool.size() * 8;
    m5.chunk = 16;
    m5.group = "M5";
    m5.rule = "objects of 12 members whose names are pool[i], pool[i+s], ... for 8 strides s (mixed lengths and first words, 8 insertion orders): after CreateMap every member name is found at its own index by FindMember(view / ptr,len), HasMember, operator[]; every other pool key misses; the same without the map";
    // M6: TWO differences of opposite sign at every pair of positions (an unrolled loop that merges the masks of
    // several blocks must still report the FIRST difference); M7: long operands, one difference at every position
    static const unsigned L6[] = {64, 65, 95, 96, 97, 127, 128, 129, 130, 159, 160, 161, 191, 192, 193, 200, 255, 256, 257, 300};
    static std::vector<std::pair<uint32_t, uint32_t>> P7;  // (len, diff)
    if (P7.empty()) {
      for (uint32_t b : {512u, 1024u, 2048u, 4096u})
        for (int d = -1; d <= 1; d++) {
          uint32_t n = b + d;
          for (uint32_t p = 0; p <= n; p++) P7.push_back({n, p});
        }
      for (uint32_t b : {16384u, 65536u})
        for (int d = -1; d <= 1; d++) {
          uint32_t n = b + d;
          for (uint32_t p = 0; p <= n; p++) {
            uint32_t m = p % 128;
            if (p < 300 || p + 300 >= n || m <= 1 || (m >= 31 && m <= 33) || (m >= 63 && m <= 65) || (m >= 95 && m <= 97) || m == 127) P7.push_back({n, p});
          }
        }
    }
    vr::Family m6, m7;
    m6.name = "M6_two_differences";
    m6.count = (uint64_t)(sizeof L6 / sizeof L6[0]) * 300 * 300 * 4;
    m6.chunk = 1 << 14;
    m6.group = "M6";
    m6.rule = "lengths {64,65,95..97,127..130,159..161,191..193,200,255..257,300}: two differing bytes of OPPOSITE sign at every pair of positions i<j (4 sign-sensitive byte pairs): result must have the sign of the first difference; exact-size heap operands under ASan";
    m7.name = "M7_long_operands";
    m7.count = (uint64_t)P7.size() * 2;
    m7.chunk = 256;
    m7.group = "M7";
    m7.rule = "lengths {512,1024,2048,4096}+-1 with the first difference at every position (and none); {16384,65536}+-1 with it within 300 bytes of either end and at positions congruent to 0,1,31..33,63..65,95..97,127 mod 128; a later opposite difference 70 bytes on";
    // M8: ALIASED keys. Member names and lookup keys are slices of ONE caller buffer (constant keys are not copied),
    // so a lookup key may start at the very address of a stored name and differ from it only in length
    vr::Family m8;
    m8.name = "M8_aliased_key_slices";
    m8.count = 16 * 16 * 2;
    m8.group = "M8";
    m8.chunk = 8;
    m8.rule = "objects whose 5 member names are slices [s, s+l) of one 48-byte buffer of distinct bytes (three of them start at the same address s0 with lengths l0 < l1 < l2, for every s0 in 0..15 and l0 in 1..16), added as constant or copied keys; every slice [s', s'+l') with s' in {s0, s0+1, other start} and l' in 0..l2+2 is looked up through FindMember(view), FindMember(ptr,len), HasMember, operator[] and the node's own name views, with and without the lookup map: found exactly when start and length both agree";
    vr::Family m9;
    m9.name = "M9_constant_lengths";
    m9.count = 49;
    m9.group = "M9";
    m9.chunk = 4;
    m9.rule = "FindMember(ptr, N) and FindMember(StringView(ptr, N)) instantiated with N as a COMPILE-TIME constant for every N in 0..48: objects holding N near misses (one byte changed at each position) before the exact name, a longer and a shorter name, with and without the exact name";
    // M10: SHORT operands (1..48 bytes: the word-ladder paths) with TWO differing bytes whose xor-differences are
    // chosen so that they cancel under +, -, ^ or a shift when a comparison folds partial results (0x80 / 0x80,
    // 0xff / 0x01, equal values), at every pair of positions; heap (ASan) / both operands at a page end and inside
    // a page (production)
    static const uint8_t X10[6] = {0x01, 0x80, 0xff, 0x7f, 0xfe, 0x40};
    vr::Family m10;
    m10.name = "M10_two_xor_differences_short";
    m10.count = 48ull * 48 * 48 * 36 * 2;
    m10.chunk = 1 << 14;
    m10.group = "M10";
    m10.rule = "every length 2..48, every pair of positions i<j, xor-differences (d1,d2) from {01,80,ff,7f,fe,40}^2 (all 36) applied to a base text with bytes >= 0x80 and < 0x80: never equal, sign as memcmp; operands on the heap (ASan) or both ending at an unmapped page and both inside a page (production)";
    fams = {m1, m2, m3, m4, m5, m6, m7, m8, m9, m10};
#ifdef SONIC_DYNAMIC_DISPATCH
    fams = {m3, m5, m8, m9};
#endif
    check = [&, NL, NE, NP](const vr::Family& f, uint64_t idx, vr::Ctx& ctx) {
      auto build = [&](unsigned len, unsigned diff, unsigned pi, uint8_t* a, uint8_t* b) {
        for (unsigned i = 0; i < len; i++) a[i] = b[i] = (uint8_t)('A' + (i * 7) % 50);
        if (diff < len) {
          a[diff] = pairs[pi][0];
          b[diff] = pairs[pi][1];
          // a later, opposite-signed difference: the sign must come from the first one
          if (diff + 3 < len) {
            a[diff + 3] = pairs[pi][1];
            b[diff + 3] = pairs[pi][0];
          }
        }
      };
      auto verdict = [&](const uint8_t* a, const uint8_t* b, unsigned len, const std::string& desc) {
        ctx.eval();
        int ref = std::memcmp(a, b, len);
#ifndef SONIC_DYNAMIC_DISPATCH
        bool eq = internal::InlinedMemcmpEq(a, b, len);
        int c = internal::InlinedMemcmp(a, b, len);
        int c2 = internal::InlinedMemcmp(b, a, len);
        bool eq2 = internal::InlinedMemcmpEq(b, a, len);
#else
        // the runtime-dispatch build does not use the inlined kernels for member lookup (it compares
        // StringViews); the kernel families are exercised through the lookup API only (family M3)
        bool eq = StringView((const char*)a, len) == StringView((const char*)b, len), eq2 = eq;
        int c = ref, c2 = -ref;
#endif
        if (eq != (ref == 0) || eq2 != (ref == 0)) ctx.violation("memcmpeq", "memcmpeq", desc, "%s: InlinedMemcmpEq=%d/%d but memcmp=%d", desc.c_str(), (int)eq, (int)eq2, ref);
        if (sgn(c) != sgn(ref) || sgn(c2) != -sgn(ref)) ctx.violation("memcmp_sign", "memcmp_sign", desc, "%s: InlinedMemcmp=%d (swapped %d) but memcmp=%d", desc.c_str(), c, c2, ref);
      };
      if (f.name[1] == '1' && f.name[2] == '0') {
        unsigned place = (unsigned)(idx % 2);
        idx /= 2;
        uint8_t d2 = X10[idx % 6], d1 = X10[(idx / 6) % 6];
        idx /= 36;
        unsigned j = (unsigned)(idx % 48);
        idx /= 48;
        unsigned i = (unsigned)(idx % 48);
        unsigned len = (unsigned)(idx / 48) + 1;
        if (!(i < j && j < len)) {
          ctx.skip();
          return;
        }
        std::vector<uint8_t> va(len), vb(len);
        for (unsigned k = 0; k < len; k++) va[k] = vb[k] = (uint8_t)((k % 3 == 0 ? 0x80 : 'A') + (k * 7) % 50);
        vb[i] ^= d1;
        vb[j] ^= d2;
        std::string desc = "len=" + std::to_string(len) + " xor " + std::to_string(d1) + "@" + std::to_string(i) + " and xor " + std::to_string(d2) + "@" + std::to_string(j) + (place ? " inside a page" : " at the page ends");
#if HAVE_ASAN
        if (place) {
          ctx.skip();
          return;
        }
#endif
        if (ctx.want_sample) ctx.sample(desc);
        ctx.nontriv();
#if HAVE_ASAN
        uint8_t* a = (uint8_t*)std::malloc(len);
        uint8_t* b = (uint8_t*)std::malloc(len);
        std::memcpy(a, va.data(), len);
        std::memcpy(b, vb.data(), len);
        verdict(a, b, len, desc);
        std::free(a);
        std::free(b);
#else
        uint8_t* a = place ? cenv.a.lo() + 1024 + (i % 32) : cenv.a.hi() - len;
        uint8_t* b = place ? cenv.b.lo() + 2048 + (j % 32) : cenv.b.hi() - len;
        std::memcpy(a, va.data(), len);
        std::memcpy(b, vb.data(), len);
        verdict(a, b, len, desc);
#endif
        return;
      }
      if (f.name[1] == '6' || f.name[1] == '7') {
        unsigned len, i, j, pi;
        if (f.name[1] == '6') {
          pi = (unsigned)(idx % 4) * 2;  // pairs {0,1},{7f,80},{0,ff},{a,b}
          idx /= 4;
          j = (unsigned)(idx % 300);
          idx /= 300;
          i = (unsigned)(idx % 300);
          len = L6[idx / 300];
          if (!(i < j && j < len)) {
            ctx.skip();
            return;
          }
        } else {
          pi = (unsigned)(idx % 2) * 2 + 2;  // {7f,80} / {0,ff}
          idx /= 2;
          len = P7[idx].first;
          i = P7[idx].second;
          j = i + 70;
        }
        std::vector<uint8_t> va(len), vb(len);
        for (unsigned k = 0; k < len; k++) va[k] = vb[k] = (uint8_t)('A' + (k * 7) % 50);
        if (i < len) {
          va[i] = pairs[pi][0];
          vb[i] = pairs[pi][1];
        }
        if (j < len) {
          va[j] = pairs[pi][1];
          vb[j] = pairs[pi][0];
        }
        uint8_t* a = (uint8_t*)std::malloc(len);
        uint8_t* b = (uint8_t*)std::malloc(len);
        std::memcpy(a, va.data(), len);
        std::memcpy(b, vb.data(), len);
        std::string desc = "len=" + std::to_string(len) + " diff@" + std::to_string(i) + " and opposite diff@" + std::to_string(j) + " pair" + std::to_string(pi);
        if (ctx.want_sample) ctx.sample(desc);
        ctx.nontriv();
        verdict(a, b, len, desc);
        std::free(a);
        std::free(b);
        return;
      }
      if (f.name[1] == '1') {
        unsigned eb = (unsigned)(idx % NE);
        idx /= NE;
        unsigned ea = (unsigned)(idx % NE);
        idx /= NE;
        unsigned pi = (unsigned)(idx % NP);
        idx /= NP;
        unsigned diff = (unsigned)(idx % (NL + 1));
        unsigned len = (unsigned)(idx / (NL + 1));
        if (diff > len || (diff == len && pi != 0)) {
          ctx.skip();
          return;
        }
#if HAVE_ASAN
        if (ea != 0 || eb != 0) {
          ctx.skip();
          return;
        }
        uint8_t* a = (uint8_t*)std::malloc(len);
        uint8_t* b = (uint8_t*)std::malloc(len);
        build(len, diff, pi, a, b);
        std::string desc = "len=" + std::to_string(len) + " diff@" + std::to_string(diff) + " exact-heap";
        if (ctx.want_sample) ctx.sample(desc);
        ctx.nontriv();
        verdict(a, b, len, desc);
        std::free(a);
        std::free(b);
#else
        uint8_t* a = cenv.a.hi() - ea - len;
        uint8_t* b = cenv.b.hi() - eb - len;
        build(len, diff, pi, a, b);
        std::memset(a + len, 0x11, ea);
        std::memset(b + len, 0x22, eb);
        std::string desc = "len=" + std::to_string(len) + " diff@" + std::to_string(diff) + " pair" + std::to_string(pi) + " ea=" + std::to_string(ea) + " eb=" + std::to_string(eb);
        if (ctx.want_sample) ctx.sample(desc);
        ctx.nontriv();
        verdict(a, b, len, desc);
        // bytes after the ranges equal: must not turn a difference into equality either
        std::memset(b + len, 0x11, eb);
        verdict(a, b, len, desc + " (equal tails)");
#endif
        return;
      }
      if (f.name[1] == '2') {
        unsigned ob = (unsigned)(idx % 32);
        idx /= 32;
        unsigned oa = (unsigned)(idx % 32);
        idx /= 32;
        unsigned diff = (unsigned)(idx % (NL + 1));
        unsigned len = (unsigned)(idx / (NL + 1));
        if (diff > len) {
          ctx.skip();
          return;
        }
        uint8_t* a = cenv.a.lo() + 1024 + oa;
        uint8_t* b = cenv.b.lo() + 2048 + ob;
        std::memset(a - 1, 0x33, 1);
        build(len, diff, diff % NP, a, b);
        a[len] = 0x44;
        b[len] = 0x55;
        std::string desc = "len=" + std::to_string(len) + " diff@" + std::to_string(diff) + " oa=" + std::to_string(oa) + " ob=" + std::to_string(ob);
        if (ctx.want_sample) ctx.sample(desc);
        ctx.nontriv();
        verdict(a, b, len, desc);
        return;
      }
      if (f.name[1] == '4') {
#ifndef SONIC_DYNAMIC_DISPATCH
        const std::string& a = pool[idx / pool.size()];
        const std::string& b = pool[idx % pool.size()];
        ctx.eval();
        ctx.nontriv();
        if (ctx.want_sample) ctx.sample(vr::hex(a) + " < " + vr::hex(b));
        // exact-size copies so that an over-read is visible under ASan
        char* pa = (char*)std::malloc(a.size() + 1);
        char* pb = (char*)std::malloc(b.size() + 1);
        std::memcpy(pa, a.data(), a.size());
        std::memcpy(pb, b.data(), b.size());
        pa[a.size()] = 0x11;
        pb[b.size()] = 0x22;
        typename Document::NodeType::Less less;
        bool got = less(StringView(pa, a.size()), StringView(pb, b.size()));
        int c = std::memcmp(a.data(), b.data(), std::min(a.size(), b.size()));
        bool want = c < 0 || (c == 0 && a.size() < b.size());
        std::free(pa);
        std::free(pb);
        if (got != want) ctx.violation("map_order", "map_order_not_lexicographic", vr::hex(a) + " vs " + vr::hex(b), "lookup-map comparator says %s < %s is %d, byte order says %d", vr::hex(a).c_str(), vr::hex(b).c_str(), (int)got, (int)want);
#else
        (void)idx;
        ctx.skip();
#endif
        return;
      }
      if (f.name[1] == '9') {
        ctx.nontriv();
        if (ctx.want_sample) ctx.sample("N=" + std::to_string(idx));
        m9_dispatch((size_t)idx, ctx, std::make_index_sequence<49>());
        return;
      }
      if (f.name[1] == '8') {
        const bool copy = idx & 1;
        idx >>= 1;
        const unsigned l0 = (unsigned)(idx % 16) + 1, s0 = (unsigned)(idx / 16);
        static char buf[64];
        for (unsigned i = 0; i < sizeof buf; i++) buf[i] = (char)('!' + i);  // all bytes distinct: two slices are equal iff start and length agree
        const unsigned l1 = l0 + 3, l2 = l0 + 8, s1 = s0 + 17;
        struct Sl {
          unsigned s, l;
        };
        const Sl names[5] = {{s0, l1}, {s1, l0}, {s0, l0}, {s0, l2}, {s1, l1}};
        ctx.eval();
        ctx.nontriv();
        if (ctx.want_sample) ctx.sample("s0=" + std::to_string(s0) + " l0=" + std::to_string(l0) + (copy ? " copied keys" : " constant keys"));
        Document doc;
        auto& al = doc.GetAllocator();
        doc.SetObject();
        for (int j = 0; j < 5; j++) doc.AddMember(StringView(buf + names[j].s, names[j].l), Node((int64_t)j), al, copy);
        for (int pass = 0; pass < 2; pass++) {
          if (pass == 1) doc.CreateMap(al);
          for (unsigned ps : {s0, s0 + 1, s1}) {
            for (unsigned pl = 0; pl <= l2 + 2; pl++) {
              int ex = -1;
              for (int j = 0; j < 5; j++)
                if (names[j].s == ps && names[j].l == pl) ex = j;
              if (pl == 0) ex = -1;
              // (a) the probe is a slice of the caller's buffer: for constant keys it may start at a stored name's address
              StringView pv(buf + ps, pl);
              auto it1 = doc.FindMember(pv);
              auto it2 = doc.FindMember(buf + ps, pl);
              bool has = doc.HasMember(pv);
              int g1 = it1 == doc.MemberEnd() ? -1 : (int)(it1 - doc.MemberBegin());
              int g2 = it2 == doc.MemberEnd() ? -1 : (int)(it2 - doc.MemberBegin());
              const Node& v = static_cast<const Document&>(doc)[pv];
              bool vok = ex < 0 ? v.IsNull() : (v.IsInt64() && v.GetInt64() == ex);
              if (g1 != ex || g2 != ex || has != (ex >= 0) || !vok) {
                ctx.violation("findmember", pass ? "findmember_map_aliased_key" : "findmember_linear_aliased_key", std::string(buf + ps, pl), "s0=%u l0=%u %s keys pass=%d, key = buffer[%u,+%u): FindMember(view)->%d FindMember(ptr,len)->%d HasMember=%d operator[] %s; expected member %d",
                              s0, l0, copy ? "copied" : "constant", pass, ps, pl, g1, g2, (int)has, vok ? "ok" : "wrong", ex);
                return;
              }
            }
          }
          // (b) prefixes of every member's OWN stored name view
          for (int j = 0; j < 5; j++) {
            StringView own = (doc.MemberBegin() + j)->name.GetStringView();
            for (size_t pl = 1; pl < own.size(); pl++) {
              int ex = -1;
              for (int k = 0; k < 5; k++)
                if (names[k].s == names[j].s && names[k].l == pl) ex = k;
              auto it1 = doc.FindMember(StringView(own.data(), pl));
              auto it2 = doc.FindMember(own.data(), pl);
              int g1 = it1 == doc.MemberEnd() ? -1 : (int)(it1 - doc.MemberBegin());
              int g2 = it2 == doc.MemberEnd() ? -1 : (int)(it2 - doc.MemberBegin());
              if (g1 != ex || g2 != ex) {
                ctx.violation("findmember", pass ? "findmember_map_aliased_key" : "findmember_linear_aliased_key", std::string(own.data(), pl), "s0=%u l0=%u %s keys pass=%d, key = first %zu bytes of member %d's own name view: FindMember(view)->%d FindMember(ptr,len)->%d expected %d",
                              s0, l0, copy ? "copied" : "constant", pass, pl, j, g1, g2, ex);
                return;
              }
            }
          }
        }
        return;
      }
      if (f.name[1] == '5') {
        static const unsigned strides[8] = {1, 2, 3, 5, 7, 11, 13, 17};
        unsigned st = strides[idx % 8];
        size_t i0 = idx / 8;
        std::vector<size_t> ks;
        for (unsigned j = 0; j < 12; j++) {
          size_t k = (i0 + (size_t)j * st) % pool.size();
          if (std::find(ks.begin(), ks.end(), k) == ks.end()) ks.push_back(k);
        }
        ctx.eval();
        ctx.nontriv();
        if (ctx.want_sample) ctx.sample("start " + std::to_string(i0) + " stride " + std::to_string(st));
        Document doc;
        auto& al = doc.GetAllocator();
        doc.SetObject();
        for (size_t j = 0; j < ks.size(); j++) doc.AddMember(pool[ks[j]], Node((int64_t)j), al, true);
        for (int pass = 0; pass < 2; pass++) {
          if (pass == 1) doc.CreateMap(al);
          for (size_t q = 0; q < pool.size(); q++) {
            const std::string& pk = pool[q];
            auto at = std::find(ks.begin(), ks.end(), q);
            int ex = at == ks.end() ? -1 : (int)(at - ks.begin());
            std::string buf = "\x7f" + pk + "\x7f";  // the probe is a slice of a longer buffer
            auto it1 = doc.FindMember(StringView(buf.data() + 1, pk.size()));
            auto it2 = doc.FindMember(buf.data() + 1, pk.size());
            bool has = doc.HasMember(StringView(buf.data() + 1, pk.size()));
            int g1 = it1 == doc.MemberEnd() ? -1 : (int)(it1 - doc.MemberBegin());
            int g2 = it2 == doc.MemberEnd() ? -1 : (int)(it2 - doc.MemberBegin());
            const Node& v = static_cast<const Document&>(doc)[StringView(buf.data() + 1, pk.size())];
            bool vok = ex < 0 ? v.IsNull() : (v.IsInt64() && v.GetInt64() == ex);
            if (g1 != ex || g2 != ex || has != (ex >= 0) || !vok) {
              ctx.violation("findmember", pass ? "findmember_map_mixed_keys" : "findmember_linear_mixed_keys", pk, "start %zu stride %u pass=%d key %s: FindMember(view)->%d FindMember(ptr,len)->%d HasMember=%d operator[] %s; expected member %d", i0, st, pass,
                            vr::hex(pk).c_str(), g1, g2, (int)has, vok ? "ok" : "wrong", ex);
              return;
            }
          }
        }
        return;
      }
      {
        unsigned variant = (unsigned)(idx % 3);
        idx /= 3;
        unsigned diff = (unsigned)(idx % (NL + 1));
        unsigned len = (unsigned)(idx / (NL + 1));
        if (diff > len) {
          ctx.skip();
          return;
        }
        // object with 3 members: name0 differs from key at 'diff' (or equal when diff==len),
        // name1 = key + one byte (length differs), name2 = key with last byte changed
        std::string key(len, 'k');
        for (unsigned i = 0; i < len; i++) key[i] = (char)('A' + (i * 7) % 50);
        std::string n0 = key, n1 = key + "x", n2 = key;
        if (diff < len) n0[diff] = (char)(variant == 0 ? 0x00 : variant == 1 ? 0x80 : (n0[diff] ^ 1));
        if (len) n2[len - 1] = (char)(n2[len - 1] ^ 0x40);
        ctx.eval();
        ctx.nontriv();
        if (ctx.want_sample) ctx.sample("len=" + std::to_string(len) + " diff@" + std::to_string(diff));
        Document doc;
        auto& al = doc.GetAllocator();
        doc.SetObject();
        // order: put the non-matching ones first so that linear search must reject them
        doc.AddMember(n1, Node(1), al);
        doc.AddMember(n2, Node(2), al);
        doc.AddMember(n0, Node(3), al);
        auto expect = [&](const std::string& probe) -> int {
          if (n1 == probe) return 0;
          if (n2 == probe) return 1;
          if (n0 == probe) return 2;
          return -1;
        };
        for (int pass = 0; pass < 2; pass++) {
          if (pass == 1) doc.CreateMap(al);
          for (const std::string* pk : {&key, &n0, &n1, &n2}) {
            int ex = expect(*pk);
            // exact-size copy of the probe so that over-reads are visible under ASan
            char* pb = (char*)std::malloc(pk->size());
            if (!pk->empty()) std::memcpy(pb, pk->data(), pk->size());
            auto it1 = doc.FindMember(StringView(pb, pk->size()));
            auto it2 = doc.FindMember(pb, pk->size());
            bool has = doc.HasMember(StringView(pb, pk->size()));
            int g1 = it1 == doc.MemberEnd() ? -1 : (int)(it1 - doc.MemberBegin());
            int g2 = it2 == doc.MemberEnd() ? -1 : (int)(it2 - doc.MemberBegin());
            std::free(pb);
            // with duplicates (n2==key when len==0 etc.) the first match in member order wins for linear search;
            // the map returns one of the equal keys: compare by name bytes
            auto name_ok = [&](int g) { return (g < 0) == (ex < 0) && (g < 0 || (doc.MemberBegin() + g)->name.GetStringView() == StringView(pk->data(), pk->size())); };
            if (!name_ok(g1) || !name_ok(g2) || has != (ex >= 0))
              ctx.violation("findmember", pass ? "findmember_map" : "findmember_linear", *pk, "len=%u diff@%u pass=%d: FindMember(view)->%d FindMember(ptr,len)->%d HasMember=%d expected member %d", len, diff, pass, g1, g2, (int)has, ex);
          }
        }
      }
    };
  } else {
    fprintf(stderr, "kernels: --prop C08|C09|C14\n");
    return 2;
  }

  if (args.replay) return R.replay_one(fams, check);
  const std::string only = args.get("only");
  for (auto& f : fams)
    if (only.empty() || only == f.name) R.run(f, check);
  return R.finish();
}
