// Engine lazyenum (C20): UpdateLazy(target, source) against the recursive merge model
//   mergeL(T,S) = (T non-empty object and S object)
//                   ? T with every (k,v) of S merged into the member with the same decoded key, or appended
//                   : S
// over all pairs of valid duplicate-free texts up to a token budget; keys are
// spelled with and without escapes.
#include <algorithm>
#include <memory>
#include <set>

#include "common/families.hpp"
#include "common/refjson.hpp"
#include "common/runner.hpp"
#include "sonic/experiment/lazy_update.h"
#include "sonic/sonic.h"

#if defined(__SANITIZE_ADDRESS__)
#define HAVE_ASAN 1
#else
#define HAVE_ASAN 0
#endif

static ref::Value mergeL(const ref::Value& T, const ref::Value& S) {
  if (T.k == ref::Obj && !T.o.empty() && S.k == ref::Obj) {
    ref::Value r = T;
    for (auto& m : S.o) {
      ref::Value* t = r.find(m.first);
      if (t) {
        ref::Value merged = mergeL(*t, m.second);
        *t = merged;
      } else
        r.o.emplace_back(m.first, m.second);
    }
    return r;
  }
  return S;
}

struct ExactBuf {
  char* p;
  size_t n;
  explicit ExactBuf(const std::string& s) : n(s.size()) {
    p = (char*)std::malloc(n);
    if (n) std::memcpy(p, s.data(), n);
  }
  ~ExactBuf() { std::free(p); }
};

static bool has_escaped_key(const std::string& s) { return s.find('\\') != std::string::npos; }

int main(int argc, char** argv) {
  vr::Args args = vr::parse_args(argc, argv);
  vr::Runner R(args);
  const bool quick = R.quick();
  const std::vector<std::string> leaves = {"null", "1", "\"s\""};
  const std::vector<std::string> keys = {"\"a\"", "\"b\"", "\"a\\n\"", "\"\\u0061\"", "\"\\\"\""};
  const unsigned n = HAVE_ASAN ? (quick ? 7 : 9) : (quick ? 9 : 10);
  std::vector<std::string> W;
  std::vector<ref::Value> V;
  for (auto& t : fam::valid_texts_by_budget(n, leaves, keys)) {
    ref::Result r = ref::parse(t);
    if (r.ok && !ref::has_dup_keys(r.v)) {
      W.push_back(t);
      V.push_back(r.v);
    }
  }
  for (const char* s : {"{\"a\":{\"a\":{\"a\":1,\"b\":[1,{\"a\":2}]},\"b\":\"s\"},\"b\":[{\"a\":1},{\"b\":2}]}", "{\"\\u0061\":{\"b\":{\"a\\n\":{\"\\\"\":null}}}}", "{\"b\":{\"a\":[[],{}]},\"a\":\"x\\\\\"}",
                        "{\"a\\n\":1,\"b\":{\"\\u0061\":{}},\"\\\"\":[\"]\",\"}\"]}"}) {
    W.push_back(s);
    V.push_back(ref::parse(s).v);
  }
  // spaced variants (whitespace layout must not matter; SkipOne scans 64-byte blocks)
  std::vector<std::string> Ws;
  std::vector<ref::Value> Vs;
  {
    size_t lim = std::min<size_t>(W.size(), quick ? 300 : 1500);
    for (size_t i = W.size() - lim; i < W.size(); i++)
      for (unsigned k : {1u, 31u, 63u, 64u, 65u}) {
        std::string s(k % 3, ' ');
        bool in_str = false, esc = false;
        for (char c : W[i]) {
          s.push_back(c);
          if (in_str) {
            if (esc) esc = false;
            else if (c == '\\') esc = true;
            else if (c == '"') in_str = false;
            continue;
          }
          if (c == '"') in_str = true;
          if (c == ',' || c == ':' || c == '{' || c == '[') s.append(k, ' ');
        }
        s.append(k % 4, ' ');
        ref::Result r = ref::parse(s);
        if (!r.ok) continue;
        Ws.push_back(s);
        Vs.push_back(r.v);
      }
  }

  // shape-bounded set: <= 2 children per container, nesting depth <= 2 plus empty containers at depth 3
  // (two-member objects nested in two-member objects on both sides), keys a,b in both orders
  std::vector<std::string> WD;
  std::vector<ref::Value> VD;
  {
    std::vector<std::string> lv = {"1", "{}"};
    if (!quick && !HAVE_ASAN) {
      lv.push_back("\"s\"");
      lv.push_back("[]");
    }
    auto containers = [](const std::vector<std::string>& S) {
      std::vector<std::string> out = {"[]", "{}"};
      for (auto& x : S) out.push_back("[" + x + "]");
      for (auto& x : S)
        for (auto& y : S) out.push_back("[" + x + "," + y + "]");
      for (const char* k : {"\"a\"", "\"b\""})
        for (auto& x : S) out.push_back(std::string("{") + k + ":" + x + "}");
      for (int o = 0; o < 2; o++)
        for (auto& x : S)
          for (auto& y : S) out.push_back(std::string("{") + (o ? "\"b\"" : "\"a\"") + ":" + x + "," + (o ? "\"a\"" : "\"b\"") + ":" + y + "}");
      return out;
    };
    auto dedupe = [](std::vector<std::string>& v) {
      std::vector<std::string> o;
      std::set<std::string> seen;
      for (auto& x : v)
        if (seen.insert(x).second) o.push_back(x);
      v = o;
    };
    std::vector<std::string> v1 = lv;
    for (auto& c : containers(lv)) v1.push_back(c);
    dedupe(v1);
    WD = lv;
    for (auto& c : containers(v1)) WD.push_back(c);
    dedupe(WD);
    for (auto& t : WD) VD.push_back(ref::parse(t).v);
  }
  vr::Family f1, f2, f3;
  f3.name = "LZ_shape_depth2";
  f3.count = (uint64_t)WD.size() * WD.size();
  f3.group = "LZd";
  f3.chunk = 256;
  f3.rule = "all ordered pairs over the " + std::to_string(WD.size()) + " duplicate-free values with <= 2 children per container and nesting depth <= 2 (+ empty containers below), keys a,b in both orders";
  f1.name = "LZ_pairs";
  f1.count = (uint64_t)W.size() * W.size();
  f1.group = "LZ";
  f1.chunk = 256;
  f1.rule = "all ordered pairs (target, source) over " + std::to_string(W.size()) + " valid duplicate-free texts (<= " + std::to_string(n) +
            " tokens; leaves null/1/\"s\", containers from the grammar; keys spelled a, b, a\\n (escaped), the \\u-escaped spelling of a, and an escaped quote): Parse(UpdateLazy(t,s)) must succeed and be value-equal to mergeL(T,S), keys matched by decoded value. Non-trivial: both sides objects with the target non-empty.";
  f2.name = "LZ_pairs_spaced";
  f2.count = (uint64_t)Ws.size() * Ws.size();
  f2.group = "LZs";
  f2.chunk = 256;
  f2.rule = "pairs over re-spaced variants (1/31/63/64/65 spaces after structural tokens) of the larger texts";

  // long keys with an escape at every offset relative to the vector blocks, spelled escaped on one side and
  // plainly (where JSON allows) on the other
  vr::Family f4;
  f4.name = "LK_long_escaped_keys";
  f4.count = 71ull * 71 * 5 * 3;
  f4.group = "LK";
  f4.chunk = 256;
  f4.rule = "keys x^p ESC y^q for p,q in 0..70 and ESC in {\\u0041, \\/, \\n, \\\", \\\\}: (0) target spelled with the escape, source with the plain character (A, /) - must match by decoded value; (1) same escaped spelling on both sides, replace + append; (2) nested merge below the long key";
  static const char* kEsc[5] = {"\\u0041", "\\/", "\\n", "\\\"", "\\\\"};
  static const char* kPlain[5] = {"A", "/", nullptr, nullptr, nullptr};
  // objects with a dozen members whose names mix lengths below / at / above the word and vector sizes and differ
  // in their first bytes (the merge looks every source key up in a per-object map of the target's keys)
  static std::vector<std::string> kpool;
  if (kpool.empty()) {
    std::set<std::string> seen;
    for (unsigned len : {1u, 2u, 3u, 7u, 8u, 9u, 12u, 16u, 17u, 33u}) {
      std::string base(len, 'm');
      if (seen.insert(base).second) kpool.push_back(base);
      for (unsigned pos : {0u, 1u, 7u, 8u, 16u})
        for (char v : {'!', 'a', 'z', '~'}) {
          if (pos >= len) continue;
          std::string k = base;
          k[pos] = v;
          if (seen.insert(k).second) kpool.push_back(k);
        }
    }
  }
  vr::Family f5;
  // LK2: very long escaped keys (beyond any fixed-size scratch buffer)
  static std::vector<std::pair<uint32_t, uint32_t>> LK2;
  if (LK2.empty()) {
    std::vector<uint32_t> Ts;
    for (uint32_t t = 250; t <= 262; t++) Ts.push_back(t);
    for (uint32_t t = 440; t <= 560; t += 2) Ts.push_back(t);
    for (uint32_t b : {1024u, 4096u, 65536u})
      for (int d = -2; d <= 2; d++) Ts.push_back(b + d);
    for (uint32_t T : Ts)
      for (uint32_t pp : {0u, 1u, 31u, T / 2, T - 33, T - 1, T}) LK2.push_back({pp, T - pp});
  }
  vr::Family f4b;
  f4b.name = "LK2_very_long_escaped_keys";
  f4b.count = (uint64_t)LK2.size() * 5 * 3;
  f4b.group = "LK2";
  f4b.chunk = 16;
  f4b.rule = "as LK with keys of total length T in 250..262, 440..560 (step 2) and +-2 around 1024, 4096, 65536; the escape after 0, 1, 31, T/2, T-33, T-1, T plain bytes";
  // LV: member COUNTS. Target of N members, source bringing M new keys and updates of the first / middle / last
  // existing member, in 4 layouts: any growth of the target's member array happens while the merge is in progress
  static std::vector<unsigned> NV = {0, 1, 2, 3, 8, 15, 16, 17, 24, 31, 32, 33, 34, 40, 64, 65}, MV;
  if (MV.empty()) {
    for (unsigned m = 0; m <= 40; m++) MV.push_back(m);
    for (unsigned m : {48u, 63u, 64u, 65u, 100u}) MV.push_back(m);
  }
  vr::Family f6;
  f6.name = "LV_member_counts";
  f6.count = (uint64_t)NV.size() * MV.size() * 4 * 2 * 2;
  f6.group = "LV";
  f6.chunk = 64;
  f6.rule = "target object of N members (N in {0,1,2,3,8,15..17,24,31..34,40,64,65}) x source with M new keys (every M in 0..40 and 48,63..65,100) plus updates of the first, middle and last existing member, in 4 layouts (new keys first / existing first / interleaved / new first with updates in reverse order), update by nested merge or by replacement, at the root and one level down";
  // LS: scalar SPELLINGS as direct member values of every object level the merge walks (root, nested on both
  // sides), as array elements and inside untouched values; followed by nothing, a space, a tab or a newline
  static const char* kLS[] = {"0", "-0", "1", "-1", "12", "1.5", "-1.5", "0.25", "1e5", "1E5", "1e+5", "1E+5", "1e-5", "1E-5", "4E2", "6E-1", "0.25E+2", "-4E+2", "2.5E-3", "12E3", "-0.0", "-0e0", "0E0", "1.0e0",
                              "1.0E+0", "123456789012345678", "18446744073709551615", "18446744073709551616", "-9223372036854775808", "1.7976931348623157e308", "1.7976931348623157E308", "4.9E-324",
                              "123456789012345678901234567890", "0.000000000000000000000000000001", "true", "false", "null", "\"\"", "\"e\"", "\"E\"", "\"1E5\"", "\"\\\"\"", "[]", "{}", "[1E5]", "{\"E\":1E5}"};
  static const unsigned LS_N = sizeof(kLS) / sizeof(kLS[0]);
  vr::Family f7;
  f7.name = "LS_scalar_spellings";
  f7.count = (uint64_t)LS_N * LS_N * 6 * 4;
  f7.group = "LS";
  f7.chunk = 256;
  f7.rule = "all ordered pairs (A, B) of " + std::to_string(LS_N) + " value spellings (integers, fractions, exponents written e / E with and without sign, extremes, literals, strings holding E, small containers) x 6 layouts (A and B as root members; in an object nested on both sides; A untouched next to the updated member; inside arrays; B new next to a kept A; three levels) x 4 bytes after the value (none, space, tab, newline)";
  // LQ: key spellings whose END is delicate for a scanner that looks for the closing quote (escaped backslashes and
  // escaped quotes at the end, alone, doubled, after 13..15 plain bytes), with another quote close behind the key
  static const char* kLQ[] = {"a", "", "a\\\\", "\\\\", "\\\\\\\\", "a\\\\\\\"", "\\\"", "a\\\"", "\\\\\\\"", "D:\\\\", "C:\\\\tmp\\\\", "\\u005c", "a\\u005c", "\\/", "a\\b", "\\\\a",
                              "0123456789abc\\\\", "0123456789abcd\\\\", "0123456789abcde\\\\", "0123456789abcdef\\\\", "0123456789abcd\\\"", "0123456789ab\\\\\\\\"};
  static const unsigned LQ_N = sizeof(kLQ) / sizeof(kLQ[0]);
  vr::Family f8;
  f8.name = "LQ_key_endings";
  f8.count = (uint64_t)LQ_N * LQ_N * 4;
  f8.group = "LQ";
  f8.chunk = 64;
  f8.rule = "all ordered pairs (target key, source key) of " + std::to_string(LQ_N) + " key spellings (plain, empty, ending in an escaped backslash / escaped quote / both, \\u005c, Windows paths, 13..16 plain bytes before the final escape) x 4 layouts with string values right behind the key";
  f5.name = "LW_wide_mixed_keys";
  f5.count = (uint64_t)kpool.size() * 8 * 14;
  f5.group = "LW";
  f5.chunk = 64;
  f5.rule = "targets with 12 members named pool[i], pool[i+s], ... (" + std::to_string(kpool.size()) + " names of length 1..33 differing at byte 0,1,7,8,16; 8 strides = insertion orders), each value an object; sources that update one existing member (12 choices: nested merge), add a new one, or do both: the member must be merged in place, nothing duplicated or lost";
  vr::CheckFn check = [&](const vr::Family& f, uint64_t idx, vr::Ctx& ctx) {
    if (f.name[1] == 'V') {
      unsigned nest = (unsigned)(idx % 2);
      idx /= 2;
      unsigned repl = (unsigned)(idx % 2);
      idx /= 2;
      unsigned layout = (unsigned)(idx % 4);
      idx /= 4;
      unsigned M = MV[idx % MV.size()];
      unsigned N = NV[idx / MV.size()];
      auto tk = [](unsigned j) { return "\"k" + std::to_string(j) + "\""; };
      std::string t = "{";
      for (unsigned j = 0; j < N; j++) t += std::string(j ? "," : "") + tk(j) + ":{\"v\":" + std::to_string(j) + "}";
      t += "}";
      // updates of existing members, in target order: first, middle, last (fewer when N is small)
      std::vector<unsigned> upd;
      if (N) upd.push_back(0);
      if (N > 2) upd.push_back(N / 2);
      if (N > 1) upd.push_back(N - 1);
      if (layout == 3) std::reverse(upd.begin(), upd.end());
      std::vector<std::string> news, upds;
      for (unsigned j = 0; j < M; j++) news.push_back("\"n" + std::to_string(j) + "\":" + std::to_string(j));
      for (unsigned u : upd) upds.push_back(tk(u) + ":" + (repl ? "\"replaced\"" : "{\"w\":" + std::to_string(u) + "}"));
      std::vector<std::string> items;
      if (layout == 0 || layout == 3) {  // new keys first, then the existing ones
        items = news;
        items.insert(items.end(), upds.begin(), upds.end());
      } else if (layout == 1) {  // existing first
        items = upds;
        items.insert(items.end(), news.begin(), news.end());
      } else {  // interleaved: the updates spread evenly among the new keys
        size_t ui = 0;
        for (size_t j = 0; j < news.size(); j++) {
          if (ui < upds.size() && j * upds.size() >= ui * news.size()) items.push_back(upds[ui++]);
          items.push_back(news[j]);
        }
        while (ui < upds.size()) items.push_back(upds[ui++]);
      }
      std::string s2 = "{";
      for (size_t j = 0; j < items.size(); j++) s2 += (j ? "," : "") + items[j];
      s2 += "}";
      if (nest) {
        t = "{\"outer\":" + t + ",\"z\":1}";
        s2 = "{\"outer\":" + s2 + "}";
      }
      ref::Result rt = ref::parse(t), rs = ref::parse(s2);
      ctx.eval();
      ctx.nontriv();
      std::string desc = "target of " + std::to_string(N) + " members, source with " + std::to_string(M) + " new keys, layout " + std::to_string(layout) + (repl ? " replace" : " merge") + (nest ? " nested" : "") + ": source=" + s2.substr(0, 300);
      if (ctx.want_sample) ctx.sample(desc.substr(0, 200));
      if (!rt.ok || !rs.ok) {
        ctx.violation("harness", "harness_generator", desc, "harness error: generated text invalid");
        return;
      }
      ExactBuf tb(t), sb(s2);
      std::string out = sonic_json::UpdateLazy(sonic_json::StringView(tb.p, tb.n), sonic_json::StringView(sb.p, sb.n));
      ref::Result r = ref::parse(out);
      ref::Value exp = mergeL(rt.v, rs.v);
      if (!r.ok)
        ctx.violation("lazy_invalid_output", "lazy_invalid_output_counts", desc, "UpdateLazy returned %s which is not valid JSON", out.substr(0, 300).c_str());
      else if (ref::has_dup_keys(r.v))
        ctx.violation("lazy_dup_keys", "lazy_dup_keys_counts", desc, "result has duplicate keys: %s", out.substr(0, 600).c_str());
      else if (!ref::equal(r.v, exp))
        ctx.violation("lazy_result", "lazy_result_counts", desc, "UpdateLazy returned %s, expected a value equal to %s", out.substr(0, 500).c_str(), ref::show(exp).substr(0, 500).c_str());
      return;
    }
    if (f.name[1] == 'Q') {
      unsigned lay = (unsigned)(idx % 4);
      idx /= 4;
      std::string K1 = std::string("\"") + kLQ[idx % LQ_N] + "\"", K2 = std::string("\"") + kLQ[idx / LQ_N] + "\"";
      std::string t, s2;
      switch (lay) {
        case 0: t = "{" + K1 + ":1,\"x\":\"s\"}"; s2 = "{" + K2 + ":2}"; break;
        case 1: t = "{" + K1 + ":{\"a\":1,\"b\":\"q\"},\"x\":1}"; s2 = "{" + K2 + ":{\"b\":2,\"c\":\"r\"}}"; break;
        case 2: t = "{\"o\":{" + K1 + ":\"v\",\"y\":[1]}}"; s2 = "{\"o\":{" + K2 + ":\"w\"}}"; break;
        default: t = "{\"x\":\"s\"," + K1 + ":1}"; s2 = "{\"n\":\"t\"," + K2 + ":{\"z\":\"u\"}}"; break;
      }
      ref::Result rt = ref::parse(t), rs = ref::parse(s2);
      ctx.eval();
      ctx.nontriv();
      std::string desc = "target=" + t + "  source=" + s2;
      if (ctx.want_sample) ctx.sample(desc.substr(0, 200));
      if (!rt.ok || !rs.ok || ref::has_dup_keys(rt.v) || ref::has_dup_keys(rs.v)) {
        ctx.violation("harness", "harness_generator", desc, "harness error: generated text invalid");
        return;
      }
      ExactBuf tb(t), sb(s2);
      std::string out = sonic_json::UpdateLazy(sonic_json::StringView(tb.p, tb.n), sonic_json::StringView(sb.p, sb.n));
      ref::Result r = ref::parse(out);
      ref::Value exp = mergeL(rt.v, rs.v);
      if (!r.ok)
        ctx.violation("lazy_invalid_output", "lazy_invalid_output_keyend", desc, "UpdateLazy returned %s which is not valid JSON", out.substr(0, 300).c_str());
      else if (ref::has_dup_keys(r.v))
        ctx.violation("lazy_dup_keys", "lazy_dup_keys_keyend", desc, "result has duplicate keys: %s", out.substr(0, 600).c_str());
      else if (!ref::equal(r.v, exp))
        ctx.violation("lazy_result", "lazy_result_keyend", desc, "UpdateLazy returned %s, expected a value equal to %s", out.substr(0, 400).c_str(), ref::show(exp).substr(0, 400).c_str());
      return;
    }
    if (f.name[1] == 'S') {
      static const char* kAfter[4] = {"", " ", "\t", "\n"};
      std::string af = kAfter[idx % 4];
      idx /= 4;
      unsigned lay = (unsigned)(idx % 6);
      idx /= 6;
      std::string A = std::string(kLS[idx % LS_N]) + af, B = std::string(kLS[idx / LS_N]) + af;
      std::string t, s2;
      switch (lay) {
        case 0: t = "{\"a\":" + A + ",\"b\":" + A + "}"; s2 = "{\"b\":" + B + ",\"c\":" + B + "}"; break;
        case 1: t = "{\"o\":{\"a\":" + A + ",\"b\":" + A + "},\"z\":" + A + "}"; s2 = "{\"o\":{\"b\":" + B + ",\"c\":" + B + "}}"; break;
        case 2: t = "{\"a\":" + A + ",\"b\":{\"k\":1},\"c\":" + A + "}"; s2 = "{\"b\":{\"k\":" + B + "}}"; break;
        case 3: t = "{\"a\":[" + A + "," + A + "],\"b\":[" + A + "]}"; s2 = "{\"b\":[" + B + "," + B + "],\"c\":[" + B + "]}"; break;
        case 4: t = "{\"a\":" + A + "}"; s2 = "{\"n\":" + B + ",\"m\":{\"x\":" + B + "}}"; break;
        default: t = "{\"o\":{\"p\":{\"a\":" + A + ",\"q\":{\"a\":" + A + "}}}}"; s2 = "{\"o\":{\"p\":{\"q\":{\"b\":" + B + "},\"r\":" + B + "}}}"; break;
      }
      ref::Result rt = ref::parse(t), rs = ref::parse(s2);
      ctx.eval();
      ctx.nontriv();
      std::string desc = "target=" + t + "  source=" + s2;
      if (ctx.want_sample) ctx.sample(desc.substr(0, 200));
      if (!rt.ok || !rs.ok || ref::has_dup_keys(rt.v) || ref::has_dup_keys(rs.v)) {
        ctx.violation("harness", "harness_generator", desc, "harness error: generated text invalid");
        return;
      }
      ExactBuf tb(t), sb(s2);
      std::string out = sonic_json::UpdateLazy(sonic_json::StringView(tb.p, tb.n), sonic_json::StringView(sb.p, sb.n));
      ref::Result r = ref::parse(out);
      ref::Value exp = mergeL(rt.v, rs.v);
      if (!r.ok)
        ctx.violation("lazy_invalid_output", "lazy_invalid_output_spellings", desc, "UpdateLazy returned %s which is not valid JSON", out.substr(0, 300).c_str());
      else if (ref::has_dup_keys(r.v))
        ctx.violation("lazy_dup_keys", "lazy_dup_keys_spellings", desc, "result has duplicate keys: %s", out.substr(0, 600).c_str());
      else if (!ref::equal(r.v, exp))
        ctx.violation("lazy_result", "lazy_result_spellings", desc, "UpdateLazy returned %s, expected a value equal to %s", out.substr(0, 400).c_str(), ref::show(exp).substr(0, 400).c_str());
      return;
    }
    if (f.name[1] == 'W') {
      static const unsigned strides[8] = {1, 2, 3, 5, 7, 11, 13, 17};
      unsigned which = (unsigned)(idx % 14);
      idx /= 14;
      unsigned st = strides[idx % 8];
      size_t i0 = idx / 8;
      std::vector<size_t> ks;
      for (unsigned j = 0; j < 12; j++) {
        size_t k = (i0 + (size_t)j * st) % kpool.size();
        if (std::find(ks.begin(), ks.end(), k) == ks.end()) ks.push_back(k);
      }
      std::string t = "{";
      for (size_t j = 0; j < ks.size(); j++) t += std::string(j ? "," : "") + "\"" + kpool[ks[j]] + "\":{\"v\":" + std::to_string(j) + ",\"u\":[" + std::to_string(j) + "]}";
      t += "}";
      std::string s2;
      if (which < 12) {
        if (which >= ks.size()) {
          ctx.skip();
          return;
        }
        s2 = "{\"" + kpool[ks[which]] + "\":{\"w\":true,\"v\":\"new\"}}";
      } else if (which == 12)
        s2 = "{\"brand-new-key\":{\"w\":1}}";
      else
        s2 = "{\"brand-new-key\":1,\"" + kpool[ks[ks.size() / 2]] + "\":{\"u\":null},\"" + kpool[ks[0]] + "\":2}";
      ref::Result rt = ref::parse(t), rs = ref::parse(s2);
      ctx.eval();
      ctx.nontriv();
      std::string desc = "target=" + t.substr(0, 700) + "  source=" + s2;
      if (ctx.want_sample) ctx.sample(desc.substr(0, 200));
      if (!rt.ok || !rs.ok || ref::has_dup_keys(rt.v)) {
        ctx.violation("harness", "harness_generator", desc, "harness error: generated text invalid");
        return;
      }
      ExactBuf tb(t), sb(s2);
      std::string out = sonic_json::UpdateLazy(sonic_json::StringView(tb.p, tb.n), sonic_json::StringView(sb.p, sb.n));
      ref::Result r = ref::parse(out);
      ref::Value exp = mergeL(rt.v, rs.v);
      if (!r.ok)
        ctx.violation("lazy_invalid_output", "lazy_invalid_output_wide", desc, "UpdateLazy returned %s which is not valid JSON", out.substr(0, 300).c_str());
      else if (ref::has_dup_keys(r.v))
        ctx.violation("lazy_dup_keys", "lazy_dup_keys_wide", desc, "result has duplicate keys: %s", out.substr(0, 600).c_str());
      else if (!ref::equal(r.v, exp))
        ctx.violation("lazy_result", "lazy_result_wide", desc, "UpdateLazy returned %s, expected a value equal to %s", out.substr(0, 400).c_str(), ref::show(exp).substr(0, 400).c_str());
      return;
    }
    if (f.name[1] == 'K') {
      unsigned mode = (unsigned)(idx % 3);
      idx /= 3;
      unsigned ek = (unsigned)(idx % 5);
      idx /= 5;
      unsigned q, p;
      if (f.name[2] == '2') {
        p = LK2[idx].first;
        q = LK2[idx].second;
      } else {
        q = (unsigned)(idx % 71);
        p = (unsigned)(idx / 71);
      }
      std::string KE = "\"" + std::string(p, 'x') + kEsc[ek] + std::string(q, 'y') + "\"";
      std::string t, s;
      if (mode == 0) {
        if (!kPlain[ek]) {
          ctx.skip();
          return;
        }
        std::string KP = "\"" + std::string(p, 'x') + kPlain[ek] + std::string(q, 'y') + "\"";
        t = "{" + KE + ":1,\"b\":{\"c\":1}}";
        s = "{" + KP + ":2}";
      } else if (mode == 1) {
        t = "{" + KE + ":1}";
        s = "{" + KE + ":{\"z\":3},\"n\":4}";
      } else {
        t = "{\"b\":1," + KE + ":{\"k\":1}}";
        s = "{" + KE + ":{\"k\":2,\"j\":[]}}";
      }
      ref::Result rt = ref::parse(t), rs = ref::parse(s);
      ctx.eval();
      ctx.nontriv();
      std::string desc = "target=" + t + "  source=" + s;
      if (ctx.want_sample) ctx.sample(desc);
      if (!rt.ok || !rs.ok) {
        ctx.violation("harness", "harness_generator", desc, "harness error: generated text invalid");
        return;
      }
      ExactBuf tb(t), sb(s);
      std::string out = sonic_json::UpdateLazy(sonic_json::StringView(tb.p, tb.n), sonic_json::StringView(sb.p, sb.n));
      ref::Result r = ref::parse(out);
      ref::Value exp = mergeL(rt.v, rs.v);
      if (!r.ok)
        ctx.violation("lazy_invalid_output", "lazy_invalid_output_long_key", desc, "UpdateLazy returned %s which is not valid JSON", out.substr(0, 300).c_str());
      else if (!ref::equal(r.v, exp))
        ctx.violation("lazy_result", "lazy_result_long_key", desc, "UpdateLazy returned %s, expected a value equal to %s", out.substr(0, 300).c_str(), ref::show(exp).substr(0, 300).c_str());
      return;
    }
    const bool sp = f.name == "LZ_pairs_spaced";
    const bool sd = f.name == "LZ_shape_depth2";
    const auto& TW = sd ? WD : sp ? Ws : W;
    const auto& TV = sd ? VD : sp ? Vs : V;
    size_t ti = idx / TW.size(), si = idx % TW.size();
    const std::string& t = TW[ti];
    const std::string& s = TW[si];
    const ref::Value& T = TV[ti];
    const ref::Value& S = TV[si];
    ctx.eval();
    if (T.k == ref::Obj && !T.o.empty() && S.k == ref::Obj) ctx.nontriv();
    std::string desc = "target=" + t + "  source=" + s;
    if (ctx.want_sample) ctx.sample(desc);
    ExactBuf tb(t), sb(s);
    std::string out = sonic_json::UpdateLazy(sonic_json::StringView(tb.p, tb.n), sonic_json::StringView(sb.p, sb.n));
    ref::Result r = ref::parse(out);
    ref::Value exp = mergeL(T, S);
    const bool esc = has_escaped_key(t) || has_escaped_key(s);
    if (!r.ok) {
      ctx.violation("lazy_invalid_output", esc ? "lazy_invalid_output_escaped_key" : "lazy_invalid_output", desc, "UpdateLazy returned %s which is not valid JSON (expected %s)", out.c_str(), ref::show(exp).c_str());
      return;
    }
    if (!ref::equal(r.v, exp)) {
      ctx.violation("lazy_result", esc ? "lazy_result_escaped_key" : "lazy_result", desc, "UpdateLazy returned %s, expected a value equal to %s", out.c_str(), ref::show(exp).c_str());
      return;
    }
    if (ref::has_dup_keys(r.v)) ctx.violation("lazy_dup_keys", "lazy_dup_keys", desc, "result %s has duplicate keys", out.c_str());
  };

  std::vector<vr::Family> fams = {f1, f2, f3, f4, f4b, f5, f6, f7, f8};
  if (args.replay) return R.replay_one(fams, check);
  const std::string only = args.get("only");
  for (auto& f : fams)
    if (only.empty() || only == f.name) R.run(f, check);
  return R.finish();
}
