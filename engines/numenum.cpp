// Engine numenum (C04): numbers parse to the exact integer or the correctly rounded double.
// Families N1..N6 (DESIGN.md section 4/C04).  Oracle: the reference number rule
// (integer that fits -> exact integer kind, else glibc strtod; +-inf -> Infinity error);
// for the halfway families the expected double is additionally known exactly
// (ties-to-even by construction) and glibc's answer is checked against it.
#include <memory>

#include <clocale>
#include <unistd.h>

#include "common/env_locale.hpp"
#include "common/families.hpp"
#include "common/refjson.hpp"
#include "common/runner.hpp"
#include "common/sonic_cmp.hpp"
#include "sonic/sonic.h"

using namespace sonic_json;

// ---- tiny big integer (base 1e9), enough for (2m+1)*2^k and (2m+1)*5^k -------------
struct Big {
  std::vector<uint32_t> l;  // little endian limbs
  explicit Big(uint64_t v = 0) {
    while (v) {
      l.push_back((uint32_t)(v % 1000000000u));
      v /= 1000000000u;
    }
  }
  void mul(uint32_t m) {
    uint64_t c = 0;
    for (auto& x : l) {
      uint64_t t = (uint64_t)x * m + c;
      x = (uint32_t)(t % 1000000000u);
      c = t / 1000000000u;
    }
    while (c) {
      l.push_back((uint32_t)(c % 1000000000u));
      c /= 1000000000u;
    }
  }
  void dec1() {  // subtract one (value > 0)
    for (auto& x : l) {
      if (x) {
        x--;
        break;
      }
      x = 999999999u;
    }
    while (!l.empty() && l.back() == 0) l.pop_back();
  }
  std::string str() const {
    if (l.empty()) return "0";
    char buf[16];
    std::string s = std::to_string(l.back());
    for (size_t i = l.size() - 1; i-- > 0;) {
      snprintf(buf, sizeof buf, "%09u", l[i]);
      s += buf;
    }
    return s;
  }
};

// digits G and scale k: value = G * 10^-k
struct Dec {
  std::string G;
  long k;
};
static std::string plain(const Dec& d) {
  long L = (long)d.G.size();
  if (d.k <= 0) return d.G + std::string((size_t)(-d.k), '0');
  if (L > d.k) return d.G.substr(0, (size_t)(L - d.k)) + "." + d.G.substr((size_t)(L - d.k));
  return "0." + std::string((size_t)(d.k - L), '0') + d.G;
}
// spelling with the point after p digits of G followed by zpad zeros (p in 0..L+zpad), exponent compensating
static std::string respell(const Dec& d, size_t zpad, size_t p) {
  std::string g = d.G + std::string(zpad, '0');
  long L = (long)g.size();
  long I = L - (d.k + (long)zpad);  // number of integer digits of the plain value
  std::string m;
  long e;
  if (p == 0) {
    m = "0." + g;
    e = I;
  } else {
    m = g.substr(0, p);
    if ((long)p < L) m += "." + g.substr(p);
    e = I - (long)p;
  }
  return m + "e" + std::to_string(e);
}

static const uint64_t kSigPatterns[20] = {0x0000000000000ull, 0x0000000000001ull, 0x0000000000002ull, 0xFFFFFFFFFFFFFull, 0xFFFFFFFFFFFFEull, 0x8000000000000ull, 0x7FFFFFFFFFFFFull,
                                          0x5555555555555ull, 0xAAAAAAAAAAAAAull, 0x0000000000003ull, 0x123456789ABCDull, 0xFEDCBA9876543ull, 0x00000FFFFFFFFull, 0xFFFFF00000000ull,
                                          0x0F0F0F0F0F0F0ull, 0x8000000000001ull, 0x4000000000000ull, 0xC000000000000ull, 0x00000000FFFFFull, 0x3333333333333ull};

// midpoint between the double with bits b (finite, >= 0) and its successor
static Dec midpoint(uint64_t b) {
  uint64_t be = b >> 52, frac = b & ((1ull << 52) - 1);
  uint64_t m = be ? (frac | (1ull << 52)) : frac;
  long q = be ? (long)be - 1075 : -1074;
  Big v(2 * m + 1);
  long e2 = q - 1;
  Dec d;
  if (e2 >= 0) {
    for (long i = 0; i < e2; i++) v.mul(2);
    d.G = v.str();
    d.k = 0;
  } else {
    for (long i = 0; i < -e2; i++) v.mul(5);
    d.G = v.str();
    d.k = -e2;
  }
  return d;
}
static Dec below(const Dec& m, uint64_t b) {
  (void)b;
  // G-1 followed by 9999
  Dec d = m;
  // decimal decrement of the digit string
  std::string g = d.G;
  size_t i = g.size();
  while (i > 0) {
    i--;
    if (g[i] != '0') {
      g[i]--;
      break;
    }
    g[i] = '9';
  }
  if (g.size() > 1 && g[0] == '0') g.erase(0, 1);
  d.G = g + "9999";
  d.k += 4;
  return d;
}
static Dec above(const Dec& m) {
  Dec d = m;
  d.G += "0001";
  d.k += 4;
  return d;
}

struct ExactBuf {
  char* p;
  size_t n;
  explicit ExactBuf(const std::string& s) : n(s.size()) {
    p = (char*)std::malloc(n);
    if (n) std::memcpy(p, s.data(), n);
  }
  ~ExactBuf() { std::free(p); }
};

// check one number spelling in three contexts.  If have_exact: the double must have bits
// exact_bits (or, when exact_inf, the parse must fail with the infinity error).
static const char* kLocaleClassics[] = {"2.5e-320", "1.8e308", "-1.8e308", "9007199254740993.00000000000000000001", "0.1", "1.5", "1.7976931348623157e308", "4.9e-324", "123.456e-310", "0.000001", "1.0e400", "1.0e-400",
    "100000000000000016777215.5", "2.2250738585072011e-308", "8.5e22", "3.14159265358979323846264338327950288", "0.30000000000000004440892098500626", "1e23", "9007199254740992.5"};
// ---- process locale (family N11) ----
// A private locale whose decimal point is ',' (as in de_DE, fr_FR, ru_RU ...; only C / POSIX are installed here) is
// compiled with localedef next to the engine binary. While g_in_comma_locale is set, ONLY the library's Parse call runs
// under it; the reference (glibc strtod) and all formatting run in the C locale.
static bool g_have_comma_locale = false, g_in_comma_locale = false;
static void check_number(const std::string& num, vr::Ctx& ctx, bool have_exact = false, uint64_t exact_bits = 0, bool exact_inf = false) {
  static const char* pre[3] = {"", "[", "{\"k\":"};
  static const char* post[3] = {"", "]", " }"};
  ctx.eval();
  for (int w = 0; w < 3; w++) {
    std::string text = std::string(pre[w]) + num + post[w];
    ref::Result r = ref::parse(text);
    if (!r.ok && r.fault != ref::FInfinity) {
      ctx.violation("harness_number", "harness_number", num.substr(0, 200), "harness error: generated number is not valid JSON (fault %d)", (int)r.fault);
      return;
    }
    if (have_exact && w == 0) {
      // validate the oracle itself: glibc must agree with the exactly known expectation
      bool ref_inf = !r.ok;
      // a midpoint that is itself an integer below 2^64 is spelled as an exact integer: the
      // integer rule applies and there is nothing to round
      if (r.ok && r.v.k != ref::Real) {
        have_exact = false;
      } else if (ref_inf != exact_inf || (!exact_inf && (r.v.k != ref::Real || r.v.u != exact_bits))) {
        ctx.violation("oracle_disagree", "oracle_disagree", num.substr(0, 200), "harness/oracle error: strtod disagrees with the exactly computed expectation %016llx", (unsigned long long)exact_bits);
        return;
      }
    }
    ExactBuf b(text);
    Document doc;
    if (g_in_comma_locale) setlocale(LC_NUMERIC, "xx_XX");
    doc.Parse(b.p, b.n);
    if (g_in_comma_locale) setlocale(LC_NUMERIC, "C");
    std::string shown = text.size() > 160 ? text.substr(0, 80) + "..." + text.substr(text.size() - 60) + " (" + std::to_string(text.size()) + " bytes)" : text;
    if (!r.ok) {
      if (!doc.HasParseError())
        ctx.violation("accepts_overflow", "accepts_overflow", text, "%s: overflows double but was accepted (stored %s)", shown.c_str(), ref::show(sc::to_ref(doc)).c_str());
      else if (doc.GetParseError() != kParseErrorInfinity)
        ctx.violation("overflow_code", "overflow_code", text, "%s: overflow reported with code %d, not kParseErrorInfinity", shown.c_str(), (int)doc.GetParseError());
      continue;
    }
    if (doc.HasParseError()) {
      ctx.violation("rejects_valid_number", "rejects_valid_number", text, "%s: valid number rejected with code %d", shown.c_str(), (int)doc.GetParseError());
      continue;
    }
    std::string d = sc::compare(doc, r.v);
    if (!d.empty()) {
      const ref::Value& nv = w == 0 ? r.v : w == 1 ? r.v.a[0] : r.v.o[0].second;
      ctx.violation("number_value", nv.k == ref::Real ? "number_value_double" : "number_value_integer", text, "%s: %s", shown.c_str(), d.c_str());
    }
  }
}

static const char* n9base[10] = {"2147483648", "4294967296", "9223372036854775808", "18446744073709551616", "36893488147419103232", "55340232221128654848", "10000000000000000000", "100000000000000000000",
    "184467440737095516160", "340282366920938463463374607431768211456"};
static const char* n9mant[6] = {"1", "5", "0", "1.5", "123456789012345678901", "0.0001"};

int main(int argc, char** argv) {
  vr::Args args = vr::parse_args(argc, argv);
  vr::Runner R(args);
  const bool quick = R.quick();
#if defined(__SANITIZE_ADDRESS__)
  const bool asan = true;
#else
  const bool asan = false;
#endif
  std::vector<vr::Family> fams;

  // ---- N1 integers ----
  std::vector<std::string> n1;
  {
    auto add128 = [&](unsigned __int128 v, bool neg) {
      std::string s;
      if (v == 0) s = "0";
      while (v) {
        s.insert(s.begin(), (char)('0' + (int)(v % 10)));
        v /= 10;
      }
      n1.push_back((neg ? "-" : "") + s);
    };
    unsigned __int128 one = 1;
    unsigned __int128 p19 = 1, p20;
    for (int i = 0; i < 19; i++) p19 *= 10;
    p20 = p19 * 10;
    std::vector<unsigned __int128> centers = {0, one << 31, one << 32, one << 53, one << 63, one << 64, p19, p20, (one << 64) * 10, (one << 63) * 10};
    const int span = quick ? 300 : 1000;
    for (auto c : centers)
      for (int d = -span; d <= span; d++) {
        if (d < 0 && c < (unsigned __int128)(-d)) continue;
        unsigned __int128 v = c + (unsigned __int128)(long long)d;
        add128(v, false);
        add128(v, true);
      }
    for (int len = 1; len <= 25; len++) {
      std::string nines(len, '9'), ones = "1" + std::string(len - 1, '0'), pat;
      for (int i = 0; i < len; i++) pat.push_back((char)('1' + i % 9));
      for (auto& s : {nines, ones, pat}) {
        n1.push_back(s);
        n1.push_back("-" + s);
      }
    }
  }
  // ---- boundary mantissas ----
  std::vector<std::string> bm;
  {
    for (uint64_t c : {1ull << 53, (1ull << 53) - 1, (1ull << 52), 9007199254740993ull, 9007199254740995ull, 4503599627370497ull, 17976931348623157ull, 17976931348623158ull, 17976931348623159ull,
                       22250738585072014ull, 22250738585072013ull, 22250738585072011ull, 49406564584124654ull, 24703282292062327ull, 24703282292062328ull, 18446744073709551615ull,
                       18446744073709551614ull, 9223372036854775807ull, 9223372036854775808ull, 9999999999999999ull, 99999999999999999ull, 999999999999999999ull, 9999999999999999999ull,
                       1000000000000000ull, 10000000000000001ull, 100000000000000001ull, 1000000000000000001ull, 12345678901234567ull, 123456789012345678ull, 1234567890123456789ull,
                       4611686018427387904ull, 4611686018427387905ull, 1152921504606846977ull, 8ull, 16ull, 5ull, 25ull, 125ull, 3ull, 7ull})
      for (int d = -2; d <= 2; d++) bm.push_back(std::to_string(c + (uint64_t)(int64_t)d));
    bm.push_back("18446744073709551616");
    bm.push_back("18446744073709551617");
    bm.push_back("184467440737095516150");
    bm.push_back("99999999999999999999");
    bm.push_back("100000000000000000000");
    bm.push_back("123456789012345678901234567890");
    bm.push_back("100000000000000011102230246251565404236316680908203126");
    bm.push_back("100000000000000011102230246251565404236316680908203125");
    bm.push_back("100000000000000011102230246251565404236316680908203124");
    bm.push_back(std::string(40, '9'));
    bm.push_back("1" + std::string(39, '0') + "1");
    std::sort(bm.begin(), bm.end());
    bm.erase(std::unique(bm.begin(), bm.end()), bm.end());
  }
  const unsigned MMAX = quick ? 4999 : 19999;
  const int XMAX = 400;

  vr::Family f1, f2, f2b, f3, f3b, f4, f5, f6;
  f1.name = "N1_integers";
  f1.count = n1.size();
  f1.group = "N1";
  f1.chunk = 64;
  f1.rule = "integer spellings within +-" + std::to_string(quick ? 300 : 1000) + " of 0, 2^31, 2^32, 2^53, 2^63, 2^64, 10^19, 10^20, 10*2^63, 10*2^64 (both signs) and 9.., 10.., 123.. patterns of 1..25 digits: exact integer kind when it fits, else nearest double";
  f2.name = "N2_small_mantissa_all_exponents";
  f2.count = (uint64_t)MMAX * (2 * XMAX + 1);
  f2.group = "N2";
  f2.chunk = 2048;
  f2.rule = "m e x for every m in 1.." + std::to_string(MMAX) + " and every x in -400..400 (every row of the power-of-ten tables), spelled with e/E and explicit +";
  f2b.name = "N2b_boundary_mantissa_all_exponents";
  f2b.count = (uint64_t)bm.size() * (2 * XMAX + 1) * 2;
  f2b.group = "N2b";
  f2b.chunk = 1024;
  f2b.rule = "boundary mantissas (" + std::to_string(bm.size()) + ": 2^53+-2, 2^64 neighbours, 17..40-digit extremes, known hard cases) x every x in -400..400, both signs";
  f3.name = "N3_point_every_position";
  f3.count = (uint64_t)bm.size() * 42 * 81;
  f3.group = "N3";
  f3.chunk = 1024;
  f3.rule = "each boundary digit string with the decimal point at every position 0..len (41 max) x exponent in {none, -340..-300 step 2, -20..20, 290..310 step 2}";
  f3b.name = "N3b_short_fractions_exhaustive";
  f3b.count = (fam::count_upto(10, quick ? 5 : 6) - 1) * 10;
  f3b.group = "N3b";
  f3b.chunk = 4096;
  f3b.rule = std::string("every fraction string of <= ") + (quick ? "5" : "6") + " digits as 0.ddd, d.dd and ddd.d forms, plain and with e-3/e17";
  const unsigned n4step = asan ? (quick ? 16 : 4) : (quick ? 1 : 1);
  const unsigned n4exps = (2047 + n4step - 1) / n4step;
  f4.name = "N4_halfway";
  f4.count = (uint64_t)n4exps * 20 * 3;
  f4.group = "N4";
  f4.chunk = 16;
  f4.rule = "for every biased exponent 0..2046 (step " + std::to_string(n4step) + ") x 20 significand patterns: the exact decimal expansion (up to ~770 digits, big-integer arithmetic) of the midpoint to the next double, one unit below and one above: expected result known exactly (ties to even), glibc strtod cross-checked";
  f5.name = "N5_zeros_extremes";
  f5.group = "N5";
  f5.chunk = 16;
  f6.name = "N6_rescaled_halfway";
  f6.group = "N6";
  f6.chunk = 16;

  // N5 list
  std::vector<std::string> n5;
  {
    for (int z = 1; z <= 400; z += (quick ? 7 : 1)) {
      n5.push_back("0." + std::string((size_t)z, '0'));
      n5.push_back("-0." + std::string((size_t)z, '0'));
      n5.push_back("0." + std::string((size_t)z, '0') + "e5");
      n5.push_back("0." + std::string((size_t)z, '0') + "1");
      n5.push_back("1" + std::string((size_t)z, '0'));
      n5.push_back("1" + std::string((size_t)z, '0') + ".0");
      n5.push_back("1" + std::string((size_t)z, '0') + "e-" + std::to_string(z));
      n5.push_back("0." + std::string((size_t)z, '0') + "1e" + std::to_string(z + 1));
    }
    for (const char* s : {"0e99999", "0e-99999", "0E+99999", "-0e0", "-0.0", "-0", "0.0e0", "0e0", "1e00000000", "1e00000308", "1e+0000400", "1e-0000400", "1e99999999", "1e-99999999", "-1e99999999",
                          "1.7976931348623157e308", "1.7976931348623158e308", "1.79769313486231580793728971405301e308", "1.797693134862315807937289714053e308", "1.7976931348623159e308", "1.8e308", "-1.8e308",
                          "179769313486231570814527423731704356798070567525844996598917476803157260780028538760589558632766878171540458953514382464234321326889464182768467546703537516986049910576551282076245490090389328944075868508455133942304583236903222948165808559332123348274797826204144723168738177180919299881250404026184124858368",
                          "179769313486231580793728971405303415079934132710037826936173778980444968292764750946649017977587207096330286416692887910946555547851940402630657488671505820681908902000708383676273854845817711531764475730270069855571366959622842914819860834936475292719074168444365510704342711559699508093042880177904174497791",
                          "179769313486231580793728971405303415079934132710037826936173778980444968292764750946649017977587207096330286416692887910946555547851940402630657488671505820681908902000708383676273854845817711531764475730270069855571366959622842914819860834936475292719074168444365510704342711559699508093042880177904174497792",
                          "4.9406564584124654e-324", "4.9e-324", "5e-324", "2.4703282292062327e-324", "2.4703282292062328e-324", "2.47e-324", "2.48e-324", "1e-323", "2.2250738585072014e-308", "2.2250738585072011e-308",
                          "2.2250738585072012e-308", "2.2250738585072009e-308", "1e-400", "1e-325", "1e-324", "1e-322", "123456789012345678901234567890e-10", "0.000000000000000000000000000001e30",
                          "9007199254740993", "9007199254740993.0", "9007199254740993e0", "9007199254740992.5", "9007199254740993.00000000000000000000000000001", "18446744073709551615.0", "-9223372036854775808.0",
                          "1e22", "1e23", "8.5e22", "1.5e37", "9.007199254740991e37", "1e-22", "1e-23", "4503599627370495.5", "4503599627370496.5", "4503599627370497.5"})
      n5.push_back(s);
  }
  f5.count = n5.size();
  f5.rule = "zeros written with 1..400 digits, signed zeros, huge/tiny exponents with leading zeros, the DBL_MAX / overflow boundary spellings (largest finite, exact half-way to 2^1024, one above), smallest subnormal and its halves, 1 followed by up to 400 zeros";

  // N6: subset of exponents, all patterns, 3 variants, every point position (+ padded variants)
  std::vector<unsigned> n6exps = {0, 1, 2, 52, 53, 512, 970, 1000, 1022, 1023, 1024, 1075, 1076, 1100, 1500, 2000, 2046};
  if (quick) n6exps = {0, 1, 1000, 1023, 1024, 1075, 1500, 2046};
  if (asan) n6exps = {1, 1023, 1075, 2046};
  static const unsigned padTargets[] = {0, 17, 18, 19, 20, 21, 22, 790, 799, 800, 801, 810, 1000, 1100};
  const unsigned NPADS = 14;
  const unsigned posStep = quick ? 7 : 1;
  const unsigned NPOS = 1200 / posStep + 1;
  f6.count = (uint64_t)n6exps.size() * 20 * 3 * NPADS * NPOS;
  f6.rule = "every N4 string (exact / below / above) for biased exponents " + std::to_string(n6exps.size()) + " chosen values re-spelled with the decimal point at positions 0..L step " + std::to_string(posStep) +
            " (incl. no point: an integer mantissa of up to ~1100 digits followed directly by an exponent), padded with trailing zeros so that the mantissa has 17..22, 790..810, 1000, 1100 digits, exponent compensating";

  auto n4case = [&](unsigned be, unsigned pi, unsigned var, Dec& d, uint64_t& exp_bits, bool& exp_inf) {
    uint64_t b = ((uint64_t)be << 52) | kSigPatterns[pi];
    Dec m = midpoint(b);
    uint64_t up = b + 1;
    bool up_inf = (up >> 52) == 0x7ff;
    exp_inf = false;
    if (var == 0) {  // exact tie -> even
      d = m;
      if (b & 1) {
        exp_bits = up;
        exp_inf = up_inf;
      } else
        exp_bits = b;
    } else if (var == 1) {
      d = below(m, b);
      exp_bits = b;
    } else {
      d = above(m);
      exp_bits = up;
      exp_inf = up_inf;
    }
  };

  std::vector<std::string> n7x, n7y;  // filled below (N7)
  std::vector<unsigned> n10be, n10pi = {0, 1, 3, 7, 10};
  for (unsigned be = 1; be <= 2046; be += (quick ? 16 : 4)) n10be.push_back(be);
  for (unsigned be : {2u, 1022u, 1023u, 1024u, 1074u, 1075u, 1076u, 1086u, 1087u, 1088u, 1089u, 2045u, 2046u}) n10be.push_back(be);
  // N8: N4 strings re-spelled with 10^4 .. 10^6 padding zeros, so that the written exponent has 5..7 digits and is
  // compensated by the length of the mantissa (exponent accumulators that saturate too early, digit counters)
  std::vector<unsigned> n8z = {9980, 9999, 10000, 10001, 99980, 99999, 100000, 100001, 100020, 300000, 1000000};
  if (quick) n8z = {9999, 10001, 99999, 100000, 100001, 250000};
  std::vector<unsigned> n8be = {1, 1023, 1075, 2046};
  std::vector<unsigned> n8pi = {0, 1, 3};
  if (quick) n8be = {1, 1023, 2046}, n8pi = {0, 1};
  vr::CheckFn check = [&](const vr::Family& f, uint64_t idx, vr::Ctx& ctx) {
    const std::string& nm = f.name;
    if (nm == "N1_integers") {
      if (ctx.want_sample) ctx.sample(n1[idx]);
      ctx.nontriv();
      check_number(n1[idx], ctx);
      return;
    }
    if (nm[1] == '2' && nm[2] == '_') {
      int x = (int)(idx % (2 * XMAX + 1)) - XMAX;
      unsigned m = (unsigned)(idx / (2 * XMAX + 1)) + 1;
      std::string s = std::to_string(m) + ((m + x) & 1 ? "e" : "E") + ((x >= 0 && (m & 2)) ? "+" : "") + std::to_string(x);
      if (ctx.want_sample) ctx.sample(s);
      ctx.nontriv();
      check_number(s, ctx);
      return;
    }
    if (nm[1] == '2') {
      bool neg = idx & 1;
      idx >>= 1;
      int x = (int)(idx % (2 * XMAX + 1)) - XMAX;
      const std::string& m = bm[idx / (2 * XMAX + 1)];
      std::string s = (neg ? "-" : "") + m + "e" + std::to_string(x);
      if (ctx.want_sample) ctx.sample(s);
      ctx.nontriv();
      check_number(s, ctx);
      return;
    }
    if (nm[1] == '3' && nm[2] == '_') {
      unsigned xi = (unsigned)(idx % 81);
      idx /= 81;
      unsigned p = (unsigned)(idx % 42);
      const std::string& g = bm[idx / 42];
      if (p > g.size()) {
        ctx.skip();
        return;
      }
      std::string m = p == 0 ? "0." + g : (p < g.size() ? g.substr(0, p) + "." + g.substr(p) : g);
      std::string s = m;
      if (xi > 0) {
        int x;
        if (xi <= 21)
          x = -340 + 2 * (int)(xi - 1);
        else if (xi <= 62)
          x = -20 + (int)(xi - 22);
        else if (xi <= 73)
          x = 290 + 2 * (int)(xi - 63);
        else {
          ctx.skip();
          return;
        }
        s += "e" + std::to_string(x);
      }
      if (ctx.want_sample) ctx.sample(s);
      ctx.nontriv();
      check_number(s, ctx);
      return;
    }
    if (nm[1] == '3') {
      // idx -> digit string of length 1..5/6 (with leading zeros allowed) and a form
      unsigned form = (unsigned)(idx % 10);
      uint64_t r = idx / 10;
      std::vector<unsigned> dg;
      fam::decode_upto(r + 1, 10, quick ? 5 : 6, dg);  // +1: skip the empty string
      std::string ds;
      for (unsigned x : dg) ds.push_back((char)('0' + x));
      if (ds.empty()) {
        ctx.skip();
        return;
      }
      std::string s;
      switch (form) {
        case 0: s = "0." + ds; break;
        case 1: s = "0." + ds + "e-3"; break;
        case 2: s = "0." + ds + "e17"; break;
        case 3: s = "7." + ds; break;
        case 4: s = "-1." + ds + "E-308"; break;
        case 5: s = "123456789012." + ds; break;
        case 6: s = "9007199254740992." + ds; break;
        case 7: s = "1." + ds + "e308"; break;
        case 8: s = "0.0000000000000000" + ds; break;
        case 9: s = "4." + ds + "e-324"; break;
      }
      if (ctx.want_sample) ctx.sample(s);
      ctx.nontriv();
      check_number(s, ctx);
      return;
    }
    if (nm[1] == '4') {
      unsigned var = (unsigned)(idx % 3);
      idx /= 3;
      unsigned pi = (unsigned)(idx % 20);
      unsigned be = (unsigned)(idx / 20) * n4step;
      Dec d;
      uint64_t eb;
      bool einf;
      n4case(be, pi, var, d, eb, einf);
      std::string s = plain(d);
      if (ctx.want_sample) ctx.sample("exp=" + std::to_string(be) + " pattern=" + std::to_string(pi) + " variant=" + std::to_string(var) + " : " + s.substr(0, 60) + "... (" + std::to_string(s.size()) + " bytes)");
      ctx.nontriv();
      check_number(s, ctx, true, eb, einf);
      check_number("-" + s, ctx, true, eb | (1ull << 63), einf);
      return;
    }
    if (nm[1] == '1' && nm[2] == '1') {
      if (!g_have_comma_locale) {
        ctx.skip();
        return;
      }
      const uint64_t nc = sizeof kLocaleClassics / sizeof kLocaleClassics[0];
      std::string sp;
      bool have = false, einf = false;
      uint64_t eb = 0;
      if (idx < nc)
        sp = kLocaleClassics[idx];
      else {
        uint64_t r = idx - nc;
        unsigned var = (unsigned)(r % 3);
        r /= 3;
        unsigned pi = n10pi[r % n10pi.size()];
        unsigned be = n10be[r / n10pi.size()];
        Dec d;
        n4case(be, pi, var, d, eb, einf);
        sp = respell(d, 0, 1);
        have = true;
      }
      if (ctx.want_sample) ctx.sample(sp.substr(0, 60));
      ctx.nontriv();
      g_in_comma_locale = true;
      check_number(sp, ctx, have, eb, einf);
      g_in_comma_locale = false;
      return;
    }
    if (nm[1] == '1' && nm[2] == '0') {
      unsigned shape = (unsigned)(idx % 2);
      idx /= 2;
      unsigned v2 = (unsigned)(idx % 3), v1 = (unsigned)((idx / 3) % 3);
      idx /= 9;
      unsigned pi = n10pi[idx % n10pi.size()];
      unsigned be = n10be[idx / n10pi.size()];
      Dec d1, d2;
      uint64_t e1, e2;
      bool i1, i2;
      n4case(be, pi, v1, d1, e1, i1);
      n4case(be, pi, v2, d2, e2, i2);
      if (i1 || i2) {
        ctx.skip();
        return;
      }
      std::string a = plain(d1), b = plain(d2);
      std::string text = shape == 0 ? "[" + a + "," + b + "]" : "{\"a\":" + a + ",\"b\":-" + b + "}";
      if (ctx.want_sample) ctx.sample("be=" + std::to_string(be) + " pattern " + std::to_string(pi) + " variants " + std::to_string(v1) + "," + std::to_string(v2));
      ctx.eval();
      ctx.nontriv();
      ref::Result r = ref::parse(text);
      if (!r.ok) {
        ctx.violation("harness_number", "harness_number", text.substr(0, 200), "harness error: generated document is not valid JSON");
        return;
      }
      ExactBuf bb(text);
      Document doc;
      doc.Parse(bb.p, bb.n);
      if (doc.HasParseError()) {
        ctx.violation("rejects_valid_number", "rejects_valid_number_pair", text, "two valid numbers in one document rejected with code %d", (int)doc.GetParseError());
        return;
      }
      std::string d = sc::compare(doc, r.v);
      if (!d.empty()) ctx.violation("number_value", "number_value_double_pair", text, "two numbers in one document (exponent %u, pattern %u, variants %u,%u): %s", be, pi, v1, v2, d.c_str());
      return;
    }
    if (nm[1] == '7') {
      const std::string& X = n7x[idx / n7y.size()];
      const std::string& Y = n7y[idx % n7y.size()];
      if (ctx.want_sample) ctx.sample("X=" + X.substr(0, 40) + "... then Y=" + Y.substr(0, 60));
      ctx.nontriv();
      {
        Document dx;
        dx.Parse(X);  // result irrelevant; only its effect on later parses matters
      }
      check_number(Y, ctx);
      return;
    }
    if (nm[1] == '9') {
      unsigned sg = (unsigned)(idx % 3);
      idx /= 3;
      unsigned mi = (unsigned)(idx % 6);
      idx /= 6;
      int d = (int)(idx % 681) - 340;
      std::string e = n9base[idx / 681];
      // decimal string + small signed integer
      {
        int carry = d;
        for (size_t i = e.size(); i-- > 0 && carry != 0;) {
          int v = (e[i] - '0') + carry;
          carry = 0;
          while (v < 0) {
            v += 10;
            carry--;
          }
          carry += v / 10;
          e[i] = (char)('0' + v % 10);
        }
      }
      std::string s = std::string(n9mant[mi]) + (sg == 0 ? "e" : sg == 1 ? "E+" : "e-") + e;
      if (ctx.want_sample) ctx.sample(s);
      ctx.nontriv();
      check_number(s, ctx);
      check_number("-" + s, ctx);
      return;
    }
    if (nm[1] == '8') {
      unsigned form = (unsigned)(idx % 3);
      idx /= 3;
      unsigned z = n8z[idx % n8z.size()];
      idx /= n8z.size();
      unsigned var = (unsigned)(idx % 3);
      idx /= 3;
      unsigned pi = n8pi[idx % n8pi.size()];
      unsigned be = n8be[idx / n8pi.size()];
      Dec d;
      uint64_t eb;
      bool einf;
      n4case(be, pi, var, d, eb, einf);
      std::string s;
      long L = (long)d.G.size();
      if (form == 0)
        s = respell(d, z, (size_t)L + z);  // integer mantissa with z trailing zeros, exponent about -z
      else if (form == 1)
        s = respell(d, z, 1);  // point after the first digit, z trailing fraction zeros
      else
        s = "0." + std::string(z, '0') + d.G + "e" + std::to_string((L - d.k) + (long)z);  // z leading fraction zeros, exponent about +z
      if (ctx.want_sample)
        ctx.sample("exp=" + std::to_string(be) + " pattern=" + std::to_string(pi) + " variant=" + std::to_string(var) + " form=" + std::to_string(form) + " zeros=" + std::to_string(z) + " : " + s.substr(0, 24) + "..." + s.substr(s.size() - 24) + " (" +
                   std::to_string(s.size()) + " bytes)");
      ctx.nontriv();
      check_number(s, ctx, true, eb, einf);
      return;
    }
    if (nm[1] == '5') {
      if (ctx.want_sample) ctx.sample(n5[idx].substr(0, 100));
      ctx.nontriv();
      check_number(n5[idx], ctx);
      return;
    }
    {
      unsigned posi = (unsigned)(idx % NPOS);
      idx /= NPOS;
      unsigned padi = (unsigned)(idx % NPADS);
      idx /= NPADS;
      unsigned var = (unsigned)(idx % 3);
      idx /= 3;
      unsigned pi = (unsigned)(idx % 20);
      unsigned be = n6exps[idx / 20];
      Dec d;
      uint64_t eb;
      bool einf;
      n4case(be, pi, var, d, eb, einf);
      size_t L = d.G.size();
      size_t zpad = 0;
      if (padTargets[padi]) {
        if (L >= padTargets[padi]) {
          ctx.skip();
          return;
        }
        zpad = padTargets[padi] - L;
      }
      size_t p = (size_t)posi * posStep;
      // always include the "no point" spelling: the last position slot maps to p == L+zpad
      if (posi == NPOS - 1) p = L + zpad;
      if (p > L + zpad) {
        ctx.skip();
        return;
      }
      std::string s = respell(d, zpad, p);
      if (ctx.want_sample) ctx.sample("exp=" + std::to_string(be) + " pattern=" + std::to_string(pi) + " variant=" + std::to_string(var) + " zpad=" + std::to_string(zpad) + " point@" + std::to_string(p) + " : " + s.substr(0, 40) + "..." +
                                      s.substr(s.size() > 20 ? s.size() - 20 : 0));
      ctx.nontriv();
      check_number(s, ctx, true, eb, einf);
    }
  };

  // N7: ordered pairs "parse X, then parse Y" in one thread: the result for Y must not depend on what was
  // parsed before (scratch state of the slow paths).  X: spellings that drive the fallbacks into unusual
  // states (more than 800 digits with a non-zero tail, overflow, underflow, errors); Y: exact ties and
  // other rounding-sensitive spellings.
  {
    std::string tie1 = "1.00000000000000011102230246251565404236316680908203125";
    n7x.push_back(tie1 + std::string(800, '0') + "1");
    n7x.push_back("9" + std::string(900, '9') + "e-600");
    n7x.push_back("0." + std::string(400, '0') + std::string(850, '7'));
    n7x.push_back("1" + std::string(850, '3') + ".5e-851");
    n7x.push_back("1e400");
    n7x.push_back("-1e400");
    n7x.push_back("1e-400");
    n7x.push_back("123456789012345678901234567890123456789e-20");
    n7x.push_back("4.9406564584124654e-324");
    n7x.push_back("2.4703282292062327208828439643411068618252990130716238221279284125033775363510437593264991818081799618989828234772285886546332835517796989819938739800539093906315035659515570226392290858392449105184435931802849936536152500319370457678249219365623669863658480757001585769269903706311928279558551332927834338409351978015531246597263579574622766465272827220056374006485499977096599470454020828166226237857393450736339007967761930577506740176324673600968951340535537458516661134223766678604162159680461914467291840300530057530849048765391711386591646239524912623653881879636239373280423891018672348497668235089863388587925628302755995657524455507255189313690836254779186948667994968324049705821028513185451396213837722826145437693412532098591327667236328125");
    n7x.push_back("1.7976931348623158079372897140530341507993413271003782693617377898044496829276475094664901797758720709633028641669288791094655554785194040263065748867150582068190890200070838367627385484581771153176447573027006985557136695962284291481986083493647529271907416844436551070434271155969950809304288017790417449779e308");
    n7x.push_back("1x");
    n7x.push_back("-");
    n7x.push_back("[1e400]");
    // Y: exact ties (both parities) taken from N4 for a few exponents, plus classics
    for (unsigned be : {1u, 1023u, 1024u, 1075u, 2000u})
      for (unsigned pi : {0u, 1u, 3u, 7u, 10u})
        for (unsigned var = 0; var < 3; var++) {
          Dec d;
          uint64_t eb;
          bool einf;
          n4case(be, pi, var, d, eb, einf);
          n7y.push_back(plain(d));
        }
    for (const char* s : {"9007199254740993", "9007199254740992.5", "1e23", "8.5e22", "0.1", "2.2250738585072011e-308", "1.7976931348623157e308", "4.35", "123456789012345678901234567890", "5e-324", "0.000001"}) n7y.push_back(s);
    n7y.push_back(tie1);
  }
  vr::Family f7;
  f7.name = "N7_history_pairs";
  f7.count = (uint64_t)n7x.size() * n7y.size();
  f7.group = "N7";
  f7.chunk = 16;
  f7.rule = "ordered pairs (X,Y): X (14 spellings that drive the slow paths into unusual states: >800 digits with non-zero tail, overflow, underflow, malformed) is parsed first, then Y (" + std::to_string(n7y.size()) +
            " rounding-sensitive spellings: exact ties of both parities and their neighbours, classics) is checked as usual: the result for Y must not depend on the history";
  // N9: exponents written with 10..39 digits whose value lies within 340 of a power of two / ten at which an
  // accumulator of some width wraps (2^31, 2^32, 2^63, 2^64 and its small multiples, 10^19, 10^20, 2^128)
  vr::Family f9;
  f9.name = "N9_exponent_wraparound";
  f9.count = 10ull * 681 * 6 * 3;
  f9.group = "N9";
  f9.chunk = 256;
  f9.rule = "mantissas {1, 5, 0, 1.5, a 21-digit integer, 0.0001} with exponents B+d for B in {2^31, 2^32, 2^63, 2^64, 2*2^64, 3*2^64, 10^19, 10^20, 10*2^64, 2^128} and d in -340..340, written e / e+ / e-: positive ones overflow (infinity error) unless the mantissa is 0, negative ones give a signed zero";
  vr::Family f8;
  f8.name = "N8_huge_zero_runs";
  f8.count = (uint64_t)n8be.size() * n8pi.size() * 3 * n8z.size() * 3;
  f8.group = "N8";
  f8.chunk = 4;
  f8.rule = "N4 strings (exact tie / below / above) of " + std::to_string(n8be.size()) + " exponents x " + std::to_string(n8pi.size()) + " patterns re-spelled with z zeros for z in {9999..10001, 99999..100001, ... 10^6}: (0) integer mantissa with z trailing zeros and exponent about -z, (1) z trailing fraction zeros, (2) z leading fraction zeros and exponent about +z; expected bits known exactly";
  // N11: the process locale
  {
    std::string self = argv[0];
    size_t sl = self.rfind('/');
    g_have_comma_locale = envl::build_comma_locale((sl == std::string::npos ? std::string(".") : self.substr(0, sl)) + "/locale_comma");
  }
  vr::Family f11;
  f11.name = "N11_process_locale";
  f11.count = (uint64_t)n10be.size() * n10pi.size() * 3 + sizeof kLocaleClassics / sizeof kLocaleClassics[0];
  f11.group = "N11";
  f11.chunk = 32;
  f11.rule = std::string("the same expectations while the PROCESS runs in a locale whose decimal point is ',' (LC_NUMERIC of a private locale compiled with localedef; only the library's Parse call runs under it): exact tie / below / above spellings written d.ddd...e+-x for ") + std::to_string(n10be.size()) + " binary exponents x " + std::to_string(n10pi.size()) + " significand patterns, and 19 classic spellings with a decimal point (subnormal, overflow, long fractions)" + (g_have_comma_locale ? "" : " [SKIPPED: the locale could not be built]");
  vr::Family f10;
  f10.name = "N10_siblings_in_one_document";
  f10.count = (uint64_t)n10be.size() * n10pi.size() * 9 * 2;
  f10.group = "N10";
  f10.chunk = 32;
  f10.rule = "two numbers in ONE document ([x,y] and {\"a\":x,\"b\":-y}): all ordered pairs over the exact tie / one unit below / one unit above spellings of the same midpoint (they share every leading digit and differ only in the last of up to ~770), for " + std::to_string(n10be.size()) + " binary exponents x " + std::to_string(n10pi.size()) + " significand patterns: each must be rounded on its own";
  fams = {f1, f2, f2b, f3, f3b, f4, f5, f6, f7, f8, f9, f10, f11};
  if (asan) {
    // the ASan pass re-runs the structurally interesting families only
    fams = {f1, f2b, f4, f5, f6, f7, f8, f9, f10, f11};
  }
  if (args.replay) {
    std::vector<vr::Family> all = {f1, f2, f2b, f3, f3b, f4, f5, f6, f7, f8, f9, f10, f11};
    return R.replay_one(all, check);
  }
  const std::string only = args.get("only");
  for (auto& f : fams)
    if (only.empty() || only == f.name) R.run(f, check);
  return R.finish();
}
