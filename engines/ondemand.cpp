// Engine ondemand: GetOnDemand / ParseOnDemand.
//   --prop C10 : differential  on-demand lookup == full parse + pointer lookup  (valid texts x paths)
//   --prop C11 : scanning arbitrary unpadded input stays inside the input (exact-size heap block
//                under ASan; guard pages on both sides in the production build)
#include <sys/mman.h>

#include <memory>
#include <set>

#include "common/families.hpp"
#include "common/refjson.hpp"
#include "common/runner.hpp"
#include "common/sonic_cmp.hpp"
#include "sonic/sonic.h"

#if defined(__SANITIZE_ADDRESS__)
#define HAVE_ASAN 1
#else
#define HAVE_ASAN 0
#endif

using namespace sonic_json;

// ---- token alphabet for C10 (keys with escaped spellings, strings holding brackets/quotes) ----
static const std::vector<std::string>& od_tokens() {
  static const std::vector<std::string> t = {"[", "]", "{", "}", ",", ":", "1", "\"a\"", "\"b\"", "\"\\u0061\"", "\"]\\\"{\"", "\"\""};
  return t;
}
static std::vector<std::vector<ref::Step>> od_paths(unsigned depth) {
  std::vector<ref::Step> atoms;
  for (const char* k : {"a", "b", "", "]\"{", "zz"}) {
    ref::Step s;
    s.key = k;
    atoms.push_back(s);
  }
  for (int i : {0, 1, 2, 17, -1}) {
    ref::Step s;
    s.is_num = true;
    s.num = i;
    atoms.push_back(s);
  }
  std::vector<std::vector<ref::Step>> out;
  out.push_back({});
  size_t b = 0;
  for (unsigned d = 1; d <= depth; d++) {
    size_t e = out.size();
    for (size_t i = b; i < e; i++)
      for (auto& a : atoms) {
        auto p = out[i];
        p.push_back(a);
        out.push_back(p);
      }
    b = e;
  }
  return out;
}

struct Guarded {
  // [PROT_NONE page][npages RW][PROT_NONE page]
  uint8_t* base = nullptr;
  size_t npages = 0;
  static constexpr size_t PG = 4096;
  explicit Guarded(size_t np) : npages(np) {
    base = (uint8_t*)mmap(nullptr, (np + 2) * PG, PROT_NONE, MAP_PRIVATE | MAP_ANONYMOUS, -1, 0);
    if (base == MAP_FAILED) {
      perror("mmap");
      exit(2);
    }
    mprotect(base + PG, np * PG, PROT_READ | PROT_WRITE);
  }
  uint8_t* at_end(const std::string& s) {  // last byte of s on the last mapped byte
    uint8_t* p = base + PG + npages * PG - s.size();
    std::memcpy(p, s.data(), s.size());
    return p;
  }
  uint8_t* at_start(const std::string& s) {  // first byte of s right after the leading guard page
    uint8_t* p = base + PG;
    std::memcpy(p, s.data(), s.size());
    return p;
  }
};

struct ExactBuf {
  char* p;
  size_t n;
  explicit ExactBuf(const std::string& s) : n(s.size()) {
    p = (char*)std::malloc(n);
    if (n) std::memcpy(p, s.data(), n);
  }
  ~ExactBuf() { std::free(p); }
};

// ---------------------------------------------------------------- C10
struct C10Stats {
  uint64_t hits = 0, misses = 0;
};
static void c10_text(const std::string& text, const ref::Value& rv, const std::vector<std::vector<ref::Step>>& paths,
                     const std::vector<JsonPointer>& jps, const std::vector<ref::Step>& prefix, const JsonPointer& jprefix, vr::Ctx& ctx) {
  ExactBuf b(text);
  StringView json(b.p, b.n);
  Document doc;
  doc.Parse(b.p, b.n);
  if (doc.HasParseError()) {
    ctx.violation("rejects_valid", "rejects_valid", text, "valid text rejected by Parse (code %d)", (int)doc.GetParseError());
    return;
  }
  for (size_t pi = 0; pi < paths.size(); pi++) {
    std::vector<ref::Step> full = prefix;
    full.insert(full.end(), paths[pi].begin(), paths[pi].end());
    JsonPointer jp = jprefix / jps[pi];
    const ref::Value* rr = ref::at(rv, full);
    const Node* r = doc.AtPointer(jp);
    ctx.eval();
    std::string where = text + "  path " + fam::show_path(full);
    if ((r != nullptr) != (rr != nullptr)) {
      ctx.violation("atpointer_vs_reference", "atpointer_vs_reference", where, "AtPointer %s but reference lookup %s", r ? "resolves" : "does not resolve", rr ? "resolves" : "does not resolve");
      continue;
    }
    if (r) {
      std::string d = sc::compare(*r, *rr);
      if (!d.empty()) {
        ctx.violation("atpointer_value", "atpointer_value", where, "AtPointer value differs from reference: %s", d.c_str());
        continue;
      }
    }
    StringView target("garbage-before-call");
    ParseResult res = GetOnDemand(json, jp, target);
    Document od;
    od.ParseOnDemand(b.p, b.n, jp);
    {
      // in/out aliasing: the caller passes ONE StringView object as the text and as the result slot (descending a path
      // step by step: GetOnDemand(cur, step, cur)); the text is taken by value, so this is well defined
      StringView cur = json;
      ParseResult ra = GetOnDemand(cur, jp, cur);
      bool same = (ra.Error() == kErrorNone) == (res.Error() == kErrorNone) && (ra.Error() != kErrorNone ? cur.empty() : (cur.data() == target.data() && cur.size() == target.size()));
      if (!same)
        ctx.violation("inout_alias", "ondemand_inout_alias_differs", where, "GetOnDemand(v, path, v) gives error %d slice size %zu, with separate objects error %d slice size %zu", (int)ra.Error(), cur.size(), (int)res.Error(), target.size());
    }
    {
      // the same path as a JsonPointerView (keys are StringViews: slices of longer buffers, not NUL-terminated):
      // every entry point must give exactly the result it gives for the std::string pointer
      std::vector<std::string> kb;
      kb.reserve(full.size());
      JsonPointerView jv;
      for (auto& st : full) {
        if (st.is_num)
          jv /= JsonPointerNodeView(st.num);
        else {
          kb.push_back("\x7f" + st.key + "\x7f\"");
          jv /= JsonPointerNodeView(StringView(kb.back().data() + 1, st.key.size()));
        }
      }
      StringView t2("garbage-before-call");
      ParseResult res2 = GetOnDemand(json, jv, t2);
      if ((res2.Error() == kErrorNone) != (res.Error() == kErrorNone) || t2.data() != target.data() || t2.size() != target.size() || (res.Error() == kErrorNone && res2.Offset() != res.Offset()))
        ctx.violation("pointer_view_differs", "ondemand_pointer_view_differs", where, "GetOnDemand with a JsonPointerView gives error %d slice [%td,+%zu) but error %d slice [%td,+%zu) with the JsonPointer", (int)res2.Error(),
                      t2.data() - b.p, t2.size(), (int)res.Error(), target.data() - b.p, target.size());
      if (doc.AtPointer(jv) != r) ctx.violation("pointer_view_differs", "atpointer_pointer_view_differs", where, "AtPointer with a JsonPointerView resolves differently from the JsonPointer");
      Document od2;
      od2.ParseOnDemand(b.p, b.n, jv);
      if (od2.HasParseError() != od.HasParseError() || od2.Dump() != od.Dump())  // (not ==: texts may hold duplicate keys)
        ctx.violation("pointer_view_differs", "parseondemand_pointer_view_differs", where, "ParseOnDemand with a JsonPointerView: error %d, with the JsonPointer: error %d, or different documents", (int)od2.GetParseError(), (int)od.GetParseError());
    }
    if (r) {
      ctx.nontriv();
      ctx.count(0);
      if (res.Error() != kErrorNone) {
        ctx.violation("ondemand_miss", "ondemand_miss", where, "path resolves in the parsed document but GetOnDemand failed with code %d at %zu", (int)res.Error(), res.Offset());
        continue;
      }
      if (target.data() < b.p || target.data() + target.size() > b.p + b.n) {
        ctx.violation("slice_outside", "slice_outside", where, "returned slice [%td,+%zu) lies outside the input of length %zu", target.data() - b.p, target.size(), b.n);
        continue;
      }
      if (res.Offset() > b.n) ctx.violation("offset_gt_len", "offset_gt_len", where, "offset %zu > len %zu", res.Offset(), b.n);
      std::string slice(target.data(), target.size());
      ref::Result pr = ref::parse(slice);
      if (!pr.ok || !ref::identical(pr.v, *rr)) {
        ctx.violation("slice_value", "slice_value", where, "slice %s does not parse to the value found by AtPointer (%s)", slice.c_str(), ref::show(*rr).c_str());
        continue;
      }
      if (od.HasParseError()) {
        ctx.violation("parseondemand_error", "parseondemand_error", where, "ParseOnDemand reports code %d although the path resolves", (int)od.GetParseError());
        continue;
      }
      std::string d = sc::compare(od, *rr);
      if (!d.empty()) ctx.violation("parseondemand_value", "parseondemand_value", where, "ParseOnDemand document differs: %s", d.c_str());
    } else {
      // a miss is non-trivial when at least its first step has the kind of the root container
      if (!full.empty() && ((rv.k == ref::Obj && !full[0].is_num) || (rv.k == ref::Arr && full[0].is_num))) ctx.nontriv();
      ctx.count(1);
      if (res.Error() == kErrorNone) {
        ctx.violation("ondemand_false_hit", "ondemand_false_hit", where, "path does not resolve but GetOnDemand succeeded with slice '%.*s'", (int)std::min<size_t>(target.size(), 60), target.data());
        continue;
      }
      if (!target.empty()) ctx.violation("miss_target_not_empty", "miss_target_not_empty", where, "error %d but target slice not empty (size %zu)", (int)res.Error(), target.size());
      if (!od.HasParseError() || !od.IsNull())
        ctx.violation("parseondemand_false_hit", "parseondemand_false_hit", where, "ParseOnDemand: error=%d isnull=%d although the path does not resolve", (int)od.GetParseError(), (int)od.IsNull());
    }
  }
}

// ---------------------------------------------------------------- C11
struct C11Res {
  int err;
  size_t off, sbeg, slen;
  bool operator==(const C11Res& o) const { return err == o.err && (err != 0 || (off == o.off && sbeg == o.sbeg && slen == o.slen)); }
};
static C11Res c11_call(const uint8_t* data, size_t n, const JsonPointer& jp, const std::string& text, const char* place, vr::Ctx& ctx, bool also_doc) {
  StringView json((const char*)data, n);
  StringView target("garbage-before-call");
  ParseResult res = GetOnDemand(json, jp, target);
  C11Res out{(int)res.Error(), res.Offset(), res.Error() == kErrorNone ? (size_t)(target.data() - (const char*)data) : 0, target.size()};
  ctx.eval();
  const char* lo = (const char*)data;
  const char* hi = lo + n;
  if (res.Error() == kErrorNone) {
    ctx.count(0);
    if (target.data() < lo || target.data() > hi || target.size() > (size_t)(hi - target.data()))
      ctx.violation("slice_outside", "slice_outside", text, "[%s] success but slice [%td,+%zu) is not a sub-range of the %zu-byte input", place, target.data() - lo, target.size(), n);
    if (res.Offset() > n) ctx.violation("offset_gt_len", "offset_gt_len", text, "[%s] success but offset %zu > len %zu", place, res.Offset(), n);
  } else {
    ctx.count(1);
    if (!target.empty()) ctx.violation("error_target_not_empty", "error_target_not_empty", text, "[%s] error %d but target not empty", place, (int)res.Error());
  }
  if (also_doc) {
    Document od;
    od.ParseOnDemand((const char*)data, n, jp);
    if (od.HasParseError() && !od.IsNull()) ctx.violation("ondemand_doc_not_null", "ondemand_doc_not_null", text, "[%s] ParseOnDemand failed (code %d) but document not null", place, (int)od.GetParseError());
  }
  return out;
}
// The input as a VIEW into a longer readable buffer (a prefix of a larger document, a field of a message): the bytes
// that follow it - quotes, closers, openers, backslashes, digits - are not input; the outcome must be the one obtained
// when nothing readable follows, and must stay inside the view.
static const char* kTails[4] = {"\"\"\"\"\"\"\"\"\"\"\"\"\"\"\"\"\"\"\"\"\"\"\"\"\"\"\"\"\"\"\"\"\"\"\"\"\"\"\"\"\"\"\"\"\"\"\"\"\"\"\"\"\"\"\"\"\"\"\"\"\"\"\"\"\"\"\"\"\"\"\"\"",
                                "2]}]}\"2,3]}]}]}\"2]}]}\"2,3]}]}]}\"2]}]}\"2,3]}]}]}\"2]}]}\"2,3]}]}]}\"2]}]}\"2,3]}",
                                "\\\\\\\\\\\\\\\\\\\\\\\\\\\\\\\\\\\\\\\\\\\\\\\\\\\\\\\\\\\\\\\\\\\\\\\\\\\\\\\\\\\\\\\\\\\\\\\\\\\\\\\\",
                                "[{\"a\":[{\"a\":[{\"a\":[{\"a\":[{\"a\":[{\"a\":[{\"a\":[{\"a\":[{\"a\":[{\"a\":[{\"a\":[{\"a\":"};
static void c11_views(const std::string& text, const JsonPointer& jp, size_t pi, const C11Res& alone, uint8_t* scratch, vr::Ctx& ctx) {
  // tails 0,1 (quotes; closers and digits) for every 4th path, tails 2,3 (backslashes; openers) for every 16th
  for (int t = 0; t < 4; t++) {
    if (t < 2 ? pi % 4 != 0 : pi % 16 != 1) continue;
    const size_t tl = std::strlen(kTails[t]);
    std::memcpy(scratch, text.data(), text.size());
    std::memcpy(scratch + text.size(), kTails[t], tl);
    char place[32];
    snprintf(place, sizeof place, "view+tail%d", t);
    C11Res r = c11_call(scratch, text.size(), jp, text, place, ctx, false);
    if (!(r == alone))
      ctx.violation("tail_influence", "ondemand_tail_influence", text, "[%s] outcome depends on the bytes BEHIND the input: error %d offset %zu slice [%zu,+%zu) with the tail, error %d offset %zu slice [%zu,+%zu) without", place, r.err,
                    r.off, r.sbeg, r.slen, alone.err, alone.off, alone.sbeg, alone.slen);
  }
}

// The input at a start address that is NOT a multiple of 8 / 16 (a field inside a message, a string_view into a
// larger buffer): every offset k = 1..7 from an aligned address; under ASan the block ends exactly with the input,
// otherwise closers and digits follow. The outcome must be the one of the aligned exact-size placement.
static void c11_misaligned(const std::string& text, const JsonPointer& jp, const C11Res& alone, uint8_t* scratch, vr::Ctx& ctx) {
  for (unsigned k = 1; k <= 7; k++) {
    char place[40];
#if HAVE_ASAN
    uint8_t* blk = (uint8_t*)std::malloc(k + text.size());
    std::memcpy(blk + k, text.data(), text.size());
    snprintf(place, sizeof place, "heap block, start offset %u", k);
    C11Res r = c11_call(blk + k, text.size(), jp, text, place, ctx, false);
    std::free(blk);
#else
    const size_t tl = std::strlen(kTails[1]);
    std::memcpy(scratch + k, text.data(), text.size());
    std::memcpy(scratch + k + text.size(), kTails[1], tl);
    snprintf(place, sizeof place, "view at offset %u + tail1", k);
    C11Res r = c11_call(scratch + k, text.size(), jp, text, place, ctx, false);
#endif
    if (!(r == alone))
      ctx.violation("start_address_influence", "ondemand_start_address_influence", text, "[%s] outcome depends on the start address of the input: error %d offset %zu slice [%zu,+%zu), aligned: error %d offset %zu slice [%zu,+%zu)", place,
                    r.err, r.off, r.sbeg, r.slen, alone.err, alone.off, alone.sbeg, alone.slen);
  }
}

int main(int argc, char** argv) {
  vr::Args args = vr::parse_args(argc, argv);
  vr::Runner R(args);
  const bool quick = R.quick();
  const std::string prop = args.prop;
  std::vector<vr::Family> fams;
  vr::CheckFn check;

  // shared state
  const unsigned pdepth = (prop == "C10") ? 2 : 2;
  auto paths = od_paths(pdepth);
  std::vector<JsonPointer> jps;
  for (auto& p : paths) jps.push_back(sc::to_pointer(p));
  auto paths3 = od_paths(3);
  std::vector<JsonPointer> jps3;
  for (auto& p : paths3) jps3.push_back(sc::to_pointer(p));

  std::vector<fam::TextFamily> tf;
  std::map<std::string, const fam::TextFamily*> byname;
  std::shared_ptr<std::vector<std::string>> obbase(new std::vector<std::string>());
  std::shared_ptr<std::vector<ref::Value>> obval(new std::vector<ref::Value>());
  Guarded guard(2);
  std::shared_ptr<std::vector<std::string>> odtexts(new std::vector<std::string>());

  if (prop == "C10") {
    const unsigned n = quick ? 10 : 12;
    {
      std::vector<std::string> leaves(od_tokens().begin() + 6, od_tokens().end());
      std::vector<std::string> keys(od_tokens().begin() + 7, od_tokens().end());
      *odtexts = fam::valid_texts_by_budget(n, leaves, keys);
    }
    vr::Family f1;
    f1.name = "OD_valid_le" + std::to_string(n) + "tok";
    f1.count = odtexts->size();
    f1.group = "OD";
    f1.chunk = 64;
    f1.rule = "every valid JSON text of <= " + std::to_string(n) + " tokens over leaves {1,\"a\",\"b\",<escaped spelling of a>,\"]\\\"{\",\"\"} and keys {a,b,<escaped a>,]\"{,''} (generated by grammar: all shapes incl. empty containers, duplicate keys, escaped keys), each against every pointer path of depth <= 2 (thorough: 3) over keys {a,b,'',]\"{,zz} and indices {0,1,2,17,-1}; non-trivial: the path resolves, or it misses although its first step has the kind of the root container";
    fams.push_back(f1);
    // OB: block placement.  base = valid OD texts of <= 5 tokens; wrapped behind a string member of n bytes
    {
      std::vector<std::string> leaves(od_tokens().begin() + 6, od_tokens().end());
      std::vector<std::string> keys(od_tokens().begin() + 7, od_tokens().end());
      for (auto& t : fam::valid_texts_by_budget(HAVE_ASAN ? (quick ? 5 : 7) : (quick ? 7 : 9), leaves, keys)) {
        obbase->push_back(t);
        obval->push_back(ref::parse(t).v);
      }
      for (const char* s : {"{\"a\":{\"b\":[1,\"]\",{\"a\":\"x\\\\\"}]},\"b\":\"\\\"}\"}", "[[1,2],{\"a\":[{\"b\":\"[\"}]},\"a\\\"]\"]", "{\"b\":1,\"a\":2,\"a\":3}"}) {
        obbase->push_back(s);
        obval->push_back(ref::parse(s).v);
      }
    }
    vr::Family f2;
    const unsigned NN = quick ? 72 : 135;
    static const unsigned pads_q[] = {0, 1, 33, 64};
    static const unsigned pads_t[] = {0, 1, 2, 31, 32, 33, 63, 64, 65, 66, 67};
    const unsigned NP = quick ? 4 : 11;
    f2.name = "OB_block_placement";
    f2.count = (uint64_t)obbase->size() * NN * 2 * NP;
    f2.group = "OB";
    f2.chunk = 256;
    f2.rule = "block placement: each of " + std::to_string(obbase->size()) + " valid base texts wrapped as [\"x^n\",T] and {\"p\":\"x^n\",\"k\":T} for n in 0.." + std::to_string(NN - 1) +
              " (every alignment of T to the 32/64-byte scanning blocks) with trailing whitespace pads, against the prefixed paths";
    fams.push_back(f2);
    // leading whitespace family
    vr::Family f3;
    f3.name = "OS_leading_space";
    f3.count = (uint64_t)obbase->size() * 140;
    f3.group = "OS";
    f3.chunk = 256;
    f3.rule = "each base text preceded by k in 0..139 spaces and with k%7 spaces after every comma/colon";
    fams.push_back(f3);

    // OW: shape-bounded valid texts (<= 2 children per container, nesting depth <= 2, empty containers below)
    // x all paths of depth <= 3: two-member objects/arrays nested in two-member containers
    static std::shared_ptr<std::vector<std::string>> owtexts(new std::vector<std::string>());
    {
      std::vector<std::string> lv = {"1", "{}", "\"]\\\"{\""};
      if (!quick && !HAVE_ASAN) lv.push_back("[]");
      auto containers = [](const std::vector<std::string>& S) {
        std::vector<std::string> out = {"[]", "{}"};
        for (auto& x : S) out.push_back("[" + x + "]");
        for (auto& x : S)
          for (auto& y : S) out.push_back("[" + x + "," + y + "]");
        for (const char* k : {"\"a\"", "\"b\""})
          for (auto& x : S) out.push_back(std::string("{") + k + ":" + x + "}");
        for (int o = 0; o < 3; o++)
          for (auto& x : S)
            for (auto& y : S) out.push_back(std::string("{") + (o == 1 ? "\"b\"" : "\"a\"") + ":" + x + "," + (o == 0 ? "\"b\"" : "\"a\"") + ":" + y + "}");  // o==2: duplicate key a,a
        return out;
      };
      std::set<std::string> seen;
      std::vector<std::string> v1 = lv;
      for (auto& c : containers(lv)) v1.push_back(c);
      std::vector<std::string> all = lv;
      for (auto& c : containers(v1)) all.push_back(c);
      for (auto& x : all)
        if (seen.insert(x).second) owtexts->push_back(x);
    }
    vr::Family f5;
    f5.name = "OW_shape_depth2";
    f5.count = owtexts->size();
    f5.group = "OW";
    f5.chunk = 16;
    f5.rule = "every value with <= 2 children per container and nesting depth <= 2 (leaves 1, {}, a string holding ] \" {; keys a,b in both orders and duplicated) x all paths of depth <= 3";
    fams.push_back(f5);
    // OG: whitespace in EVERY gap between tokens (also right after an opening and right before a closing bracket,
    // and inside empty containers) of every shape-bounded text
    static const unsigned OG_MAXGAPS = 40, OG_NR = 6;
    vr::Family f7;
    f7.name = "OG_every_gap";
    f7.count = (uint64_t)owtexts->size() * (OG_MAXGAPS + 1) * OG_NR;
    f7.group = "OG";
    f7.chunk = 64;
    f7.rule = "every shape-bounded text (as OW) with a run of r in {1,2,3,5,63,64} whitespace bytes (space, LF, TAB, CR cycling) in one gap g between two tokens - every gap, including the inside of empty containers, after opening and before closing brackets, and the two ends - or in all gaps at once; x all paths of depth <= 2 (thorough production build: <= 3)";
    if (!(HAVE_ASAN && quick)) fams.push_back(f7);  // results, not memory: the quick ASan pass leaves it to the two production builds
    // ON: the TARGET of the lookup is a number or literal in every spelling class (the scanner has its own way of
    // finding the end of a scalar), in 6 surroundings
    static const char* kScalars[] = {"0", "-0", "1", "-1", "12", "1.5", "-1.5", "0.25", "1e5", "1E5", "1e+5", "1E+5", "1e-5", "1E-5", "4E2", "6E-1", "0.25E+2", "12E3", "-0.0", "-0e0", "0E0", "1.0e0", "1.0E+0",
                                     "123456789012345678", "18446744073709551615", "18446744073709551616", "-9223372036854775808", "1.7976931348623157e308", "1.7976931348623157E308", "4.9e-324", "4.9E-324", "5e-324",
                                     "123456789012345678901234567890", "0.000000000000000000000000000001", "1e0", "1E0", "-1E-0", "2.5e+00", "2.5E+00", "true", "false", "null", "\"\"", "\"e\"", "\"E\""};
    static const unsigned ON_NS = sizeof(kScalars) / sizeof(kScalars[0]);
    vr::Family f8;
    f8.name = "ON_scalar_targets";
    f8.count = (uint64_t)ON_NS * 6 * 72;
    f8.group = "ON";
    f8.chunk = 64;
    f8.rule = std::to_string(ON_NS) + " scalar spellings (integers, fractions, exponents written e / E / with + and -, signed zeros, extremes, literals) as the value the path leads to, in 6 surroundings (root; only element; element followed by others; member value last / followed by another member; nested), after 0..71 leading spaces; x all paths of depth <= 2";
    fams.push_back(f8);
    // OL: a long container that must be SKIPPED, holding one special item at every offset: the lookups of the
    // member / element that follows it must still succeed (string-mask carries across 64-byte blocks)
    vr::Family f6;
    f6.name = "OL_skip_long_container";
    f6.count = 150ull * 8 * 4;
    f6.group = "OL";
    f6.chunk = 32;
    f6.rule = "texts [C,7] / {\"a\":C,\"b\":7} / [[C],7] / {\"a\":{\"z\":C},\"b\":7} where C is an array or object padded with n in 0..149 digits before one special item (string holding an escaped quote, string holding brackets, nested empty containers, escaped backslash + quote, long string, deeper nesting): every position of the special relative to the 32/64-byte blocks of the skipper";
    fams.push_back(f6);
    static const char* kSpecial[8] = {"\"\\\"\"", "\"]}[{\"", "[]", "{}", "\"\\\\\"", "\"q\\\\\\\"]\"", "[[\"]\"],{\"k\":\"}\"}]", "\"\\u005c\\\"\""};
    // OK: long keys with an escape at every offset relative to the vector blocks
    vr::Family f4;
    f4.name = "OK_long_escaped_keys";
    f4.count = 71ull * 71 * 5;
    f4.group = "OK";
    f4.chunk = 128;
    f4.rule = "objects whose first key is x^p ESC y^q (p,q in 0..70, ESC in {\\u0041, \\/, \\n, \\\", \\\\}) followed by other members: lookups by the decoded key, below it, of the following member, and by near-miss keys";
    fams.push_back(f4);
    // OK2: the same with VERY long keys (beyond any fixed-size scratch buffer): total length T around 256, every T in
    // 440..560, around 1024, 4096, 65536; escape at the start, in the middle, at the end
    static std::vector<std::pair<uint32_t, uint32_t>> OK2;
    {
      std::vector<uint32_t> Ts;
      for (uint32_t t = 250; t <= 262; t++) Ts.push_back(t);
      for (uint32_t t = 440; t <= 560; t++) Ts.push_back(t);
      for (uint32_t b : {1024u, 2048u, 4096u, 16384u, 65536u})
        for (int d = -8; d <= 8; d++) Ts.push_back(b + d);
      for (uint32_t T : Ts)
        for (uint32_t pp : {0u, 1u, 31u, T / 2, T - 33, T - 1, T}) OK2.push_back({pp, T - pp});
    }
    vr::Family f4b;
    f4b.name = "OK2_very_long_escaped_keys";
    f4b.count = (uint64_t)OK2.size() * 5;
    f4b.group = "OK2";
    f4b.chunk = 16;
    f4b.rule = "as OK with keys of total length T in 250..262, every T in 440..560, and +-8 around 1024, 2048, 4096, 16384, 65536; the escape after 0, 1, 31, T/2, T-33, T-1, T plain bytes";
    fams.push_back(f4b);
    // OX: the logarithmic tail of the three size-like quantities of a lookup: WIDTH of a container that is indexed or
    // skipped, DEPTH of a value that is skipped or descended into, LENGTH of a string that is skipped or returned
    struct OxCase {
      int kind;  // 0 wide array of numbers, 1 wide array of small objects, 2 wide object, 3 deep arrays, 4 deep objects, 5 long string
      uint32_t a, b;
    };
    static std::vector<OxCase> OX;
    if (OX.empty()) {
      for (uint32_t k = 4; k <= (quick ? 14u : 16u); k++)
        for (int d = -1; d <= 1; d++)
          for (int kind = 0; kind < 3; kind++) OX.push_back({kind, (1u << k) + d, 0});
      std::vector<uint32_t> ds;
      for (uint32_t d = 0; d <= 70; d++) ds.push_back(d);
      for (uint32_t b : {128u, 256u, 1024u})
        for (int d = -1; d <= 1; d++) ds.push_back(b + d);
      for (uint32_t d : ds)
        for (int kind = 3; kind < 5; kind++) OX.push_back({kind, d, 0});
      std::vector<uint32_t> Ts;
      for (uint32_t t = 250; t <= 262; t++) Ts.push_back(t);
      for (uint32_t t = 440; t <= 560; t += 3) Ts.push_back(t);
      for (uint32_t b : {1024u, 4096u, 65536u})
        for (int d = -1; d <= 1; d++) Ts.push_back(b + d);
      for (uint32_t T : Ts)
        for (uint32_t pp : {0u, 1u, 31u, T / 2, T - 33, T - 1}) OX.push_back({5, T, pp});
    }
    vr::Family f9;
    f9.name = "OX_wide_deep_long";
    f9.count = OX.size();
    f9.group = "OX";
    f9.chunk = 4;
    f9.rule = "width: arrays of n numbers / n small objects and objects of n members, n = 2^k-1, 2^k, 2^k+1 for k = 4..14 (thorough 16), as the root and as a member that has to be skipped, looked up at indices 0, 1, n/2, n-2, n-1, n, n+1 / keys k0, k(n/2), k(n-1), kn; depth: d nested arrays / objects for every d in 0..70 and 127..129, 255..257, 1023..1025, skipped and descended into completely; length: strings of T bytes (250..262, 440..560 step 3, +-1 around 1024, 4096, 65536) holding an escaped quote after 0, 1, 31, T/2, T-33, T-1 bytes, skipped and returned";
    fams.push_back(f9);
    static const char* kEsc[5] = {"\\u0041", "\\/", "\\n", "\\\"", "\\\\"};
    static const char* kDec[5] = {"A", "/", "\n", "\"", "\\"};
    check = [&, NN, NP](const vr::Family& f, uint64_t idx, vr::Ctx& ctx) {
      if (f.name[1] == 'X') {
        const OxCase& c = OX[idx];
        auto key = [](const std::string& k) {
          ref::Step st;
          st.key = k;
          return st;
        };
        auto num = [](int i) {
          ref::Step st;
          st.is_num = true;
          st.num = i;
          return st;
        };
        std::string inner;
        std::vector<std::vector<ref::Step>> ip;  // paths inside the value under test
        if (c.kind <= 2) {
          const uint32_t n = c.a;
          inner.reserve((size_t)n * 14 + 2);
          inner = c.kind == 2 ? "{" : "[";
          for (uint32_t i = 0; i < n; i++) {
            if (i) inner += ",";
            if (c.kind == 0)
              inner += std::to_string(i);
            else if (c.kind == 1)
              inner += "{\"k\":" + std::to_string(i) + "}";
            else
              inner += "\"k" + std::to_string(i) + "\":" + std::to_string(i);
          }
          inner += c.kind == 2 ? "}" : "]";
          if (c.kind == 2) {
            for (uint32_t i : {0u, n / 2, n - 1, n}) ip.push_back({key("k" + std::to_string(i))});
          } else {
            for (int i : {0, 1, (int)(n / 2), (int)n - 2, (int)n - 1, (int)n, (int)n + 1})
              if (i >= 0) ip.push_back(c.kind == 1 ? std::vector<ref::Step>{num(i), key("k")} : std::vector<ref::Step>{num(i)});
          }
        } else if (c.kind <= 4) {
          const uint32_t d = c.a;
          std::vector<ref::Step> down;
          for (uint32_t i = 0; i < d; i++) {
            inner += c.kind == 3 ? "[" : "{\"a\":";
            down.push_back(c.kind == 3 ? num(0) : key("a"));
          }
          inner += "5";
          for (uint32_t i = 0; i < d; i++) inner += c.kind == 3 ? "]" : "}";
          ip.push_back(down);
          if (d) {
            std::vector<ref::Step> part(down.begin(), down.begin() + d / 2);
            ip.push_back(part);
            std::vector<ref::Step> over = down;
            over.push_back(c.kind == 3 ? num(0) : key("a"));
            ip.push_back(over);
            std::vector<ref::Step> miss = down;
            miss.back() = c.kind == 3 ? num(1) : key("b");
            ip.push_back(miss);
          }
        } else {
          const uint32_t T = c.a, pp = c.b;
          inner = "\"" + std::string(pp, 'x') + "\\\"" + std::string(T - pp, 'y') + "\"";
          ip.push_back({});
        }
        // three surroundings: the value alone; as first element followed by 7; as first member followed by "b":7
        for (int sur = 0; sur < 3; sur++) {
          std::string text = sur == 0 ? inner : sur == 1 ? "[" + inner + ",7]" : "{\"a\":" + inner + ",\"b\":7}";
          ref::Result r = ref::parse(text);
          if (!r.ok) {
            ctx.violation("generator_invalid", "generator_invalid", text.substr(0, 200), "harness error: generated text is not valid");
            return;
          }
          if (ctx.want_sample) ctx.sample("kind " + std::to_string(c.kind) + " a=" + std::to_string(c.a) + " b=" + std::to_string(c.b));
          std::vector<std::vector<ref::Step>> ps;
          for (auto& q : ip) {
            std::vector<ref::Step> full;
            if (sur == 1) full.push_back(num(0));
            if (sur == 2) full.push_back(key("a"));
            full.insert(full.end(), q.begin(), q.end());
            ps.push_back(full);
          }
          if (sur == 1) ps.push_back({num(1)});
          if (sur == 2) ps.push_back({key("b")});
          std::vector<JsonPointer> pj;
          for (auto& x : ps) pj.push_back(sc::to_pointer(x));
          static const std::vector<ref::Step> nopre;
          static const JsonPointer nojp;
          c10_text(text, r.v, ps, pj, nopre, nojp, ctx);
        }
        return;
      }
      if (f.name[1] == 'L') {
        unsigned wrap = (unsigned)(idx % 4);
        idx /= 4;
        unsigned sp = (unsigned)(idx % 8);
        unsigned n = (unsigned)(idx / 8);
        std::string pad(n, '1');
        std::string C = (sp % 2 == 0) ? "[" + (n ? pad + "," : std::string()) + kSpecial[sp] + ",2]" : "{\"p\":" + (n ? pad : std::string("0")) + ",\"q\":" + kSpecial[sp] + ",\"r\":2}";
        std::string text = wrap == 0 ? "[" + C + ",7]" : wrap == 1 ? "{\"a\":" + C + ",\"b\":7}" : wrap == 2 ? "[[" + C + "],7]" : "{\"a\":{\"z\":" + C + "},\"b\":7}";
        ref::Result r = ref::parse(text);
        if (!r.ok) {
          ctx.violation("generator_invalid", "generator_invalid", text, "harness error: generated text is not valid");
          return;
        }
        if (ctx.want_sample) ctx.sample(text);
        static const std::vector<ref::Step> nopre;
        static const JsonPointer nojp;
        c10_text(text, r.v, paths, jps, nopre, nojp, ctx);
        return;
      }
      if (f.name[1] == 'N') {
        unsigned lead = (unsigned)(idx % 72);
        idx /= 72;
        unsigned sur = (unsigned)(idx % 6);
        const char* n = kScalars[idx / 6];
        std::string N = n;
        std::string t = sur == 0 ? N : sur == 1 ? "[" + N + "]" : sur == 2 ? "[" + N + ",7,[1]]" : sur == 3 ? "{\"a\":" + N + "}" : sur == 4 ? "{\"a\":" + N + ",\"b\":[" + N + "," + N + "]}" : "{\"b\":{\"a\":" + N + "},\"a\":[0," + N + "]}";
        std::string s2 = std::string(lead, ' ') + t;
        ref::Result r2 = ref::parse(s2);
        if (!r2.ok) {
          ctx.violation("generator_invalid", "generator_invalid", s2, "harness error: generated text is not valid");
          return;
        }
        if (ctx.want_sample) ctx.sample(s2);
        static const std::vector<ref::Step> nopre;
        static const JsonPointer nojp;
        c10_text(s2, r2.v, paths, jps, nopre, nojp, ctx);
        return;
      }
      if (f.name[1] == 'G') {
        static const unsigned rs[OG_NR] = {1, 2, 3, 5, 63, 64};
        unsigned r = rs[idx % OG_NR];
        if (HAVE_ASAN && r != 1 && r != 64) {
          ctx.skip();
          return;
        }
        idx /= OG_NR;
        unsigned g = (unsigned)(idx % (OG_MAXGAPS + 1));  // OG_MAXGAPS: all gaps
        const std::string& t = (*owtexts)[idx / (OG_MAXGAPS + 1)];
        // token boundaries of t (strings are atomic)
        std::vector<size_t> cut = {0};
        for (size_t i = 0; i < t.size();) {
          if (t[i] == '"') {
            size_t j = i + 1;
            while (t[j] != '"') j += t[j] == '\\' ? 2 : 1;
            i = j + 1;
          } else if (strchr("[]{},:", t[i]))
            i++;
          else
            while (i < t.size() && !strchr("[]{},:\"", t[i])) i++;
          cut.push_back(i);
        }
        // gaps: positions cut[0..m] (m+1 gaps incl. both ends)
        size_t ngaps = cut.size();
        if (ngaps > OG_MAXGAPS) {
          ctx.violation("generator_invalid", "generator_invalid", t, "harness error: more than %u gaps", OG_MAXGAPS);
          return;
        }
        if (g < OG_MAXGAPS && g >= ngaps) {
          ctx.skip();
          return;
        }
        auto ws = [&](unsigned salt) {
          std::string w;
          for (unsigned i = 0; i < r; i++) w.push_back(" \n\t\r"[(i + salt) % 4]);
          return w;
        };
        std::string s2;
        for (size_t k = 0; k < cut.size(); k++) {
          if (g == OG_MAXGAPS || g == k) s2 += ws((unsigned)k);
          if (k + 1 < cut.size()) s2 += t.substr(cut[k], cut[k + 1] - cut[k]);
        }
        ref::Result r2 = ref::parse(s2);
        if (!r2.ok) {
          ctx.violation("generator_invalid", "generator_invalid", s2, "harness error: generated text is not valid");
          return;
        }
        if (ctx.want_sample) ctx.sample(s2);
        static const std::vector<ref::Step> nopre;
        static const JsonPointer nojp;
        if (quick || HAVE_ASAN)
          c10_text(s2, r2.v, paths, jps, nopre, nojp, ctx);
        else
          c10_text(s2, r2.v, paths3, jps3, nopre, nojp, ctx);
        return;
      }
      if (f.name[1] == 'W') {
        const std::string& s = (*owtexts)[idx];
        ref::Result r = ref::parse(s);
        if (!r.ok) {
          ctx.violation("generator_invalid", "generator_invalid", s, "harness error: generated text is not valid");
          return;
        }
        if (ctx.want_sample) ctx.sample(s);
        static const std::vector<ref::Step> nopre;
        static const JsonPointer nojp;
        c10_text(s, r.v, paths3, jps3, nopre, nojp, ctx);
        return;
      }
      if (f.name[1] == 'K') {
        unsigned ek = (unsigned)(idx % 5);
        idx /= 5;
        unsigned q, p;
        if (f.name[2] == '2') {
          p = OK2[idx].first;
          q = OK2[idx].second;
        } else {
          q = (unsigned)(idx % 71);
          p = (unsigned)(idx / 71);
        }
        std::string K = std::string(p, 'x') + kDec[ek] + std::string(q, 'y');
        std::string text = "{\"" + std::string(p, 'x') + kEsc[ek] + std::string(q, 'y') + "\":[1,{\"x\":2}],\"b\":3}";
        ref::Result r = ref::parse(text);
        if (!r.ok) {
          ctx.violation("generator_invalid", "generator_invalid", text, "harness error: generated text is not valid");
          return;
        }
        if (ctx.want_sample) ctx.sample(text);
        std::vector<std::vector<ref::Step>> ps;
        auto key = [](const std::string& k) {
          ref::Step st;
          st.key = k;
          return st;
        };
        auto num = [](int i) {
          ref::Step st;
          st.is_num = true;
          st.num = i;
          return st;
        };
        ps.push_back({key(K)});
        ps.push_back({key(K), num(1), key("x")});
        ps.push_back({key("b")});
        ps.push_back({key(K + "#")});
        ps.push_back({key(std::string(p, 'x') + kEsc[ek] + std::string(q, 'y'))});  // the raw spelling is a different key
        ps.push_back({key(K.substr(0, K.size() ? K.size() - 1 : 0))});
        std::vector<JsonPointer> pj;
        for (auto& x : ps) pj.push_back(sc::to_pointer(x));
        static const std::vector<ref::Step> nopre;
        static const JsonPointer nojp;
        c10_text(text, r.v, ps, pj, nopre, nojp, ctx);
        return;
      }
      if (f.name[1] == 'D') {
        const std::string& s = (*odtexts)[idx];
        ref::Result r = ref::parse(s);
        if (!r.ok) {
          ctx.violation("generator_invalid", "generator_invalid", s, "harness error: generated text is not valid");
          return;
        }
        if (ctx.want_sample) ctx.sample(s);
        static const std::vector<ref::Step> nopre;
        static const JsonPointer nojp;
        if (quick)
          c10_text(s, r.v, paths, jps, nopre, nojp, ctx);
        else
          c10_text(s, r.v, paths3, jps3, nopre, nojp, ctx);
        return;
      }
      if (f.name[1] == 'B') {
        unsigned pi = (unsigned)(idx % NP);
        idx /= NP;
        unsigned wrap = (unsigned)(idx % 2);
        idx /= 2;
        unsigned nn = (unsigned)(idx % NN);
        idx /= NN;
        const std::string& t = (*obbase)[idx];
        unsigned pad = quick ? pads_q[pi] : pads_t[pi];
        std::string s;
        ref::Value rv;
        std::vector<ref::Step> pre(1);
        JsonPointer jpre;
        if (wrap == 0) {
          s = "[\"" + std::string(nn, 'x') + "\"," + t + "]";
          rv = ref::Value::mk(ref::Arr);
          rv.a.push_back(ref::Value::mkS(std::string(nn, 'x')));
          rv.a.push_back((*obval)[idx]);
          pre[0].is_num = true;
          pre[0].num = 1;
          jpre /= JsonPointerNode(1);
        } else {
          s = "{\"p\":\"" + std::string(nn, 'x') + "\",\"k\":" + t + "}";
          rv = ref::Value::mk(ref::Obj);
          rv.o.emplace_back("p", ref::Value::mkS(std::string(nn, 'x')));
          rv.o.emplace_back("k", (*obval)[idx]);
          pre[0].key = "k";
          jpre /= JsonPointerNode("k");
        }
        s.append(pad, ' ');
        if (ctx.want_sample) ctx.sample(s);
        c10_text(s, rv, paths, jps, pre, jpre, ctx);
        return;
      }
      {
        unsigned kk = (unsigned)(idx % 140);
        idx /= 140;
        const std::string& t = (*obbase)[idx];
        std::string s(kk, ' ');
        // re-space: safe because base tokens never contain , or : inside strings except the
        // bracket string (which has neither)
        for (char c : t) {
          s.push_back(c);
          if (c == ',' || c == ':') s.append(kk % 7, ' ');
        }
        ref::Result r = ref::parse(s);
        if (!r.ok) {
          ctx.skip();
          return;
        }
        if (ctx.want_sample) ctx.sample(s);
        static const std::vector<ref::Step> nopre;
        static const JsonPointer nojp;
        c10_text(s, r.v, paths, jps, nopre, nojp, ctx);
      }
    };
  } else if (prop == "C11") {
    auto lmbase = std::make_shared<std::vector<std::string>>();
    {
      auto b = fam::base_valid(quick ? 4 : 5, true, 0);
      for (auto& x : b) lmbase->push_back(x.join());
      for (const char* s : {"{\"a\":[1,2.5e3,\"x\\ny\",null,true,false],\"b\":{\"c\":{}}}", "{\"a\":{\"b\":[0,{\"a\":\"]\"}]}}", "[[1,2],[3,[4,5]],\"\\\\\\\"\"]", "{\"\\u0061\":1,\"b\":[]}"})
        lmbase->push_back(s);
    }
    unsigned lm_maxlen = 0;
    for (auto& s : *lmbase) lm_maxlen = std::max<unsigned>(lm_maxlen, (unsigned)s.size());
    tf.push_back(fam::make_L0(quick ? 4 : 5));
    tf.push_back(fam::make_LA(quick ? 5 : 6));
    tf.push_back(fam::make_LA1(quick ? 4 : 5));
    tf.push_back(fam::make_LM(lmbase, lm_maxlen));
    // long variants: len takes every value around the 64/128-byte tail thresholds
    {
      fam::TextFamily f;
      auto base = lmbase;
      f.meta.name = "LL_long_tail";
      f.meta.count = (uint64_t)base->size() * 150 * 3;
      f.meta.group = "LL";
      f.meta.chunk = 256;
      f.meta.rule = "each base text padded so that its length sweeps 0..149 bytes beyond its own (leading spaces / trailing spaces / a leading long string member), valid and truncated";
      f.gen = [base](uint64_t idx, std::string& out) {
        unsigned mode = (unsigned)(idx % 3);
        idx /= 3;
        unsigned k = (unsigned)(idx % 150);
        idx /= 150;
        const std::string& t = (*base)[idx];
        if (mode == 0)
          out = std::string(k, ' ') + t;
        else if (mode == 1)
          out = t + std::string(k, ' ');
        else
          out = "[\"" + std::string(k, 'y') + "\"," + t;  // truncated wrapper: no closing bracket
        return true;
      };
      tf.push_back(f);
    }
    // two whitespace runs: the scanner caches the whitespace bitmap of the 64-byte block in which a run of
    // >= 3 whitespace bytes was met and consults it at later positions of that block; every run length x every
    // position of the second run relative to the first, the text cut at every byte of the second run
    {
      fam::TextFamily f;
      f.meta.name = "LS_two_whitespace_runs";
      const unsigned R1 = HAVE_ASAN ? 9 : 71, R2 = 136;
      f.meta.count = 4ull * R1 * R2 * (R2 + 1);
      f.meta.group = "LS";
      f.meta.chunk = 1024;
      f.meta.rule = "4 shapes ({\"a\" W1 : W2 1} ; [ W1 1, W2 2] ; W1 {\"a\":[ W2 1]} ; {\"a\": W1 {\"b\": W2 2}}) with W1 of r1 in 0..70 and W2 of r2 in 0..135 whitespace bytes, complete and cut after every byte of W2 (the input ends inside a whitespace run at every distance from the block ends)";
      f.gen = [R1, R2](uint64_t idx, std::string& out) {
        static const unsigned r1s[9] = {0, 1, 2, 3, 4, 31, 62, 63, 64};
        unsigned j = (unsigned)(idx % (R2 + 1));
        idx /= (R2 + 1);
        unsigned r2 = (unsigned)(idx % R2);
        idx /= R2;
        unsigned r1 = (unsigned)(idx % R1);
        if (R1 == 9) r1 = r1s[r1];
        unsigned shape = (unsigned)(idx / R1);
        if (j > r2 + 1) return false;
        static const char* head[4] = {"{\"a\"", "[", "", "{\"a\":"};
        static const char* mid[4] = {":", "1,", "{\"a\":[", "{\"b\":"};
        static const char* tail[4] = {"1}", "2]", "1]}", "2}}"};
        out = head[shape];
        for (unsigned i = 0; i < r1; i++) out.push_back(" \n\t\r"[(i + r2) % 4 == 3 ? 0 : (i % 2 ? 0 : (i + r2) % 3)]);
        out += mid[shape];
        if (j == r2 + 1) {
          out.append(r2, ' ');
          out += tail[shape];
        } else
          out.append(j, ' ');
        return true;
      };
      tf.push_back(f);
    }
    for (auto& f : tf) {
      byname[f.meta.name] = &f;
      fams.push_back(f.meta);
    }
    // LI: array INDEX sweep. Arrays of n scalars of width w, complete or cut short, looked up at indices far beyond the
    // small ones of the path alphabet (a scanner that counts elements block-wise has its own end-of-input arithmetic)
    static const unsigned LI_N[] = {0, 1, 2, 10, 20, 31, 32, 33, 34, 40, 41, 63, 64, 65, 70, 100, 130};
    static const unsigned LI_W[] = {1, 2, 3, 6, 12};
    static const int LI_I[] = {0, 1, 30, 31, 32, 33, 34, 35, 40, 63, 64, 65, 66, 99, 100, 101, 129, 130, 131, 1000, 65536, 2147483647};
    static const unsigned LI_CUT[] = {0, 1, 2, 3, 7, 13, 31, 32, 33, 63, 64, 65};
    vr::Family fli;
    fli.name = "LI_index_sweep";
    fli.count = (uint64_t)(sizeof LI_N / 4) * (sizeof LI_W / 4) * (sizeof LI_CUT / 4) * 3;
    fli.group = "LI";
    fli.chunk = 16;
    fli.rule = "arrays of n in {0,1,2,10,20,31..34,40,41,63..65,70,100,130} scalars of width 1,2,3,6,12 bytes (numbers; width 6 also as strings), alone / as a member value / followed by another element, complete or with the last 1,2,3,7,13,31..33,63..65 bytes cut off, each looked up at 22 indices from 0 to 2^31-1 (around 32, 64, n); exact-size heap block (ASan) / page-end and view placements (production)";
    fams.push_back(fli);
    // LK: keys that END in a cut-off escape, looked up with keys that match everything before the escape and go on: the
    // matcher has to look at the escape itself, whose missing digits lie behind the closing quote - and, when the input
    // is cut right there, behind the input
    static const char* LK_TAIL[] = {"\\", "\\u", "\\u0", "\\u00", "\\u004", "\\u0041", "\\ud83d", "\\ud83d\\", "\\ud83d\\u", "\\ud83d\\ud", "\\ud83d\\ude0", "\\ud83d\\ude00", "\\n", "\\x"};
    static const char* LK_AFTER[] = {"", "\"", "\":", "\":1", "\":1}", "\":1,\"zz\":2}"};
    static const char* LK_PRE[] = {"", "z", "ab", "abcdefghijklmnopqrstuvwxyz0123"};
    vr::Family flk;
    flk.name = "LK_keys_with_cut_escapes";
    flk.count = (uint64_t)(sizeof LK_TAIL / sizeof LK_TAIL[0]) * (sizeof LK_AFTER / sizeof LK_AFTER[0]) * (sizeof LK_PRE / sizeof LK_PRE[0]) * 2;
    flk.group = "LK";
    flk.chunk = 16;
    flk.rule = "objects {\"<prefix><cut escape>... whose first key is a prefix (0, 1, 2, 30 bytes) followed by one of 14 complete or cut-off escapes (\\, \\u, \\u0 .. \\u0041, high surrogate with 0..6 bytes of the low one, \\n, \\x), the text ending right there or after the closing quote / colon / value / a second member; alone or as the second member; looked up by keys that equal the prefix, extend it by one, two or five bytes, or decode the complete escape";
    fams.push_back(flk);
    // LL: LONG keys holding an escape, standing close to the END of the input (a key scratch copy that is rounded up
    // to whole vectors, a decoder that loads a full block): every raw key length 20..200, the escape at the start /
    // middle / end, 5 things behind the key
    static const char* LL_AFTER[5] = {"\":1}", "\":\"\"}", "\":1,\"b\":2}", "\"", "\":"};
    vr::Family fll;
    fll.name = "LL_long_escaped_keys_near_the_end";
    fll.count = (uint64_t)181 * 3 * 5 * 2;
    fll.group = "LL";
    fll.chunk = 16;
    fll.rule = "objects whose last (or only) key has every raw length 20..200 and one escape (\\n) at its start / middle / end, followed by :1} / :\"\"} / :1,\"b\":2} / nothing / a colon only; alone or after a first member; looked up by the decoded key, by a key one byte longer and by an absent key; exact-size heap block (ASan) / page end (production), views and misaligned starts";
    fams.push_back(fll);
    check = [&](const vr::Family& f, uint64_t idx, vr::Ctx& ctx) {
      if (f.name == "LK_keys_with_cut_escapes") {
        unsigned second = (unsigned)(idx % 2);
        idx /= 2;
        const std::string pre = LK_PRE[idx % (sizeof LK_PRE / sizeof LK_PRE[0])];
        idx /= (sizeof LK_PRE / sizeof LK_PRE[0]);
        const std::string after = LK_AFTER[idx % (sizeof LK_AFTER / sizeof LK_AFTER[0])];
        const std::string tail = LK_TAIL[idx / (sizeof LK_AFTER / sizeof LK_AFTER[0])];
        std::string text = std::string(second ? "{\"k\":[1,{\"a\":2}]," : "{") + "\"" + pre + tail + after;
        if (ctx.want_sample) ctx.sample(text);
        ctx.nontriv();
        std::vector<std::string> wanted = {pre, pre + "A", pre + "c", pre + "cd", pre + "\xf0\x9f\x98\x80", pre + "\n", pre + "A-and-more", "zz", "k"};
        std::vector<uint8_t> scratch(text.size() + 256);
#if HAVE_ASAN
        ExactBuf b(text);
#else
        const uint8_t* pe = guard.at_end(text);
#endif
        for (size_t k = 0; k < wanted.size(); k++) {
          JsonPointer jp({JsonPointerNode(wanted[k])});
#if HAVE_ASAN
          C11Res alone = c11_call((const uint8_t*)b.p, b.n, jp, text, "exact-heap", ctx, true);
#else
          C11Res alone = c11_call(pe, text.size(), jp, text, "page-end", ctx, true);
#endif
          c11_views(text, jp, 0, alone, scratch.data(), ctx);
        }
        return;
      }
      if (f.name == "LL_long_escaped_keys_near_the_end") {
        unsigned second = (unsigned)(idx % 2);
        idx /= 2;
        const std::string after = LL_AFTER[idx % 5];
        idx /= 5;
        unsigned where = (unsigned)(idx % 3);
        unsigned L = (unsigned)(idx / 3) + 20;
        unsigned p = where == 0 ? 0 : where == 1 ? (L - 2) / 2 : L - 2;
        std::string raw = std::string(p, 'x') + "\\n" + std::string(L - 2 - p, 'y');
        std::string dec = std::string(p, 'x') + "\n" + std::string(L - 2 - p, 'y');
        std::string text = std::string(second ? "{\"k\":[1,{\"a\":2}]," : "{") + "\"" + raw + after;
        if (ctx.want_sample) ctx.sample("raw key length " + std::to_string(L) + " escape at " + std::to_string(p) + " then " + after);
        ctx.nontriv();
        std::vector<std::string> wanted = {dec, dec + "z", "zz", "b"};
        std::vector<uint8_t> scratch(text.size() + 256);
#if HAVE_ASAN
        ExactBuf b(text);
#else
        const uint8_t* pe = guard.at_end(text);
#endif
        for (size_t k = 0; k < wanted.size(); k++) {
          JsonPointer jp({JsonPointerNode(wanted[k])});
#if HAVE_ASAN
          C11Res alone = c11_call((const uint8_t*)b.p, b.n, jp, text, "exact-heap", ctx, true);
#else
          C11Res alone = c11_call(pe, text.size(), jp, text, "page-end", ctx, true);
#endif
          c11_views(text, jp, 0, alone, scratch.data(), ctx);
          if (k == 0) c11_misaligned(text, jp, alone, scratch.data(), ctx);
        }
        return;
      }
      if (f.name == "LI_index_sweep") {
        unsigned wrap = (unsigned)(idx % 3);
        idx /= 3;
        unsigned cut = LI_CUT[idx % (sizeof LI_CUT / 4)];
        idx /= (sizeof LI_CUT / 4);
        unsigned w = LI_W[idx % (sizeof LI_W / 4)];
        unsigned n = LI_N[idx / (sizeof LI_W / 4)];
        std::string arr = "[";
        for (unsigned i = 0; i < n; i++) {
          if (i) arr += ",";
          std::string e = std::to_string(100000000000ull + i).substr(12 - std::min(w, 12u));
          if (e[0] == '0') e[0] = '7';
          if (w == 6 && wrap == 2) e = "\"" + e.substr(2) + "\"";
          arr += e;
        }
        arr += "]";
        std::string text = wrap == 0 ? arr : wrap == 1 ? "{\"a\":" + arr + ",\"b\":1}" : "[" + arr + ",7]";
        if (cut >= text.size()) {
          ctx.skip();
          return;
        }
        text.resize(text.size() - cut);
        if (ctx.want_sample) ctx.sample("n=" + std::to_string(n) + " w=" + std::to_string(w) + " wrap " + std::to_string(wrap) + " cut " + std::to_string(cut));
        ctx.nontriv();
        std::vector<uint8_t> scratch(text.size() + 256);
#if HAVE_ASAN
        ExactBuf b(text);
#else
        const uint8_t* pe = guard.at_end(text);
#endif
        for (size_t k = 0; k < sizeof LI_I / sizeof LI_I[0]; k++) {
          JsonPointer jp = wrap == 0 ? JsonPointer({JsonPointerNode(LI_I[k])}) : wrap == 1 ? JsonPointer({JsonPointerNode("a"), JsonPointerNode(LI_I[k])}) : JsonPointer({JsonPointerNode(0), JsonPointerNode(LI_I[k])});
#if HAVE_ASAN
          C11Res alone = c11_call((const uint8_t*)b.p, b.n, jp, text, "exact-heap", ctx, true);
#else
          C11Res alone = c11_call(pe, text.size(), jp, text, "page-end", ctx, true);
#endif
          if (k % 4 == 0) c11_views(text, jp, 0, alone, scratch.data(), ctx);
        }
        return;
      }
      const fam::TextFamily* t = byname[f.name];
      std::string text;
      if (!t->gen(idx, text)) {
        ctx.skip();
        return;
      }
      if (ctx.want_sample) ctx.sample(text);
      if (text.size() >= 2) ctx.nontriv();
#if HAVE_ASAN
      ExactBuf b(text);
      std::vector<uint8_t> scratch(text.size() + 256);
      for (size_t pi = 0; pi < jps.size(); pi++) {
        C11Res alone = c11_call((const uint8_t*)b.p, b.n, jps[pi], text, "exact-heap", ctx, pi < 11);
        c11_views(text, jps[pi], pi, alone, scratch.data(), ctx);
        if (pi % 4 == 0 || pi == 1 || pi == 6) c11_misaligned(text, jps[pi], alone, scratch.data(), ctx);
      }
#else
      if (text.size() > 2 * Guarded::PG) return;
      const uint8_t* pe = guard.at_end(text);
      std::vector<uint8_t> scratch(text.size() + 256);
      for (size_t pi = 0; pi < jps.size(); pi++) {
        C11Res alone = c11_call(pe, text.size(), jps[pi], text, "page-end", ctx, pi < 11);
        c11_views(text, jps[pi], pi, alone, scratch.data(), ctx);
        if (pi % 4 == 0 || pi == 1 || pi == 6) c11_misaligned(text, jps[pi], alone, scratch.data(), ctx);
      }
      const uint8_t* ps = guard.at_start(text);
      for (size_t pi = 0; pi < jps.size(); pi++) c11_call(ps, text.size(), jps[pi], text, "page-start", ctx, false);
#endif
    };
  } else {
    fprintf(stderr, "ondemand: --prop C10|C11\n");
    return 2;
  }

  if (args.replay) return R.replay_one(fams, check);
  const std::string only = args.get("only");
  for (auto& f : fams)
    if (only.empty() || only == f.name) R.run(f, check);
  return R.finish();
}
