// Engine rodoc (C17, clause "any number of threads may concurrently perform read-only operations on one
// shared document"): a necessary and schedule-independent condition for that clause is that the
// read-only operations do not STORE into the document at all.  Each case builds a document whose every
// byte - the Document object, the pool allocator's shared state, nodes, strings, lookup maps - lives in
// one page-aligned region (pool over a user buffer, no base allocator), makes the region PROT_READ,
// and performs every read-only operation of the property's list from two threads, checking every
// result against the reference value.  Any store faults; the runner attributes the dead worker to
// the case.  This complements the TSan pass (which needs two accesses to actually overlap in one of
// the sampled runs) with a deterministic oracle.
#include <sys/mman.h>

#include <new>
#include <thread>

#include "common/refjson.hpp"
#include "common/runner.hpp"
#include "common/sonic_cmp.hpp"
#include "sonic/sonic.h"

using namespace sonic_json;

static const size_t kRegion = 1u << 20;

struct Case {
  std::string text;
  int maps;  // 0 none, 1 CreateMap on every object, 2 on the root only
};

static void create_maps(Node& n, Document::Allocator& a, bool recurse) {
  if (n.IsObject()) {
    n.CreateMap(a);
    if (recurse)
      for (auto it = n.MemberBegin(); it != n.MemberEnd(); ++it) create_maps(it->value, a, true);
  } else if (n.IsArray() && recurse) {
    for (auto it = n.Begin(); it != n.End(); ++it) create_maps(*it, a, true);
  }
}

int main(int argc, char** argv) {
  vr::Args args = vr::parse_args(argc, argv);
  vr::Runner R(args);
  std::vector<std::string> texts;
  auto wide = [](unsigned n, bool nested) {
    std::string t = "{";
    for (unsigned i = 0; i < n; i++) {
      if (i) t += ",";
      t += "\"k" + std::to_string(i) + "\":" + (nested && i % 5 == 2 ? "{\"x\":[" + std::to_string(i) + ",\"s\"]}" : std::to_string(i));
    }
    return t + "}";
  };
  for (unsigned n : {0u, 1u, 2u, 15u, 16u, 17u, 24u, 40u, 100u}) {
    texts.push_back(wide(n, false));
    texts.push_back("{\"w\":" + wide(n, true) + ",\"a\":[1,2.5,\"s\",null,true,{\"b\":[]}],\"\":\"e\"}");
    texts.push_back("[" + wide(n, false) + "," + wide(n, true) + "]");
  }
  for (const char* s : {"null", "1", "-1", "1.5", "\"str\\n\\u00e9\"", "[]", "{}", "[[[[1]]]]", "{\"a\":{\"a\":{\"a\":{}}}}", "[1,-2,3.5,18446744073709551615,\"x\",\"\",true,false,null]"}) texts.push_back(s);
  vr::Family f;
  f.name = "RO_protected_document";
  f.count = texts.size() * 3;
  f.group = "RO";
  f.chunk = 1;
  f.rule = std::to_string(texts.size()) +
           " documents (objects of 0,1,2,15,16,17,24,40,100 members flat / nested / inside arrays, scalars, deep nesting) x {no lookup map, maps on every object, map on the root only}: the whole document incl. allocator state lives in one region that is made PROT_READ, then two threads perform every read-only operation (type tests, getters, iteration, Size/Empty/Capacity/Back, FindMember by view and by pointer+length hit and miss, HasMember, operator[] hit and miss, AtPointer, Serialize, Dump, ==, !=) with results checked against the reference value; a store into the document faults";
  vr::CheckFn check = [&](const vr::Family&, uint64_t idx, vr::Ctx& ctx) {
    const std::string& text = texts[idx / 3];
    int maps = (int)(idx % 3);
    ctx.eval();
    ctx.nontriv();
    std::string desc = text.substr(0, 120) + (maps == 0 ? "  (no maps)" : maps == 1 ? "  (maps everywhere)" : "  (root map)");
    if (ctx.want_sample) ctx.sample(desc);
    ref::Result rr = ref::parse(text);
    if (!rr.ok) {
      ctx.violation("harness", "harness_generator", desc, "harness error: text invalid");
      return;
    }
    char* region = (char*)mmap(nullptr, kRegion, PROT_READ | PROT_WRITE, MAP_PRIVATE | MAP_ANONYMOUS, -1, 0);
    if (region == (char*)MAP_FAILED) {
      ctx.violation("harness", "harness_mmap", desc, "mmap failed");
      return;
    }
    using Alloc = Document::Allocator;
    // layout: [Alloc object][Document object][pool buffer ...]
    Alloc* alloc = new (region) Alloc(region + 4096, kRegion - 4096, 0, nullptr);
    Document* doc = new (region + 1024) Document(alloc);
    Document* twin = new (region + 2048) Document(alloc);
    doc->Parse(text.data(), text.size());
    twin->Parse(text.data(), text.size());
    if (doc->HasParseError() || twin->HasParseError()) {
      ctx.violation("harness", "harness_parse", desc, "parse into the user-buffer pool failed (%d)", (int)doc->GetParseError());
      munmap(region, kRegion);
      return;
    }
    if (maps == 1) create_maps(*doc, *alloc, true);
    if (maps == 2) create_maps(*doc, *alloc, false);
    // warm up everything that is lazily initialised OUTSIDE the document (function-local statics of the library)
    {
      Document scratch;
      scratch.Parse(text.data(), text.size());
      (void)sc::compare(scratch, rr.v);
      (void)scratch.Dump();
      (void)(scratch == scratch);
    }
    mprotect(region, kRegion, PROT_READ);
    const Document& cd = *doc;
    const Document& ct = *twin;
    std::string res[2];
    auto body = [&](int t) {
      std::string r = sc::compare(cd, rr.v);
      if (!r.empty()) {
        res[t] = "accessor mismatch: " + r;
        return;
      }
      WriteBuffer wb;
      if (cd.Serialize(wb) != kErrorNone) {
        res[t] = "Serialize failed";
        return;
      }
      std::string out(wb.ToString(), wb.Size());
      ref::Result back = ref::parse(out);
      if (!back.ok || !ref::identical(back.v, rr.v)) {
        res[t] = "Serialize output differs: " + out.substr(0, 200);
        return;
      }
      if (cd.Dump() != out) {
        res[t] = "Dump differs from Serialize";
        return;
      }
      if (!ref::has_dup_keys(rr.v) && (!(cd == ct) || (cd != ct) || !(ct == cd))) {
        res[t] = "== / != against a twin document";
        return;
      }
      if (cd.IsArray() && !cd.Empty()) (void)cd.Back();
    };
    std::thread th([&] { body(1); });
    body(0);
    th.join();
    mprotect(region, kRegion, PROT_READ | PROT_WRITE);
    for (int t = 0; t < 2; t++)
      if (!res[t].empty()) ctx.violation("ro_result", "readonly_result", desc, "thread %d: %s", t, res[t].c_str());
    munmap(region, kRegion);  // pool over a user buffer without base allocator: nothing else to release
  };
  std::vector<vr::Family> fams = {f};
  if (args.replay) return R.replay_one(fams, check);
  R.run(f, check);
  return R.finish();
}
