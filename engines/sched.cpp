// Engine sched (C17, scenario C and op-level scenarios A/B): preemption-bounded schedule
// exploration of the REAL allocator/documents under a serialising scheduler.
//
// Real std::threads, exactly one runnable at a time (semaphore hand-off).  Scheduling points:
// the guarded hooks in SpinLock::lock (before the exchange; inside the wait loop) and at the
// shared accesses of MemoryPoolAllocator::Malloc/Realloc/AddChunk, plus harness-level operation
// boundaries.  A thread parked in the lock's wait loop is enabled only while the lock byte reads 0.
// The explorer is stateless: replay a choice prefix (an out-of-range choice is a hard error),
// then default choice 0 (= keep running the current thread; canonical order: running thread first,
// then ascending ids); alternatives are enumerated at every point whose preemption cost stays
// within the bound.  Every execution runs in a forked child (ASan aborts are attributed to the
// schedule); a failing schedule is re-run and must fail identically before it is reported.
#include <semaphore.h>
#include <sys/mman.h>
#include <sys/wait.h>
#include <unistd.h>

#include <set>
#include <thread>

#include "common/refjson.hpp"
#include "common/runner.hpp"
#include "sonic/sonic.h"

using namespace sonic_json;

// ------------------------------------------------------------------ scheduler
namespace sch {
constexpr int MAXT = 4;
constexpr int MAXTRACE = 400;
enum St { UNBORN, READY, LOCKWAIT, DONE };
struct Pt {
  uint8_t nen, cur_enabled, chosen, who;
};
struct ExecResult {
  int status;  // 0 ok, 1 oracle violation, 2 deadlock, 3 livelock, 4 replay divergence (harness), 5 crashed (set by parent)
  int ntrace;
  Pt trace[MAXTRACE];
  char outcome[256];
  char msg[512];
};
static ExecResult* g_res = nullptr;  // shared memory, written by the child
struct Thr {
  sem_t sem;
  St st = UNBORN;
  const void* waitaddr = nullptr;
};
static Thr g_t[MAXT];
static int g_n = 0;
static bool g_active = false;
static bool g_only_op_boundaries = false;  // scenarios A/B: ignore the allocator hooks, interleave whole operations
static const uint8_t* g_prefix = nullptr;
static size_t g_prefix_len = 0, g_pos = 0;
static int g_steps = 0, g_horizon = 2000;
static sem_t g_done;
static thread_local int tl_id = -1;

[[noreturn]] static void die(int status, const char* msg) {
  g_res->status = status;
  snprintf(g_res->msg, sizeof g_res->msg, "%s", msg);
  _exit(0);
}
static bool enabled(int i) {
  if (g_t[i].st == READY) return true;
  if (g_t[i].st == LOCKWAIT) return *(volatile const uint8_t*)g_t[i].waitaddr == 0;
  return false;
}
// decide who runs next; `self` (-1: the main thread kicking off) is at a point or DONE
static void schedule(int self) {
  if (++g_steps > g_horizon) die(3, "livelock: step horizon exceeded");
  int en[MAXT], n = 0;
  bool self_en = self >= 0 && enabled(self);
  if (self_en) en[n++] = self;
  for (int i = 0; i < g_n; i++)
    if (i != self && enabled(i)) en[n++] = i;
  if (n == 0) {
    bool all_done = true;
    for (int i = 0; i < g_n; i++)
      if (g_t[i].st != DONE) all_done = false;
    if (all_done) {
      sem_post(&g_done);
      return;
    }
    // (the "lock wait" hook means: spinning until the byte at addr reads 0 - the contract of the test-and-set lock
    // the hooks were written for; a lock that waits on something else must adapt its hooks, see DESIGN 2.2)
    die(2, "deadlock: no thread is enabled but not all threads have finished");
  }
  unsigned c = 0;
  if (g_pos < g_prefix_len) {
    c = g_prefix[g_pos];
    if ((int)c >= n) die(4, "replay divergence: recorded choice is out of range at this point");
  }
  if (g_res->ntrace < MAXTRACE) {
    Pt p{(uint8_t)n, (uint8_t)self_en, (uint8_t)c, (uint8_t)(self < 0 ? 255 : self)};
    g_res->trace[g_res->ntrace++] = p;
  } else
    die(3, "livelock: trace too long");
  g_pos++;
  int next = en[c];
  if (next == self) return;
  sem_post(&g_t[next].sem);
  if (self >= 0 && g_t[self].st != DONE) sem_wait(&g_t[self].sem);
}
static void point(int kind, const void* addr) {
  int self = tl_id;
  if (self < 0 || !g_active) return;
  if (g_only_op_boundaries && kind != 0) return;
  if (kind == 2) {
    g_t[self].st = LOCKWAIT;
    g_t[self].waitaddr = addr;
  } else
    g_t[self].st = READY;
  schedule(self);
  g_t[self].st = READY;
}
template <class F>
static void run_threads(int n, F body) {
  g_n = n;
  sem_init(&g_done, 0, 0);
  for (int i = 0; i < n; i++) {
    sem_init(&g_t[i].sem, 0, 0);
    g_t[i].st = READY;
  }
  std::vector<std::thread> th;
  for (int i = 0; i < n; i++)
    th.emplace_back([i, &body] {
      tl_id = i;
      sem_wait(&g_t[i].sem);
      body(i);
      g_t[i].st = DONE;
      schedule(i);
    });
  g_active = true;
  schedule(-1);
  sem_wait(&g_done);
  g_active = false;
  for (auto& t : th) t.join();
}
}  // namespace sch

extern "C" void sonic_verif_point(int kind, const void* addr) { sch::point(kind, addr); }

// ------------------------------------------------------------------ scenarios
enum AOp { M24 = 0, M48 = 1, R40 = 2, R200 = 3, RN = 4 };
static const int NAOP = 5;
static const char* kAOpName[5] = {"Malloc(24)", "Malloc(48)", "Realloc(own24,24,40)", "Realloc(own24,24,200)", "Realloc(null,0,24)"};
struct Program {
  int nthreads;
  std::vector<std::vector<int>> ops;  // per thread
  int warm = 0;                        // lock acquisitions (Malloc(8) calls) on the shared pool before the threads start
  std::string name() const {
    std::string s = warm ? "after " + std::to_string(warm) + " earlier Malloc(8) calls on the pool: " : "";
    for (int t = 0; t < nthreads; t++) {
      s += "T" + std::to_string(t) + "[";
      for (size_t i = 0; i < ops[t].size(); i++) s += std::string(i ? "," : "") + kAOpName[ops[t][i]];
      s += "] ";
    }
    return s;
  }
};
static size_t al8(size_t x) { return (x + 7) & ~(size_t)7; }

// scenario C: one shared allocator object (SONIC_LOCKED_ALLOCATOR build), chunk capacity 64
static void run_alloc_program(const Program& P) {
  using Pool = MemoryPoolAllocator<>;
  Pool pool(64);
  struct Blk {
    char* p;
    size_t size;
    uint8_t pat;
  };
  std::vector<Blk> pre;
  size_t model_size = 0;
  // the N-th use of the lock: counters inside a lock implementation (tickets, sequence numbers) wrap at 2^8 / 2^16
  for (int i = 0; i < P.warm; i++) {
    if (!pool.Malloc(8)) break;
    model_size += 8;
  }
  for (int t = 0; t < P.nthreads; t++) {
    char* p = (char*)pool.Malloc(24);
    std::memset(p, 0x40 + t, 24);
    pre.push_back({p, 24, (uint8_t)(0x40 + t)});
    model_size += 24;
  }
  std::vector<std::vector<Blk>> mine(P.nthreads);
  std::vector<size_t> added(P.nthreads, 0);
  std::vector<std::string> obs(P.nthreads);
  std::vector<char> pre_live(P.nthreads, 1);
  sch::run_threads(P.nthreads, [&](int t) {
    uint8_t pat = (uint8_t)(0x80 + 16 * t);
    Blk own24 = pre[t];
    bool own_is_pre = true;
    int own_idx = -1;
    for (size_t k = 0; k < P.ops[t].size(); k++) {
      sch::point(0, nullptr);  // operation boundary
      int op = P.ops[t][k];
      if (op == M24 || op == M48 || op == RN) {
        size_t s = op == M48 ? 48 : 24;
        // (a Realloc of the null pointer is an allocation: the first growth of an empty container takes this path)
        char* p = op == RN ? (char*)pool.Realloc(nullptr, 0, s) : (char*)pool.Malloc(s);
        if (!p) {
          obs[t] += "N";
          continue;
        }
        std::memset(p, ++pat, s);
        mine[t].push_back({p, s, pat});
        added[t] += al8(s);
        obs[t] += "m";
        if (s == 24) {
          own24 = mine[t].back();
          own_is_pre = false;
          own_idx = (int)mine[t].size() - 1;
        }
      } else {
        size_t ns = op == R40 ? 40 : 200;
        if (own24.size != 24) {
          obs[t] += "-";
          continue;
        }
        char* p = (char*)pool.Realloc(own24.p, 24, ns);
        if (!p) {
          obs[t] += "N";
          continue;
        }
        bool inplace = p == own24.p;
        for (size_t i = 0; i < 24; i++)
          if ((uint8_t)p[i] != own24.pat) {
            obs[t] += "!";
            break;
          }
        std::memset(p, own24.pat, ns);
        Blk nb{p, ns, own24.pat};
        if (own_is_pre)
          pre_live[t] = 0;
        else
          mine[t][own_idx].size = 0;  // superseded
        mine[t].push_back(nb);
        added[t] += inplace ? al8(ns) - 24 : al8(ns);
        obs[t] += inplace ? "i" : "v";
        own24 = nb;
        own24.size = ns;  // no longer a 24-byte block
      }
    }
  });
  // ---- oracle (after join) ----
  std::vector<Blk> all;
  for (int t = 0; t < P.nthreads; t++) {
    if (pre_live[t]) all.push_back(pre[t]);
    for (auto& b : mine[t])
      if (b.size) all.push_back(b);
    model_size += added[t];
  }
  std::string out;
  for (int t = 0; t < P.nthreads; t++) out += obs[t] + "|";
  char msg[400] = {0};
  for (size_t i = 0; i < all.size() && !msg[0]; i++) {
    if ((uintptr_t)all[i].p & 7) snprintf(msg, sizeof msg, "block %zu at %p is not 8-byte aligned", i, (void*)all[i].p);
    for (size_t k = 0; k < all[i].size; k++)
      if ((uint8_t)all[i].p[k] != all[i].pat) {
        snprintf(msg, sizeof msg, "block %zu (%zu bytes): contents disturbed at byte %zu", i, all[i].size, k);
        break;
      }
    for (size_t j = i + 1; j < all.size(); j++)
      if (all[i].p < all[j].p + al8(all[j].size) && all[j].p < all[i].p + al8(all[i].size)) snprintf(msg, sizeof msg, "blocks %zu and %zu overlap (%p+%zu, %p+%zu)", i, j, (void*)all[i].p, all[i].size, (void*)all[j].p, all[j].size);
  }
  if (!msg[0] && pool.Size() != model_size) snprintf(msg, sizeof msg, "Size()=%zu but the threads were handed %zu bytes", pool.Size(), model_size);
  if (out.find('!') != std::string::npos && !msg[0]) snprintf(msg, sizeof msg, "Realloc did not preserve the old contents");
  if (out.find('N') != std::string::npos && !msg[0]) snprintf(msg, sizeof msg, "an allocation returned null");
  snprintf(sch::g_res->outcome, sizeof sch::g_res->outcome, "%s size=%zu", out.c_str(), pool.Size());
  if (msg[0]) {
    sch::g_res->status = 1;
    snprintf(sch::g_res->msg, sizeof sch::g_res->msg, "%s", msg);
  }
}

// scenarios A (independent documents) and B (one shared read-only document): operation-level interleavings
static std::string doc_op(Document& d, int op) {
  switch (op) {
    case 0: d.Parse("{\"a\":[1,2,{\"b\":\"s\"}],\"c\":1.5}"); return d.HasParseError() ? "E" : "P";
    case 1: {
      if (!d.IsObject()) d.SetObject();
      d.AddMember("k", Node(7), d.GetAllocator());
      d.RemoveMember("c");
      return "M" + std::to_string(d.Size());
    }
    case 2: return std::string("L") + (d.IsObject() && d["missing"].IsNull() ? "n" : "x");
    default: return "D" + d.Dump();
  }
}
static std::string ro_op(const Document& d, int op) {
  switch (op) {
    case 0: return std::string("T") + (d.IsObject() ? "o" : "-") + std::to_string(d.Size());
    case 1: {
      std::string s = "I";
      for (auto it = d.MemberBegin(); it != d.MemberEnd(); ++it) s += std::string(it->name.GetStringView().data(), it->name.Size()) + (it->value.IsNumber() ? std::to_string(it->value.GetDouble()) : "_");
      return s;
    }
    case 2: return std::string("F") + (d.FindMember("a") != d.MemberEnd() ? "h" : "m") + (d.FindMember("zz") != d.MemberEnd() ? "h" : "m");
    case 3: return std::string("O") + (d["a"].IsArray() ? "a" : "-") + (d["nope"].IsNull() ? "n" : "x");
    case 4: {
      const Node* n = d.AtPointer(JsonPointer({JsonPointerNode("a"), JsonPointerNode(2), JsonPointerNode("b")}));
      return std::string("P") + (n && n->IsString() ? std::string(n->GetStringView().data(), n->Size()) : "?");
    }
    case 5: {
      WriteBuffer wb;
      d.Serialize(wb);
      return std::string("S") + wb.ToString();
    }
    default: {
      Document other;
      other.Parse("{\"c\":1.5,\"a\":[1,2,{\"b\":\"s\"}]}");
      return std::string("E") + (d == other ? "1" : "0");
    }
  }
}
struct DocProgram {
  int kind;  // 0: scenario A, 1: scenario B (shared, no map), 2: scenario B with lookup map
  int nthreads;
  std::vector<std::vector<int>> ops;
  std::string name() const {
    std::string s = kind == 0 ? "A independent docs: " : kind == 1 ? "B shared read-only doc: " : "B shared read-only doc with lookup map: ";
    for (int t = 0; t < nthreads; t++) {
      s += "T" + std::to_string(t) + "[";
      for (size_t i = 0; i < ops[t].size(); i++) s += (i ? "," : "") + std::to_string(ops[t][i]);
      s += "] ";
    }
    return s;
  }
};
static void run_doc_program(const DocProgram& P) {
  sch::g_only_op_boundaries = true;
  std::vector<std::string> obs(P.nthreads), seq(P.nthreads);
  if (P.kind == 0) {
    // sequential reference
    for (int t = 0; t < P.nthreads; t++) {
      Document d;
      for (int op : P.ops[t]) seq[t] += doc_op(d, op) + ";";
    }
    std::vector<std::unique_ptr<Document>> docs;
    for (int t = 0; t < P.nthreads; t++) docs.emplace_back(new Document());
    sch::run_threads(P.nthreads, [&](int t) {
      for (int op : P.ops[t]) {
        sch::point(0, nullptr);
        obs[t] += doc_op(*docs[t], op) + ";";
      }
    });
  } else {
    Document shared;
    shared.Parse("{\"a\":[1,2,{\"b\":\"s\"}],\"c\":1.5}");
    if (P.kind == 2) shared.CreateMap(shared.GetAllocator());
    const Document& cd = shared;
    for (int t = 0; t < P.nthreads; t++)
      for (int op : P.ops[t]) seq[t] += ro_op(cd, op) + ";";
    std::string before = shared.Dump();
    sch::run_threads(P.nthreads, [&](int t) {
      for (int op : P.ops[t]) {
        sch::point(0, nullptr);
        obs[t] += ro_op(cd, op) + ";";
      }
    });
    if (shared.Dump() != before) {
      sch::g_res->status = 1;
      snprintf(sch::g_res->msg, sizeof sch::g_res->msg, "the shared document changed under read-only operations");
    }
  }
  std::string out;
  for (int t = 0; t < P.nthreads; t++) {
    out += obs[t].substr(0, 60) + "|";
    if (obs[t] != seq[t] && sch::g_res->status == 0) {
      sch::g_res->status = 1;
      snprintf(sch::g_res->msg, sizeof sch::g_res->msg, "thread %d observed '%s' but the sequential run observes '%s'", t, obs[t].substr(0, 150).c_str(), seq[t].substr(0, 150).c_str());
    }
  }
  snprintf(sch::g_res->outcome, sizeof sch::g_res->outcome, "%s", out.c_str());
}

// scenario P: documents of several threads over ONE shared pool (SONIC_LOCKED_ALLOCATOR): every Parse - also one
// that FAILS and takes the error path - allocates (and may release) through the shared allocator while the other
// thread is inside its own Parse. Scheduling points: the allocator's lock and shared-access hooks.
static const char* kPText[4] = {"{\"a\":[1,2],\"b\":\"s\"}", "[[3],\"tt\",{\"k\":4}]", "[1, 2, tru", "{\"a\":"};
static const bool kPValid[4] = {true, true, false, false};
struct PoolDocProgram {
  int nthreads;
  std::vector<std::vector<int>> ops;
  std::string name() const {
    std::string s = "P documents over one shared pool: ";
    for (int t = 0; t < nthreads; t++) {
      s += "T" + std::to_string(t) + "[";
      for (size_t i = 0; i < ops[t].size(); i++) s += std::string(i ? " ; " : "") + "Parse " + kPText[ops[t][i]];
      s += "] ";
    }
    return s;
  }
};
static void run_pooldoc_program(const PoolDocProgram& P) {
  using Pool = MemoryPoolAllocator<>;
  Pool pool;
  std::vector<std::vector<std::unique_ptr<Document>>> docs(P.nthreads);
  for (int t = 0; t < P.nthreads; t++)
    for (size_t k = 0; k < P.ops[t].size(); k++) docs[t].emplace_back(new Document(&pool));
  std::vector<std::string> obs(P.nthreads);
  sch::run_threads(P.nthreads, [&](int t) {
    for (size_t k = 0; k < P.ops[t].size(); k++) {
      sch::point(0, nullptr);
      const char* txt = kPText[P.ops[t][k]];
      docs[t][k]->Parse(txt, std::strlen(txt));
      obs[t] += docs[t][k]->HasParseError() ? "E" : "P";
    }
  });
  char msg[400] = {0};
  std::string out;
  for (int t = 0; t < P.nthreads && !msg[0]; t++) {
    out += obs[t] + "|";
    for (size_t k = 0; k < P.ops[t].size() && !msg[0]; k++) {
      int op = P.ops[t][k];
      const Document& d = *docs[t][k];
      if (kPValid[op]) {
        if (d.HasParseError())
          snprintf(msg, sizeof msg, "thread %d: Parse of the valid text %s failed with code %d", t, kPText[op], (int)d.GetParseError());
        else {
          std::string got = d.Dump();
          if (got != kPText[op]) snprintf(msg, sizeof msg, "thread %d: the document parsed from %s reads back as %s after all threads finished (another thread's Parse wrote into its memory)", t, kPText[op], got.substr(0, 120).c_str());
        }
      } else if (!d.HasParseError() || !d.IsNull())
        snprintf(msg, sizeof msg, "thread %d: Parse of the invalid text %s: error=%d isnull=%d", t, kPText[op], (int)d.GetParseError(), (int)d.IsNull());
    }
  }
  snprintf(sch::g_res->outcome, sizeof sch::g_res->outcome, "%s size=%zu", out.c_str(), pool.Size());
  if (msg[0]) {
    sch::g_res->status = 1;
    snprintf(sch::g_res->msg, sizeof sch::g_res->msg, "%s", msg);
  }
}

// ------------------------------------------------------------------ explorer
struct Explorer {
  std::function<void()> body;
  int bound;
  uint64_t nexec = 0, by_preempt[8] = {0};
  std::set<std::string> outcomes;
  struct Fail {
    std::vector<uint8_t> choices;
    int status;
    std::string msg;
  };
  std::vector<Fail> fails;
  size_t max_points = 0;
  int timeouts = 0;

  sch::ExecResult run(const std::vector<uint8_t>& prefix) {
    // the result page is shared between this process and the execution it forks, and with nobody else:
    // it must be mapped per worker process (a page mapped before the workers were forked would be
    // shared by all of them)
    static pid_t owner = 0;
    if (owner != getpid()) {
      sch::g_res = (sch::ExecResult*)mmap(nullptr, sizeof(sch::ExecResult), PROT_READ | PROT_WRITE, MAP_SHARED | MAP_ANONYMOUS, -1, 0);
      owner = getpid();
    }
    memset(sch::g_res, 0, sizeof *sch::g_res);
    fflush(stdout);
    fflush(stderr);
    pid_t p = fork();
    if (p == 0) {
      if (!getenv("VERIF_CHILD_STDERR")) {
        int fd = open("/dev/null", O_WRONLY);
        if (fd >= 0) dup2(fd, 2);
      }
      sch::g_prefix = prefix.data();
      sch::g_prefix_len = prefix.size();
      sch::g_pos = 0;
      sch::g_steps = 0;
      body();
      _exit(0);
    }
    int st = 0;
    {
      // an execution takes milliseconds; one that does not end (a thread that waits in real time without passing a
      // scheduling point while the scheduler keeps every other thread parked) is killed and reported
      static const double limit = getenv("VERIF_EXEC_TIMEOUT_S") ? atof(getenv("VERIF_EXEC_TIMEOUT_S")) : 10.0;
      double waited = 0;
      for (;;) {
        pid_t q = waitpid(p, &st, WNOHANG);
        if (q == p) break;
        if (waited > limit) {
          kill(p, SIGKILL);
          waitpid(p, &st, 0);
          sch::ExecResult r = *sch::g_res;
          r.status = 3;
          snprintf(r.msg, sizeof r.msg, "the execution did not finish within %.0f s: a thread waits without passing a scheduling point while the others are parked (livelock under this schedule)", limit);
          timeouts++;
          return r;
        }
        usleep(waited < 0.05 ? 200 : 5000);
        waited += waited < 0.05 ? 0.0002 : 0.005;
      }
    }
    sch::ExecResult r = *sch::g_res;
    if (!(WIFEXITED(st) && WEXITSTATUS(st) == 0)) {
      r.status = 5;
      if (WIFSIGNALED(st))
        snprintf(r.msg, sizeof r.msg, "execution killed by signal %d (memory error under this schedule)", WTERMSIG(st));
      else
        snprintf(r.msg, sizeof r.msg, "execution exited with status %d (sanitizer report under this schedule)", WEXITSTATUS(st));
    }
    return r;
  }
  bool no_recurse = false;
  void explore(const std::vector<uint8_t>& prefix) {
    if (timeouts >= 2) return;  // every further schedule of this subtree would cost the time limit again
    sch::ExecResult x = run(prefix);
    nexec++;
    if (getenv("VERIF_SCHED_DEBUG")) {
      fprintf(stderr, "exec %llu prefix=%zu status=%d :", (unsigned long long)nexec, prefix.size(), x.status);
      for (int i = 0; i < x.ntrace; i++) fprintf(stderr, " %d/%d%s>%d", x.trace[i].who == 255 ? -1 : x.trace[i].who, x.trace[i].nen, x.trace[i].cur_enabled ? "e" : "x", x.trace[i].chosen);
      fprintf(stderr, " | %s %s\n", x.outcome, x.msg);
    }
    int pre = 0;
    for (int i = 0; i < x.ntrace; i++)
      if (x.trace[i].chosen != 0 && x.trace[i].cur_enabled) pre++;
    by_preempt[std::min(pre, 7)]++;
    max_points = std::max<size_t>(max_points, (size_t)x.ntrace);
    if (x.status == 0) outcomes.insert(x.outcome);
    if (x.status != 0) {
      Fail f;
      for (int i = 0; i < x.ntrace; i++) f.choices.push_back(x.trace[i].chosen);
      f.status = x.status;
      f.msg = x.msg;
      // replay before report: the same schedule must fail the same way
      sch::ExecResult y = run(f.choices);
      if (y.status != x.status) f.msg = std::string("NON-DETERMINISTIC (harness problem): first '") + x.msg + "' then status " + std::to_string(y.status) + " '" + y.msg + "'", f.status = 4;
      if (fails.size() < 8) fails.push_back(f);
      if (x.status == 4) return;
    }
    if (no_recurse) return;
    int cost = 0;
    for (int i = 0; i < x.ntrace; i++) {
      if (i >= (int)prefix.size()) {
        int c_alt = cost + (x.trace[i].cur_enabled ? 1 : 0);
        if (c_alt <= bound) {
          for (int alt = 1; alt < x.trace[i].nen; alt++) {
            std::vector<uint8_t> np;
            for (int k = 0; k < i; k++) np.push_back(x.trace[k].chosen);
            np.push_back((uint8_t)alt);
            explore(np);
          }
        }
      }
      if (x.trace[i].chosen != 0 && x.trace[i].cur_enabled) cost++;
    }
  }
};

static std::string show_sched(const std::vector<uint8_t>& c) {
  std::string s;
  for (size_t i = 0; i < c.size(); i++)
    if (c[i]) s += "@" + std::to_string(i) + ":" + std::to_string(c[i]) + " ";
  return s.empty() ? "(default schedule)" : s;
}
// encode program index (10 bits) + up to 5 deviations (pos 7 bits, alt 2 bits) + count (3 bits at 61..63)
static uint64_t encode(uint64_t prog, const std::vector<uint8_t>& c) {
  uint64_t v = prog & 1023;
  int k = 0;
  for (size_t i = 0; i < c.size(); i++)
    if (c[i]) {
      if (k >= 5 || i > 127) return prog & 1023;  // not encodable: replay re-runs the default schedule only
      v |= (uint64_t)(((i & 127) << 2) | (c[i] & 3)) << (10 + 9 * k);
      k++;
    }
  v |= (uint64_t)k << 61;
  return v;
}
static void decode(uint64_t v, uint64_t& prog, std::vector<uint8_t>& c) {
  prog = v & 1023;
  int k = (int)(v >> 61);
  c.clear();
  for (int j = 0; j < k; j++) {
    unsigned e = (unsigned)((v >> (10 + 9 * j)) & 511);
    size_t pos = e >> 2;
    if (c.size() <= pos) c.resize(pos + 1, 0);
    c[pos] = (uint8_t)(e & 3);
  }
}

int main(int argc, char** argv) {
  vr::Args args = vr::parse_args(argc, argv);
  vr::Runner R(args);
  const bool quick = R.quick();
  const int bound = args.get("bound").empty() ? (quick ? 2 : 3) : atoi(args.get("bound").c_str());

  // scenario C programs
  std::vector<Program> progs;
  for (int a = 0; a < NAOP; a++)
    for (int b = 0; b < NAOP; b++)
      for (int c = 0; c < NAOP; c++)
        for (int d = 0; d < NAOP; d++) {
          if (quick) {
            // 7 shapes for thread 0 (allocate-then-grow, grow-then-allocate, plain, through Realloc(null)) x all 25 for thread 1
            bool keep = (a == M24 && b == R40) || (a == M24 && b == R200) || (a == R40 && b == M24) || (a == R200 && b == M48) || (a == M48 && b == M48) || (a == RN && b == RN) || (a == RN && b == R200);
            if (!keep) continue;
          }
          progs.push_back(Program{2, {{a, b}, {c, d}}});
        }
  // the same shapes after 2^8 / 2^16 (+-2) earlier acquisitions of the pool's lock
  {
    static const int kWarm[10] = {253, 254, 255, 256, 257, 65533, 65534, 65535, 65536, 65537};
    for (int w : kWarm) {
      // the pre-phase of a program takes one more acquisition per thread (the 24-byte block each thread owns)
      Program a{2, {{M24}, {M24}}}, b{2, {{M24, R40}, {M48, M24}}}, c{2, {{RN, M24}, {R200, M24}}};
      a.warm = b.warm = c.warm = w;
      progs.push_back(a);
      progs.push_back(b);
      if (!quick) progs.push_back(c);
    }
  }
  std::vector<Program> progs3;
  for (int a = 0; a < NAOP; a++)
    for (int b = a; b < NAOP; b++)
      for (int c = b; c < NAOP; c++) progs3.push_back(Program{3, {{a}, {b}, {c}}});
  // doc programs: A: 2 threads x 4 ops ; B: 2-3 threads x 3 read-only ops
  std::vector<DocProgram> dprogs;
  dprogs.push_back(DocProgram{0, 2, {{0, 1, 2, 3}, {0, 1, 2, 3}}});
  dprogs.push_back(DocProgram{0, 2, {{0, 2, 1, 3}, {1, 0, 3, 2}}});
  for (int kind = 1; kind <= 2; kind++) {
    dprogs.push_back(DocProgram{kind, 2, {{0, 1, 2}, {3, 4, 5}}});
    dprogs.push_back(DocProgram{kind, 2, {{3, 3, 6}, {3, 2, 5}}});
    dprogs.push_back(DocProgram{kind, 3, {{3, 5}, {2, 3}, {4, 3}}});
    if (!quick) dprogs.push_back(DocProgram{kind, 3, {{3, 5, 6}, {2, 3, 1}, {4, 3, 0}}});
  }

  // scenario P programs: 2 threads x 2 Parse calls from {valid object, valid array, truncated literal, truncated object}
  std::vector<PoolDocProgram> pprogs;
  for (int a = 0; a < 4; a++)
    for (int b = 0; b < 4; b++)
      for (int c = 0; c < 4; c++)
        for (int d = 0; d < 4; d++) {
          if (quick && !((a == 2 && b == 0) || (a == 3 && b == 1) || (a == 0 && b == 2) || (a == 0 && b == 1))) continue;
          pprogs.push_back(PoolDocProgram{2, {{a, b}, {c, d}}});
        }

  vr::Family fc, fc3, fd;
  fc.name = "SC_alloc_2threads_x2ops";
  fc.count = progs.size();
  fc.chunk = 1;
  fc.group = "SC";
  fc.rule = "scenario C: one shared MemoryPoolAllocator (chunk capacity 64, SONIC_LOCKED_ALLOCATOR), 2 threads x 2 operations from {Malloc(24), Malloc(48), Realloc(own,24,40), Realloc(own,24,200), Realloc(null,0,24)}, plus shapes that start after 253..257 and 65533..65537 earlier acquisitions of the pool's lock (the N-th use: counters of a lock implementation wrap at 2^8 / 2^16); for every program ALL schedules over the hooked points (lock try, lock wait, shared accesses, operation boundaries) with at most " +
            std::to_string(bound) + " preemptions; oracle after join: blocks disjoint, aligned, contents intact, Size() consistent, no deadlock/livelock; evaluations = work items (a program's default schedule or one first-level subtree of its schedule tree); complete schedules executed are reported as states/transitions";
  fc3.name = "SC_alloc_3threads_x1op";
  fc3.count = progs3.size();
  fc3.chunk = 1;
  fc3.group = "SC3";
  fc3.rule = "scenario C with 3 threads x 1 operation (all multisets of the 4-operation menu), same bound and oracle";
  fd.name = "SAB_documents";
  fd.count = dprogs.size();
  fd.chunk = 1;
  fd.group = "SAB";
  fd.rule = "scenarios A (2 threads parse/mutate/lookup-miss/serialise their own documents) and B (2-3 threads, read-only operations on one shared document, with and without lookup map): all operation-level interleavings; every thread's observations must equal those of the sequential run";

  vr::Family fp;
  fp.name = "SP_documents_over_shared_pool";
  fp.count = pprogs.size();
  fp.chunk = 1;
  fp.group = "SP";
  fp.rule = "scenario P: 2 threads, each parsing 2 texts from {valid object, valid array, truncated literal, truncated object} into its own documents, all documents over ONE shared pool allocator (SONIC_LOCKED_ALLOCATOR): all schedules over the allocator's hooked points with at most " +
            std::to_string(bound) + " preemptions; oracle after join: every document parsed from a valid text dumps that text, every rejected one is null with its error set";

  // Work items: for load balance every program is split into its default execution plus one item per
  // first-level alternative (subtree root) of that default execution; an item explores its subtree.
  struct Item {
    int fam;  // 0 fc, 1 fc3, 2 fd, 3 fp
    uint64_t prog;
    std::vector<uint8_t> root;
    bool root_only;
  };
  auto make_explorer = [&](int famid, uint64_t prog, Explorer& ex, std::string& pname) {
    if (famid <= 1) {
      const Program& P = famid == 0 ? progs[prog] : progs3[prog];
      pname = P.name();
      ex.body = [&P] { run_alloc_program(P); };
      ex.bound = bound;
    } else if (famid == 3) {
      const PoolDocProgram& P = pprogs[prog];
      pname = P.name();
      ex.body = [&P] { run_pooldoc_program(P); };
      ex.bound = bound;
    } else {
      const DocProgram& P = dprogs[prog];
      pname = P.name();
      ex.body = [&P] { run_doc_program(P); };
      ex.bound = 64;  // operation-level points only: explore all interleavings
    }
  };
  std::vector<Item> items[4];
  const std::string only0 = args.get("only");
  if (!args.replay) {
    for (int famid = 0; famid < 4; famid++) {
      const std::string fname = famid == 0 ? fc.name : famid == 1 ? fc3.name : famid == 2 ? fd.name : fp.name;
      if (!only0.empty() && only0 != fname) continue;
      size_t np = famid == 0 ? progs.size() : famid == 1 ? progs3.size() : famid == 2 ? dprogs.size() : pprogs.size();
      for (uint64_t p = 0; p < np; p++) {
        Explorer ex;
        std::string pname;
        make_explorer(famid, p, ex, pname);
        sch::ExecResult x = ex.run({});
        items[famid].push_back(Item{famid, p, {}, true});
        int cost = 0;
        for (int i = 0; i < x.ntrace; i++) {
          int c_alt = cost + (x.trace[i].cur_enabled ? 1 : 0);
          if (c_alt <= ex.bound)
            for (int alt = 1; alt < x.trace[i].nen; alt++) {
              std::vector<uint8_t> np2;
              for (int k = 0; k < i; k++) np2.push_back(x.trace[k].chosen);
              np2.push_back((uint8_t)alt);
              items[famid].push_back(Item{famid, p, np2, false});
            }
          if (x.trace[i].chosen != 0 && x.trace[i].cur_enabled) cost++;
        }
      }
    }
    fc.count = items[0].size();
    fc3.count = items[1].size();
    fd.count = items[2].size();
    fp.count = items[3].size();
  }
  vr::CheckFn check = [&](const vr::Family& f, uint64_t idx, vr::Ctx& ctx) {
    int famid = f.name == fc.name ? 0 : f.name == fc3.name ? 1 : f.name == fp.name ? 3 : 2;
    const Item& it = items[famid][idx];
    Explorer ex;
    std::string pname;
    make_explorer(famid, it.prog, ex, pname);
    ex.no_recurse = it.root_only;
    ex.explore(it.root);
    ctx.eval();
    ctx.nontriv();
    ctx.count(4, ex.nexec);
    for (int b = 0; b < 6; b++) ctx.count(5 + b, ex.by_preempt[b]);
    ctx.count(12, ex.max_points);
    if (it.root_only) ctx.count(13);
    if (ctx.want_sample) ctx.sample(pname + " subtree " + show_sched(it.root) + " -> " + std::to_string(ex.nexec) + " schedules, outcomes e.g. " + (ex.outcomes.empty() ? "" : *ex.outcomes.begin()));
    for (auto& o : ex.outcomes) {
      // distinct outcomes are tallied globally through the sample mechanism's shared table (bounded)
      (void)o;
    }
    ctx.count(11, ex.outcomes.size());
    for (auto& fl : ex.fails) {
      ctx.publish(encode(it.prog, fl.choices));
      const char* cls = fl.status == 1 ? "sched_oracle" : fl.status == 2 ? "sched_deadlock" : fl.status == 3 ? "sched_livelock" : fl.status == 5 ? "sched_crash" : "harness_sched_nondeterminism";
      ctx.violation(cls, cls, pname + " schedule " + show_sched(fl.choices), "%s under schedule %s: %s", pname.c_str(), show_sched(fl.choices).c_str(), fl.msg.c_str());
    }
  };
  std::vector<vr::Family> fams = {fc, fc3, fd, fp};
  if (args.replay) {
    // replay one schedule of one program, twice, in-process fork
    uint64_t prog;
    std::vector<uint8_t> c;
    decode(args.replay_idx, prog, c);
    for (auto& f : fams) {
      if (f.name != args.replay_family) continue;
      Explorer ex;
      std::string pname;
      if (f.name[1] == 'C') {
        const Program& P = f.name == fc.name ? progs[prog] : progs3[prog];
        pname = P.name();
        ex.body = [&P] { run_alloc_program(P); };
      } else if (f.name[1] == 'P') {
        const PoolDocProgram& P = pprogs[prog];
        pname = P.name();
        ex.body = [&P] { run_pooldoc_program(P); };
      } else {
        const DocProgram& P = dprogs[prog];
        pname = P.name();
        ex.body = [&P] { run_doc_program(P); };
      }
      printf("REPLAY-CASE %s schedule %s\n", pname.c_str(), show_sched(c).c_str());
      if ((args.replay_idx >> 61) == 0 && args.replay_idx >= 1024) printf("(schedule not encodable; re-exploring the program)\n");
      sch::ExecResult a = ex.run(c), b = ex.run(c);
      printf("run1: status %d %s | outcome %s\nrun2: status %d %s | outcome %s\n", a.status, a.msg, a.outcome, b.status, b.msg, b.outcome);
      if (a.status != b.status || strcmp(a.outcome, b.outcome) != 0) {
        printf("VIOLATION-CASE kind=harness class=harness_sched_nondeterminism detail=replaying one schedule twice gave different observations\n");
        return 1;
      }
      if (a.status != 0) {
        printf("VIOLATION-CASE kind=sched class=sched detail=%s\n", a.msg);
        return 1;
      }
      printf("REPLAY-OK\n");
      return 0;
    }
    return 2;
  }
  const std::string only = args.get("only");
  if (!args.get("debugprog").empty()) {
    vr::Ctx c;
    c.replay = true;
    c.fam = &fc;
    check(fc, (uint64_t)atoi(args.get("debugprog").c_str()), c);
    fputs(c.replay_report.c_str(), stdout);
    return 0;
  }
  for (auto& f : fams)
    if (only.empty() || only == f.name) R.run(f, check);
  // totals
  uint64_t execs = 0, bp[6] = {0}, outc = 0, maxpts = 0;
  std::string per;
  for (auto& fr : R.results()) {
    execs += fr.counters[4];
    for (int b = 0; b < 6; b++) bp[b] += fr.counters[5 + b];
    outc += fr.counters[11];
    maxpts = std::max<uint64_t>(maxpts, fr.counters[12]);
    per += (per.empty() ? "" : ", ") + std::string("\"") + fr.fam.name + "\": {\"programs\": " + std::to_string(fr.counters[13]) + ", \"work_items\": " + std::to_string(fr.evals) + ", \"schedules\": " + std::to_string(fr.counters[4]) + ", \"by_preemptions\": [" + std::to_string(fr.counters[5]) + "," +
           std::to_string(fr.counters[6]) + "," + std::to_string(fr.counters[7]) + "," + std::to_string(fr.counters[8]) + "," + std::to_string(fr.counters[9]) + "], \"distinct_outcomes_summed_over_programs\": " + std::to_string(fr.counters[11]) + "}";
  }
  std::string ej = "\"states\": " + std::to_string(execs) + ", \"transitions\": " + std::to_string(execs) + ", \"schedules_explored\": " + std::to_string(execs) + ", \"preemption_bound\": " + std::to_string(bound) +
                   ", \"schedules_by_preemptions\": [" + std::to_string(bp[0]) + "," + std::to_string(bp[1]) + "," + std::to_string(bp[2]) + "," + std::to_string(bp[3]) + "," + std::to_string(bp[4]) + "], \"distinct_outcomes\": " +
                   std::to_string(outc) + ", \"per_scenario\": {" + per + "}";
  return R.finish(ej);
}
