// Engine schemaenum (C19): Document::ParseSchema against the merge model
//   merge(E,T) = (E and T both non-empty objects)
//                  ? { k : (k in T ? merge(E[k],T[k]) : E[k])  for k in E, in E's order }
//                  : T
// over all pairs (E,T) of duplicate-free JSON values up to a token budget, and
// repeated application (E,T1,T2).
#include <memory>
#include <set>

#include "common/families.hpp"
#include "common/refjson.hpp"
#include "common/runner.hpp"
#include "common/sonic_cmp.hpp"
#include "common/track_alloc.hpp"
#include "sonic/sonic.h"

#if defined(__SANITIZE_ADDRESS__)
extern "C" size_t __sanitizer_get_current_allocated_bytes();
#define HAVE_ASAN 1
#else
#define HAVE_ASAN 0
#endif

using namespace sonic_json;
using PoolDoc = Document;
using SimpleDoc = GenericDocument<DNode<SimpleAllocator>>;
using TrackDoc = GenericDocument<DNode<ta::TrackingAllocator>>;

static bool nonempty_obj(const ref::Value& v) { return v.k == ref::Obj && !v.o.empty(); }

static ref::Value merge(const ref::Value& E, const ref::Value& T) {
  if (nonempty_obj(E) && nonempty_obj(T)) {
    ref::Value r = ref::Value::mk(ref::Obj);
    for (auto& m : E.o) {
      const ref::Value* t = T.find(m.first);
      r.o.emplace_back(m.first, t ? merge(m.second, *t) : m.second);
    }
    return r;
  }
  return T;
}

// locate the minimal mismatching subtree and classify it
static std::string classify(const ref::Value& E, const ref::Value& T, const ref::Value& got, std::string& where) {
  ref::Value exp = merge(E, T);
  if (ref::identical(exp, got)) return "";
  if (nonempty_obj(E) && nonempty_obj(T) && got.k == ref::Obj && got.o.size() == E.o.size()) {
    bool same_keys = true;
    for (size_t i = 0; i < E.o.size(); i++)
      if (E.o[i].first != got.o[i].first) same_keys = false;
    if (same_keys) {
      for (size_t i = 0; i < E.o.size(); i++) {
        if (ref::identical(exp.o[i].second, got.o[i].second)) continue;
        const ref::Value* t = T.find(E.o[i].first);
        where += "." + E.o[i].first;
        if (!t) return "schema_undeclared_member_changed";
        return classify(E.o[i].second, *t, got.o[i].second, where);
      }
    }
    return "schema_keyset_changed";
  }
  // minimal: E or T is not a non-empty object -> got should be T
  if (nonempty_obj(E) && T.k == ref::Obj && T.o.empty() && ref::identical(got, E)) return "schema_text_empty_object_keeps_existing";
  return "schema_mismatch";
}

struct ExactBuf {
  char* p;
  size_t n;
  explicit ExactBuf(const std::string& s) : n(s.size()) {
    p = (char*)std::malloc(n);
    if (n) std::memcpy(p, s.data(), n);
  }
  ~ExactBuf() { std::free(p); }
};

// state of the existing document before ParseSchema: 0 as parsed; 1 a lookup map on every object (also the
// empty ones); 2 every object has gone through AddMember + CreateMap + RemoveMember (grown block, map that has
// seen an insertion and a removal; an empty object keeps its block and its map)
template <class N, class A>
static void prepare_existing(N& n, A& al, int emode) {
  if (n.IsObject()) {
    for (auto it = n.MemberBegin(); it != n.MemberEnd(); ++it) prepare_existing(it->value, al, emode);
    if (emode == 2) n.AddMember("zz~", N(1), al);
    n.CreateMap(al);
    if (emode == 2) n.RemoveMember("zz~");
  } else if (n.IsArray()) {
    for (auto it = n.Begin(); it != n.End(); ++it) prepare_existing(*it, al, emode);
  }
}

// state 3 of the existing document: the same value built through the mutation API with CONSTANT strings and keys
// (the node only points at caller-owned bytes, which the library must never write to)
#include <deque>
template <class N, class A>
static void build_const(const ref::Value& v, N& out, A& al, std::deque<std::string>& store) {
  switch (v.k) {
    case ref::Null: out.SetNull(); break;
    case ref::True: out.SetBool(true); break;
    case ref::False: out.SetBool(false); break;
    case ref::Uint: out.SetUint64(v.u); break;
    case ref::Sint: out.SetInt64((int64_t)v.u); break;
    case ref::Real: out.SetDouble(v.dbl()); break;
    case ref::Str:
      store.push_back(v.s);
      out.SetString(StringView(store.back().data(), store.back().size()));
      break;
    case ref::Arr:
      out.SetArray();
      for (auto& x : v.a) {
        N c;
        build_const(x, c, al, store);
        out.PushBack(std::move(c), al);
      }
      break;
    case ref::Obj:
      out.SetObject();
      for (auto& m : v.o) {
        N c;
        build_const(m.second, c, al, store);
        store.push_back(m.first);
        out.AddMember(StringView(store.back().data(), store.back().size()), std::move(c), al, false);
      }
      break;
  }
}

// after ParseSchema the document must be an ordinary document: every container it holds (kept, updated in place or newly
// built by the handler) is grown by three children through the mutation API, children first
template <class N, class A>
static void grow_all(N& n, ref::Value& m, A& al) {
  if (n.IsObject()) {
    for (size_t i = 0; i < m.o.size(); i++) grow_all((n.MemberBegin() + (long)i)->value, m.o[i].second, al);
    for (int k = 0; k < 3; k++) {
      std::string key = "zz~grow" + std::to_string(k);
      n.AddMember(StringView(key.data(), key.size()), N((uint64_t)k), al, true);
      m.o.emplace_back(key, ref::Value::mkU((uint64_t)k));
    }
  } else if (n.IsArray()) {
    for (size_t i = 0; i < m.a.size(); i++) grow_all(n[i], m.a[i], al);
    for (int k = 0; k < 3; k++) {
      n.PushBack(N((uint64_t)k), al);
      m.a.push_back(ref::Value::mkU((uint64_t)k));
    }
  }
}

template <class Doc>
static void apply(const std::string& e, const std::vector<const std::string*>& ts, const ref::Value& E, const std::vector<const ref::Value*>& Ts,
                  const char* tag0, vr::Ctx& ctx, int emode = 0) {
  std::string tagbuf = std::string(tag0) + (emode == 1 ? "+maps" : emode == 2 ? "+maps-after-add-remove" : emode == 3 ? "+api-built-constant-strings" : "");
  const char* tag = tagbuf.c_str();
  std::string desc = "E=" + e;
  for (auto t : ts) desc += "  T=" + *t;
  ExactBuf eb(e);
  Doc doc;
  doc.Parse(eb.p, eb.n);
  if (doc.HasParseError()) {
    ctx.violation("rejects_valid", "rejects_valid", desc, "Parse(E) failed code %d", (int)doc.GetParseError());
    return;
  }
  std::deque<std::string> store, store_copy;
  if (emode == 3) {
    typename Doc::NodeType root;
    build_const(E, root, doc.GetAllocator(), store);
    static_cast<typename Doc::NodeType&>(doc) = std::move(root);
    store_copy = store;
    desc += "  [E built through the API with constant strings and keys]";
  } else if (emode) {
    prepare_existing(static_cast<typename Doc::NodeType&>(doc), doc.GetAllocator(), emode);
    desc += emode == 1 ? "  [lookup maps on every object of E]" : "  [every object of E: AddMember, CreateMap, RemoveMember]";
  }
  ref::Value cur = E;
  for (size_t i = 0; i < ts.size(); i++) {
    ExactBuf tb(*ts[i]);
    doc.ParseSchema(tb.p, tb.n);
    // the input buffer may be released by the caller right after the call
    std::memset(tb.p, '#', tb.n);
    if (doc.HasParseError()) {
      ctx.violation("schema_error", std::string("schema_error_") + tag, desc, "ParseSchema of a valid text reports code %d at %zu (step %zu)", (int)doc.GetParseError(), doc.GetErrorOffset(), i);
      return;
    }
    if (store != store_copy) {
      ctx.violation("schema_wrote_caller_memory", "schema_wrote_caller_memory", desc, "[%s] ParseSchema modified bytes of a constant string that belongs to the caller", tag);
      return;
    }
    ref::Value got = sc::to_ref(doc);
    std::string where = "$";
    std::string cls = classify(cur, *Ts[i], got, where);
    if (!cls.empty()) {
      ctx.violation("schema_result", cls + (ts.size() > 1 ? "_repeated" : ""), desc, "[%s] step %zu at %s: got %s expected %s", tag, i, where.c_str(), ref::show(got).c_str(),
                    ref::show(merge(cur, *Ts[i])).c_str());
      return;
    }
    cur = merge(cur, *Ts[i]);
    {
      // every accessor, in particular the keyed lookups, must see the new value
      std::string acc = sc::compare(doc, cur);
      if (!acc.empty()) {
        ctx.violation("schema_accessor", std::string("schema_accessor_mismatch"), desc, "[%s] step %zu: iteration shows the expected value but %s", tag, i, acc.c_str());
        return;
      }
    }
    // the document must still be fully usable: serialise, reparse, compare
    std::string dump = doc.Dump();
    ref::Result rp = ref::parse(dump);
    if (!rp.ok || !ref::identical(rp.v, cur)) {
      ctx.violation("schema_dump", std::string("schema_dump_") + tag, desc, "Dump after ParseSchema is %s", dump.c_str());
      return;
    }
  }
  // continued use: grow every container of the result, then read everything back (for the map states of the existing
  // document the growth would mostly re-test the mutation API under a map, which C12 does)
  if (emode == 0 || emode == 3) {
    grow_all(static_cast<typename Doc::NodeType&>(doc), cur, doc.GetAllocator());
    std::string acc = sc::compare(doc, cur);
    if (!acc.empty()) {
      ctx.violation("schema_then_mutate", "schema_then_mutate_mismatch", desc, "[%s] after growing every container of the result by three children: %s", tag, acc.c_str());
      return;
    }
    ref::Result rp = ref::parse(doc.Dump());
    if (!rp.ok || !ref::identical(rp.v, cur)) ctx.violation("schema_then_mutate", "schema_then_mutate_dump", desc, "[%s] Dump after growing every container of the result differs from the model", tag);
  }
}

int main(int argc, char** argv) {
  vr::Args args = vr::parse_args(argc, argv);
  vr::Runner R(args);
  const bool quick = R.quick();
  ta::ledger().live.reserve(4096);
  const std::vector<std::string> leaves = {"null", "true", "1", "1.5", "\"s\""};
  auto mk = [&](unsigned n, const std::vector<std::string>& keys) {
    std::vector<std::string> out;
    for (auto& t : fam::valid_texts_by_budget(n, leaves, keys)) {
      ref::Result r = ref::parse(t);
      if (r.ok && !ref::has_dup_keys(r.v)) out.push_back(t);
    }
    return out;
  };
  const unsigned nE = HAVE_ASAN ? (quick ? 7 : 9) : (quick ? 9 : 11);
  const unsigned nT = HAVE_ASAN ? (quick ? 7 : 9) : (quick ? 9 : 10);
  std::vector<std::string> WE = mk(nE, {"\"a\"", "\"b\""});
  std::vector<std::string> WT = mk(nT, {"\"a\"", "\"b\"", "\"c\""});
  // a few deeper hand-written shapes on both sides
  for (const char* s : {"{\"a\":{\"a\":{\"a\":1,\"b\":[1,{\"a\":2}]},\"b\":\"s\"},\"b\":[{\"a\":1},{\"b\":2}]}", "{\"a\":{\"b\":{\"a\":{\"b\":null}}}}", "{\"b\":{\"a\":[[],{}]},\"a\":1.5}",
                        "[{\"a\":{\"b\":1}},[{\"a\":2}]]"}) {
    WE.push_back(s);
    WT.push_back(s);
  }
  std::vector<ref::Value> VE, VT;
  for (auto& s : WE) VE.push_back(ref::parse(s).v);
  for (auto& s : WT) VT.push_back(ref::parse(s).v);
  // spaced variants of T (whitespace layout of the text must not matter)
  std::vector<std::string> WTs;
  std::vector<ref::Value> VTs;
  {
    size_t lim = std::min<size_t>(WT.size(), quick ? 400 : 2000);
    for (size_t i = 0; i < lim; i++)
      for (unsigned k : {1u, 3u, 63u, 64u, 65u}) {
        std::string s(k % 4, ' ');
        for (char c : WT[i]) {
          s.push_back(c);
          if (c == ',' || c == ':' || c == '{' || c == '[') s.append(k, ' ');
        }
        s.append(k % 3, ' ');
        ref::Result r = ref::parse(s);
        if (!r.ok) continue;
        WTs.push_back(s);
        VTs.push_back(r.v);
      }
  }
  // Shape-bounded set (the token budget above cannot reach depth 2 x width 2): every duplicate-free value
  // with <= 2 children per container and depth <= 2 over leaves {1,"s"(,null)} and keys a,b.
  std::vector<std::string> WD;
  std::vector<ref::Value> VD;
  {
    // "leaves" include the empty containers, so that an empty object/array can sit at depth 2
    std::vector<std::string> lv = {"1", "{}"};
    if (!quick && !HAVE_ASAN) {
      lv.push_back("\"s\"");
      lv.push_back("[]");
    }
    auto containers = [](const std::vector<std::string>& S) {
      std::vector<std::string> out = {"[]", "{}"};
      for (auto& x : S) out.push_back("[" + x + "]");
      for (auto& x : S)
        for (auto& y : S) out.push_back("[" + x + "," + y + "]");
      for (const char* k : {"\"a\"", "\"b\""})
        for (auto& x : S) out.push_back(std::string("{") + k + ":" + x + "}");
      for (int o = 0; o < 2; o++)
        for (auto& x : S)
          for (auto& y : S) out.push_back(std::string("{") + (o ? "\"b\"" : "\"a\"") + ":" + x + "," + (o ? "\"a\"" : "\"b\"") + ":" + y + "}");
      return out;
    };
    auto dedupe = [](std::vector<std::string>& v) {
      std::vector<std::string> o;
      std::set<std::string> seen;
      for (auto& x : v)
        if (seen.insert(x).second) o.push_back(x);
      v = o;
    };
    std::vector<std::string> v1 = lv;
    for (auto& c : containers(lv)) v1.push_back(c);
    dedupe(v1);
    WD = lv;
    for (auto& c : containers(v1)) WD.push_back(c);
    dedupe(WD);
    for (auto& t : WD) VD.push_back(ref::parse(t).v);
  }
  // subsets for repeated application
  const size_t m3 = std::min<size_t>(WE.size(), quick ? 90 : 200);
  const size_t m3t = std::min<size_t>(WT.size(), quick ? 90 : 200);

  vr::Family f1, f2, f3, f4;
  f4.name = "SD_pairs_shape_depth2";
  f4.count = (uint64_t)WD.size() * WD.size() * 3;
  f4.group = "SD";
  f4.chunk = 512;
  f4.rule = "all pairs (E,T) over the " + std::to_string(WD.size()) + " duplicate-free values with <= 2 children per container and nesting depth <= 2 (leaves 1 and the empty object; thorough adds \"s\" and the empty array; keys a,b in both orders): reaches two-member objects nested in two-member objects on both sides; x 3 states of the existing document (as parsed / lookup maps on every object incl. empty ones / every object after AddMember+CreateMap+RemoveMember; the API-built constant-string state is in SP and SQ)";
  const size_t mr = std::min<size_t>(WD.size(), quick ? 36 : 60);
  vr::Family f5;
  f5.name = "SR_shape_repeated";
  f5.count = (uint64_t)mr * mr * mr * 3;
  f5.group = "SR";
  f5.chunk = 512;
  f5.rule = "repeated application over the first " + std::to_string(mr) + " shape-bounded values: all (E,T1,T2) x the 3 states of the existing document";
  f1.name = "SP_pairs";
  f1.count = (uint64_t)WE.size() * WT.size() * 2;
  f1.group = "SP";
  f1.chunk = 512;
  f1.rule = "all pairs (E,T): E over " + std::to_string(WE.size()) + " duplicate-free values (<= " + std::to_string(nE) + " tokens, leaves null/true/1/1.5/\"s\", keys a,b), T over " + std::to_string(WT.size()) +
            " values (<= " + std::to_string(nT) + " tokens, keys a,b,c: includes undeclared keys); Parse(E) - or E built through the mutation API with constant strings and keys, whose bytes must stay untouched -; ParseSchema(T); document read back through accessors == merge(E,T) in E's member order; Dump reparses to it. Non-trivial: E and T both non-empty objects sharing a key, or kinds differ.";
  f2.name = "SS_pairs_spaced_text";
  f2.count = (uint64_t)std::min<size_t>(WE.size(), quick ? 300 : 1500) * WTs.size();
  f2.group = "SS";
  f2.chunk = 512;
  f2.rule = "pairs with T re-spaced (1,3,63,64,65 spaces after every structural token): whitespace layout of the text must not matter (the undeclared-member skipper scans 64-byte blocks)";
  f3.name = "ST_triples_repeated";
  f3.count = (uint64_t)m3 * m3t * m3t;
  f3.group = "ST";
  f3.chunk = 512;
  f3.rule = "repeated application: all (E,T1,T2) over the first " + std::to_string(m3) + " x " + std::to_string(m3t) + "^2 values; expected merge(merge(E,T1),T2)";

  // SC: deep chains. d nested two-member objects {"a":{"a":...,"b":1},"b":1} on both sides (every nesting depth the
  // handler's stacks pass through), the chain of the text one level shorter / equal / longer, and at the bottom every
  // combination of kinds (so that the switch from "update in place" to "build a new value" happens at every depth)
  static std::vector<unsigned> DC;
  if (DC.empty()) {
    for (unsigned d = 0; d <= 70; d++) DC.push_back(d);
    for (unsigned b : {128u, 256u})
      for (int x = -1; x <= 1; x++) DC.push_back(b + x);
  }
  static const char* kBotE[6] = {"1", "\"s\"", "null", "[1]", "{}", "{\"a\":1}"};
  static const char* kBotT[7] = {"{}", "{\"a\":2}", "{\"c\":1}", "[1,{\"a\":1}]", "2", "{\"a\":{\"a\":1}}", "{\"a\":1,\"b\":{\"a\":[]}}"};
  vr::Family f6;
  f6.name = "SC_deep_chains";
  f6.count = (uint64_t)DC.size() * 3 * 6 * 7 * 3;
  f6.group = "SC";
  f6.chunk = 64;
  f6.rule = "E = d nested objects {\"a\":{...},\"b\":1} over a bottom value from {1,\"s\",null,[1],{},{\"a\":1}} for every d in 0..70; T = the same chain of depth d-1, d, d+1 over a bottom from 7 values (d in 127..129, 255..257: equal depth, 3 x 3 bottoms) of every kind (incl. {} and objects that introduce new / nested members); the 3 states of the existing document for d <= 16, as parsed beyond";
  auto chain = [](unsigned d, const char* bottom, const char* sibling) {
    std::string s;
    for (unsigned i = 0; i < d; i++) s += "{\"a\":";
    s += bottom;
    for (unsigned i = 0; i < d; i++) s += std::string(",\"b\":") + sibling + "}";
    return s;
  };

  // SV: member COUNTS. Existing object of N members, text with M undeclared keys and updates of the first / middle /
  // last declared member in 4 layouts
  static std::vector<unsigned> NV = {0, 1, 2, 3, 8, 15, 16, 17, 24, 31, 32, 33, 34, 40, 64, 65}, MV;
  if (MV.empty()) {
    for (unsigned m = 0; m <= 40; m++) MV.push_back(m);
    for (unsigned m : {48u, 63u, 64u, 65u, 100u}) MV.push_back(m);
  }
  vr::Family f7;
  f7.name = "SV_member_counts";
  f7.count = (uint64_t)NV.size() * MV.size() * 4 * 2 * 3;
  f7.group = "SV";
  f7.chunk = 64;
  f7.rule = "(undeclared keys alternately plain / spelled with \\/ / with a \\u escape; layout 3 spells the declared keys with a \\u escape) existing object of N members (N in {0,1,2,3,8,15..17,24,31..34,40,64,65}) x text with M undeclared keys (every M in 0..40 and 48,63..65,100) plus values for the first, middle and last declared member, in 4 layouts (undeclared first / declared first / interleaved / undeclared first with the declared ones in reverse order), declared values merged (object) or replaced (string); x 3 states of the existing document";

  // SQ: string over string. Existing and new string values of different lengths / contents, in 4 positions, the existing
  // one parsed, under a lookup map, or a CONSTANT string of the caller (which must not be written to)
  static const char* kStrs[8] = {"\"\"", "\"s\"", "\"tt\"", "\"default-name\"", "\"bob\"", "\"x\\ny\"", "\"0123456789012345678901234567890123456789\"", "\"012345678901234567890123456789012345678\""};
  vr::Family f8;
  f8.name = "SQ_string_over_string";
  f8.count = 8 * 8 * 4 * 4;
  f8.group = "SQ";
  f8.chunk = 16;
  f8.rule = "all ordered pairs (S1,S2) of 8 strings (empty, 1, 2, 3, 12, 39, 40 bytes, one with an escape) as existing / new value at the root, in a member, in a nested member next to a sibling holding S1, in an array; x 4 states of the existing document (parsed / maps / maps after add+remove / API-built with constant strings whose bytes must not change)";
  // SZ: scalar over scalar: every ordered pair of scalar spellings (zeros of both signs and kinds, equal values of
  // different kinds, extremes, literals, strings that look like numbers): the text's value replaces the existing one WHOLE
  static const char* kScal[] = {"0", "-0", "0.0", "-0.0", "0e0", "-0e5", "0.000", "1", "-1", "1.0", "-1.0", "1e0", "18446744073709551615", "9223372036854775808", "-9223372036854775808", "1.5", "-1.5", "5e-324", "-5e-324",
                                "1e-400", "-1e-400", "true", "false", "null", "\"\"", "\"s\"", "\"0\"", "\"-0.0\"", "[]", "{}"};
  static const unsigned NSCAL = sizeof(kScal) / sizeof(kScal[0]);
  vr::Family f10;
  f10.name = "SZ_scalar_over_scalar";
  f10.count = (uint64_t)NSCAL * NSCAL * 4 * 4;
  f10.group = "SZ";
  f10.chunk = 64;
  f10.rule = "all ordered pairs (existing, text) of " + std::to_string(NSCAL) + " scalar spellings (integer / double zeros of both signs in 7 spellings, +-1 as integer and double, 2^64-1, +-2^63, +-1.5, smallest subnormals, underflowing +-1e-400, literals, strings that look like numbers, empty containers) in 4 positions (root, member, nested member next to an untouched sibling, array element) x 4 states of the existing document: the result is bit-identical to the text's value (number kind and sign of zero included)";

  // SF: a REJECTED ParseSchema, then continued use. T1 is every proper prefix (and the text with one byte garbled) of a
  // schema text; its error must be reported and the document must stay a valid tree; the next, valid ParseSchema must
  // give merge(whatever the document then holds, T2)
  static const char* kSFe[] = {"{\"a\":1,\"b\":\"s\"}", "{\"a\":{\"a\":1},\"b\":[1]}", "[1,2]", "null", "{\"a\":[],\"b\":{}}"};
  static const char* kSFt1[] = {"{\"b\":[[1,2],[3]]}", "{\"b\":[{\"k\":true}],\"a\":{\"x\":[{\"y\":1}]}}", "[[1,2],[3,{\"a\":[4]}]]", "{\"a\":{\"a\":{\"a\":[1,[2]]}}}", "{\"a\":\"str\",\"b\":[\"p\",[\"q\"]]}"};
  static const char* kSFt2[] = {"{\"a\":{\"n\":1}}", "{\"b\":{\"n\":[1]},\"a\":2}", "{\"a\":[1]}", "[{\"a\":1}]", "{\"a\":{\"a\":{}},\"b\":{\"k\":\"v\"}}", "{\"b\":\"s\"}"};
  vr::Family f9;
  f9.name = "SF_rejected_then_valid";
  f9.count = 5 * 5 * 64 * 2 * 6;
  f9.group = "SF";
  f9.chunk = 64;
  f9.rule = "5 existing documents x (every proper prefix, and every single-byte garbling, of 5 schema texts that build containers 2-4 levels deep) as a REJECTED ParseSchema x 6 valid texts afterwards: the rejection is reported, the document stays a valid tree (read back completely), and the second call yields merge(that tree, text); pool and freeing allocator under ASan";

  vr::CheckFn check = [&](const vr::Family& f, uint64_t idx, vr::Ctx& ctx) {
    if (f.name[1] == 'F') {
      unsigned t2i = (unsigned)(idx % 6);
      idx /= 6;
      unsigned garble = (unsigned)(idx % 2);
      idx /= 2;
      unsigned cut = (unsigned)(idx % 64);
      idx /= 64;
      std::string t1 = kSFt1[idx % 5];
      std::string et = kSFe[idx / 5];
      if (cut >= t1.size()) {
        ctx.skip();
        return;
      }
      if (garble)
        t1[cut] = t1[cut] == '}' ? ']' : '}';
      else
        t1.resize(cut);
      ref::Result r1 = ref::parse(t1), r2 = ref::parse(std::string(kSFt2[t2i])), re = ref::parse(et);
      if (r1.ok) {  // the garbled text happens to be valid
        ctx.skip();
        return;
      }
      ctx.eval();
      ctx.nontriv();
      std::string desc = "E=" + et + "  T1(rejected)=" + t1 + "  T2=" + kSFt2[t2i];
      if (ctx.want_sample) ctx.sample(desc);
      auto run = [&](auto* tagdoc, const char* tag) {
        using Doc = typename std::remove_pointer<decltype(tagdoc)>::type;
        Doc doc;
        doc.Parse(et);
        {
          ExactBuf b1(t1);
          doc.ParseSchema(b1.p, b1.n);
          std::memset(b1.p, '#', b1.n);
        }
        // (a fault inside the value of an UNDECLARED key is skipped, not parsed: such a text may be accepted; the statement
        // speaks of valid texts only, so this is no verdict - the case simply does not test a rejection)
        if (!doc.HasParseError()) return;
        // whatever the document holds now, it must be a valid tree: read it back through every accessor
        ref::Value mid = sc::to_ref(doc);
        std::string acc = sc::compare(doc, mid);
        if (!acc.empty()) {
          ctx.violation("schema_accessor", "schema_after_rejection_inconsistent", desc, "[%s] after the rejected call the document is inconsistent: %s", tag, acc.c_str());
          return;
        }
        const std::string t2s = kSFt2[t2i];
        ExactBuf b2(t2s);
        doc.ParseSchema(b2.p, b2.n);
        std::memset(b2.p, '#', b2.n);
        if (doc.HasParseError()) {
          ctx.violation("schema_error", std::string("schema_error_") + tag, desc, "[%s] valid ParseSchema after a rejected one reports code %d", tag, (int)doc.GetParseError());
          return;
        }
        ref::Value want = merge(mid, r2.v);
        ref::Value got = sc::to_ref(doc);
        if (!ref::identical(got, want)) {
          std::string where = "$";
          std::string cls = classify(mid, r2.v, got, where);
          ctx.violation("schema_result", cls == "schema_mismatch" ? std::string("schema_mismatch_after_rejection") : cls + "_repeated", desc, "[%s] after a rejected ParseSchema the next one gives %s, expected %s (document before it: %s)", tag, ref::show(got).substr(0, 200).c_str(), ref::show(want).substr(0, 200).c_str(),
                        ref::show(mid).substr(0, 200).c_str());
          return;
        }
        acc = sc::compare(doc, want);
        if (!acc.empty()) ctx.violation("schema_accessor", "schema_accessor_mismatch", desc, "[%s] %s", tag, acc.c_str());
      };
      run((PoolDoc*)nullptr, "pool");
#if HAVE_ASAN
      run((SimpleDoc*)nullptr, "simple");
#endif
      (void)re;
      return;
    }
    if (f.name[1] == 'Z') {
      int emode = (int)(idx % 4);
      idx /= 4;
      unsigned shape = (unsigned)(idx % 4);
      idx /= 4;
      std::string s1 = kScal[idx / NSCAL], s2 = kScal[idx % NSCAL];
      std::string et, tt;
      switch (shape) {
        case 0: et = s1; tt = s2; break;
        case 1: et = "{\"a\":" + s1 + "}"; tt = "{\"a\":" + s2 + "}"; break;
        case 2: et = "{\"a\":{\"b\":" + s1 + "},\"c\":" + s1 + "}"; tt = "{\"a\":{\"b\":" + s2 + "}}"; break;
        default: et = "{\"a\":[" + s1 + "," + s1 + "]}"; tt = "{\"a\":[" + s2 + "]}"; break;
      }
      ref::Result re = ref::parse(et), rt = ref::parse(tt);
      if (!re.ok || !rt.ok) {
        ctx.violation("generator_invalid", "generator_invalid", tt, "harness error: generated text is not valid");
        return;
      }
      ctx.eval();
      ctx.nontriv();
      if (ctx.want_sample) ctx.sample("E=" + et + " T=" + tt + " state " + std::to_string(emode));
      std::vector<const std::string*> ts1 = {&tt};
      std::vector<const ref::Value*> Ts1 = {&rt.v};
      apply<PoolDoc>(et, ts1, re.v, Ts1, "pool", ctx, emode);
#if HAVE_ASAN
      apply<SimpleDoc>(et, ts1, re.v, Ts1, "simple", ctx, emode);
#endif
      return;
    }
    if (f.name[1] == 'Q') {
      int emode = (int)(idx % 4);
      idx /= 4;
      unsigned shape = (unsigned)(idx % 4);
      idx /= 4;
      std::string s1 = kStrs[idx / 8], s2 = kStrs[idx % 8];
      std::string et, tt;
      switch (shape) {
        case 0: et = s1; tt = s2; break;
        case 1: et = "{\"a\":" + s1 + "}"; tt = "{\"a\":" + s2 + "}"; break;
        case 2: et = "{\"a\":{\"b\":" + s1 + "},\"c\":" + s1 + "}"; tt = "{\"a\":{\"b\":" + s2 + "}}"; break;
        default: et = "{\"a\":[" + s1 + "," + s1 + "]}"; tt = "{\"a\":[" + s2 + "]}"; break;
      }
      ref::Result re = ref::parse(et), rt = ref::parse(tt);
      if (!re.ok || !rt.ok) {
        ctx.violation("generator_invalid", "generator_invalid", tt, "harness error: generated text is not valid");
        return;
      }
      ctx.eval();
      ctx.nontriv();
      if (ctx.want_sample) ctx.sample("E=" + et + " T=" + tt + " state " + std::to_string(emode));
      std::vector<const std::string*> ts1 = {&tt};
      std::vector<const ref::Value*> Ts1 = {&rt.v};
      apply<PoolDoc>(et, ts1, re.v, Ts1, "pool", ctx, emode);
#if HAVE_ASAN
      apply<SimpleDoc>(et, ts1, re.v, Ts1, "simple", ctx, emode);
#endif
      return;
    }
    if (f.name[1] == 'V') {
      int emode = (int)(idx % 3);
      idx /= 3;
      unsigned repl = (unsigned)(idx % 2);
      idx /= 2;
      unsigned layout = (unsigned)(idx % 4);
      idx /= 4;
      unsigned M = MV[idx % MV.size()];
      unsigned N = NV[idx / MV.size()];
      auto tk = [](unsigned j) { return "\"k" + std::to_string(j) + "\""; };
      std::string et = "{";
      for (unsigned j = 0; j < N; j++) et += std::string(j ? "," : "") + tk(j) + ":{\"v\":" + std::to_string(j) + ",\"w\":null}";
      et += "}";
      std::vector<unsigned> upd;
      if (N) upd.push_back(0);
      if (N > 2) upd.push_back(N / 2);
      if (N > 1) upd.push_back(N - 1);
      if (layout == 3) std::reverse(upd.begin(), upd.end());
      std::vector<std::string> news, upds, items;
      // undeclared keys: every second one spelled with an escape (\/ or a \u escape of its first letter)
      for (unsigned j = 0; j < M; j++)
        news.push_back(std::string(j % 4 == 1 ? "\"n\\/" : j % 4 == 3 ? "\"\\u006e" : "\"n") + std::to_string(j) + "\":" + (j % 3 == 2 ? "{\"v\":[1,{\"k0\":2}]}" : std::to_string(j)));
      for (unsigned u : upd) upds.push_back((layout == 3 ? "\"\\u006b" + std::to_string(u) + "\"" : tk(u)) + ":" + (repl ? "\"replaced\"" : "{\"w\":" + std::to_string(u) + ",\"zz\":1}"));
      if (layout == 0 || layout == 3) {
        items = news;
        items.insert(items.end(), upds.begin(), upds.end());
      } else if (layout == 1) {
        items = upds;
        items.insert(items.end(), news.begin(), news.end());
      } else {
        size_t ui = 0;
        for (size_t j = 0; j < news.size(); j++) {
          if (ui < upds.size() && j * upds.size() >= ui * news.size()) items.push_back(upds[ui++]);
          items.push_back(news[j]);
        }
        while (ui < upds.size()) items.push_back(upds[ui++]);
      }
      std::string tt = "{";
      for (size_t j = 0; j < items.size(); j++) tt += (j ? "," : "") + items[j];
      tt += "}";
      ref::Result re = ref::parse(et), rt = ref::parse(tt);
      if (!re.ok || !rt.ok) {
        ctx.violation("generator_invalid", "generator_invalid", tt, "harness error: generated text is not valid");
        return;
      }
      ctx.eval();
      ctx.nontriv();
      if (ctx.want_sample) ctx.sample("N=" + std::to_string(N) + " M=" + std::to_string(M) + " layout " + std::to_string(layout) + (repl ? " replace" : " merge"));
      std::vector<const std::string*> ts1 = {&tt};
      std::vector<const ref::Value*> Ts1 = {&rt.v};
      apply<PoolDoc>(et, ts1, re.v, Ts1, "pool", ctx, emode);
#if HAVE_ASAN
      apply<SimpleDoc>(et, ts1, re.v, Ts1, "simple", ctx, emode);
#endif
      return;
    }
    if (f.name[1] == 'C') {
      int emode = (int)(idx % 3);
      idx /= 3;
      unsigned bt = (unsigned)(idx % 7);
      idx /= 7;
      unsigned be = (unsigned)(idx % 6);
      idx /= 6;
      int dd = (int)(idx % 3) - 1;
      unsigned d = DC[idx / 3];
      // beyond depth 70 (the reference model is quadratic in the depth): equal depths, 3 x 3 bottoms
      if ((int)d + dd < 0 || (d > 16 && emode != 0) || (HAVE_ASAN && quick && d > 34 && !(d >= 62 && d <= 65)) || (d > 70 && (dd != 0 || !(be == 0 || be == 4 || be == 5) || !(bt == 0 || bt == 1 || bt == 5)))) {
        ctx.skip();
        return;
      }
      std::string et = chain(d, kBotE[be], "1"), tt = chain((unsigned)((int)d + dd), kBotT[bt], "true");
      ref::Result re = ref::parse(et), rt = ref::parse(tt);
      if (!re.ok || !rt.ok) {
        ctx.violation("generator_invalid", "generator_invalid", et, "harness error: generated chain is not valid");
        return;
      }
      ctx.eval();
      ctx.nontriv();
      if (ctx.want_sample) ctx.sample("depth " + std::to_string(d) + (dd < 0 ? "-1" : dd > 0 ? "+1" : "") + " E-bottom " + kBotE[be] + " T-bottom " + kBotT[bt]);
      std::vector<const std::string*> ts1 = {&tt};
      std::vector<const ref::Value*> Ts1 = {&rt.v};
      apply<PoolDoc>(et, ts1, re.v, Ts1, "pool", ctx, emode);
#if HAVE_ASAN
      apply<SimpleDoc>(et, ts1, re.v, Ts1, "simple", ctx, emode);
#endif
      return;
    }
    std::vector<const std::string*> ts;
    std::vector<const ref::Value*> Ts;
    size_t ei;
    int emode = 0;
    if (f.name[1] == 'P') {
      emode = (int)(idx % 2) * 3;  // as parsed / built through the API with constant strings
      idx /= 2;
      ei = idx / WT.size();
      size_t ti = idx % WT.size();
      ts = {&WT[ti]};
      Ts = {&VT[ti]};
    } else if (f.name[1] == 'D') {
      emode = (int)(idx % 3);
      idx /= 3;
      ei = idx / WD.size();
      size_t ti = idx % WD.size();
      if (HAVE_ASAN && emode != 0 && (ei >= 300 || ti >= 300)) {  // the ASan passes keep the map states to the 300 smallest shapes
        ctx.skip();
        return;
      }
      ts = {&WD[ti]};
      Ts = {&VD[ti]};
    } else if (f.name[1] == 'R') {
      emode = (int)(idx % 3);
      idx /= 3;
      ei = idx / (mr * mr);
      size_t t1 = (idx / mr) % mr, t2 = idx % mr;
      ts = {&WD[t1], &WD[t2]};
      Ts = {&VD[t1], &VD[t2]};
    } else if (f.name[1] == 'S') {
      ei = idx / WTs.size();
      size_t ti = idx % WTs.size();
      ts = {&WTs[ti]};
      Ts = {&VTs[ti]};
    } else {
      ei = idx / (m3t * m3t);
      size_t t1 = (idx / m3t) % m3t, t2 = idx % m3t;
      ts = {&WT[t1], &WT[t2]};
      Ts = {&VT[t1], &VT[t2]};
    }
    const bool shape = f.name[1] == 'D' || f.name[1] == 'R';
    const ref::Value& E = shape ? VD[ei] : VE[ei];
    const std::string& Etext = shape ? WD[ei] : WE[ei];
    ctx.eval();
    bool nt = E.k != Ts[0]->k;
    if (nonempty_obj(E) && nonempty_obj(*Ts[0]))
      for (auto& m : Ts[0]->o)
        if (E.find(m.first)) nt = true;
    if (nt) ctx.nontriv();
    if (ctx.want_sample) {
      std::string d = "E=" + Etext;
      for (auto t : ts) d += " T=" + *t;
      ctx.sample(d);
    }
    apply<PoolDoc>(Etext, ts, E, Ts, "pool", ctx, emode);
#if HAVE_ASAN
    apply<SimpleDoc>(Etext, ts, E, Ts, "simple", ctx, emode);
#endif
  };

  std::vector<vr::Family> fams = {f1, f2, f3, f4, f5, f6, f7, f8, f9, f10};
  if (args.replay) return R.replay_one(fams, check);
  const std::string only = args.get("only");
  for (auto& f : fams)
    if (only.empty() || only == f.name) R.run(f, check);
  return R.finish();
}
