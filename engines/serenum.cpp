// Engine serenum (C06): Serialize -> valid JSON -> equal document -> identical bytes, for every
// write-buffer start state.
//  T1 documents parsed from every accepted text of the token/leaf/wide/grammar families
//  T2 strings of every byte value at every position, lengths 0..70 and 250..260, as root / array
//     element / object key + value (built through the API: arbitrary bytes incl. NUL and non-UTF-8)
//  T3 boundary integers and doubles set through the API at the root and inside containers
//  T4 non-finite doubles at every position of a small document -> kSerErrorInfinity and Dump()==""
// (documents built by arbitrary mutation histories are checked inside the domexplore engine,
//  which C06 runs as a second job.)
#include <cmath>
#include <memory>

#include "common/families.hpp"
#include "common/refjson.hpp"
#include "common/runner.hpp"
#include "common/sonic_cmp.hpp"
#include "sonic/sonic.h"

using namespace sonic_json;

static const int kCaps[12] = {0, 1, 2, 7, 8, 9, 31, 32, 33, 63, 64, 65};

// serialise `doc` into write buffers in several start states; all must give the same bytes
template <class D>
static bool serialize_all_states(const D& doc, std::string& out, vr::Ctx& ctx, const std::string& desc, SonicError* err_out) {
  bool first = true;
  SonicError err0 = kErrorNone;
  auto one = [&](WriteBuffer& wb, const char* state) {
    SonicError e = doc.Serialize(wb);
    std::string s;
    if (e == kErrorNone) {
      const char* p = wb.ToString();
      size_t n = wb.Size();
      if (p[n] != '\0') ctx.violation("tostring_nul", "ser_tostring_nul", desc, "[%s] ToString() is not NUL-terminated at Size()", state);
      s.assign(p, n);
    }
    if (first) {
      out = s;
      err0 = e;
      first = false;
    } else if (e != err0 || s != out) {
      ctx.violation("buffer_state_dependence", "ser_buffer_state_dependence", desc, "[%s] Serialize gives err %d '%s' but a fresh buffer gives err %d '%s'", state, (int)e, s.substr(0, 120).c_str(), (int)err0, out.substr(0, 120).c_str());
    }
  };
  {
    WriteBuffer wb;
    one(wb, "fresh");
    one(wb, "reused-same");
  }
  {
    WriteBuffer wb;
    Document big;
    big.Parse("[\"0123456789012345678901234567890123456789012345678901234567890123456789\",[1,2,3,4,5,6,7,8,9,10,11,12,13,14,15,16,17,18,19,20],{\"k\":1.5e300}]");
    big.Serialize(wb);
    one(wb, "reused-after-larger");
  }
  {
    WriteBuffer wb;
    Document small;
    small.Parse("1");
    small.Serialize(wb);
    one(wb, "reused-after-smaller");
  }
  for (int c : kCaps) {
    WriteBuffer wb((size_t)c);
    one(wb, ("WriteBuffer(" + std::to_string(c) + ")").c_str());
  }
  if (err_out) *err_out = err0;
  return err0 == kErrorNone;
}

// full oracle for a document whose value is known as a reference value
template <class D>
static void check_doc(const D& doc, const ref::Value& val, vr::Ctx& ctx, const std::string& desc) {
  ctx.eval();
  std::string out;
  SonicError err;
  if (!serialize_all_states(doc, out, ctx, desc, &err)) {
    ctx.violation("serialize_error", "ser_serialize_error", desc, "Serialize of a finite document failed with code %d", (int)err);
    return;
  }
  if (doc.Dump() != out) ctx.violation("dump_differs", "ser_dump_differs", desc, "Dump() differs from Serialize()");
  ref::Result rp = ref::parse(out);  // the independent recogniser
  if (!rp.ok) {
    ctx.violation("output_not_json", "ser_output_not_json", desc, "output %s is rejected by the reference recogniser (fault %d at %zu)", vr::hex(out.substr(0, 100)).c_str(), (int)rp.fault, rp.fault_off);
    return;
  }
  if (!ref::identical(rp.v, val)) {
    ctx.violation("output_value", "ser_output_value", desc, "output %s denotes %s, expected %s", out.substr(0, 200).c_str(), ref::show(rp.v).substr(0, 200).c_str(), ref::show(val).substr(0, 200).c_str());
    return;
  }
  Document back;
  back.Parse(out);
  if (back.HasParseError()) {
    ctx.violation("reparse_fails", "ser_reparse_fails", desc, "the library rejects its own output %s (code %d)", out.substr(0, 200).c_str(), (int)back.GetParseError());
    return;
  }
  std::string d = sc::compare(back, val);
  if (!d.empty()) ctx.violation("reparse_value", "ser_reparse_value", desc, "Parse(output) differs: %s", d.c_str());
  if (!ref::has_dup_keys(val) && !(back == doc)) ctx.violation("reparse_not_equal", "ser_reparse_not_equal", desc, "Parse(output) is not == the original document");
  std::string again = back.Dump();
  if (again != out) ctx.violation("not_idempotent", "ser_not_idempotent", desc, "re-serialising the reparsed document gives %s instead of %s", again.substr(0, 200).c_str(), out.substr(0, 200).c_str());
}

int main(int argc, char** argv) {
  vr::Args args = vr::parse_args(argc, argv);
  vr::Runner R(args);
  const bool quick = R.quick();
#if defined(__SANITIZE_ADDRESS__)
  const bool asan = true;
#else
  const bool asan = false;
#endif
  sc::g_skip_lookups_on_dup_keys = false;
  std::vector<fam::TextFamily> tf;
  tf.push_back(fam::make_LA(asan ? 5 : (quick ? 6 : 7)));
  tf.push_back(fam::make_LA1(asan ? 4 : (quick ? 5 : 6)));
  tf.push_back(fam::make_LW());
  std::shared_ptr<std::vector<std::string>> gram(new std::vector<std::string>());
  {
    std::vector<std::string> leaves = {"1", "-2", "1.5", "1e300", "\"a\"", "\"\\n\\\"\"", "null", "true", "false", "18446744073709551615"};
    std::vector<std::string> keys = {"\"a\"", "\"b\"", "\"\\u0000\"", "\"\""};
    *gram = fam::valid_texts_by_budget(asan ? 8 : (quick ? 10 : 11), leaves, keys);
  }
  std::map<std::string, const fam::TextFamily*> byname;
  std::vector<vr::Family> fams;
  for (auto& f : tf) {
    byname[f.meta.name] = &f;
    fams.push_back(f.meta);
  }
  vr::Family g1, t2, t3, t4;
  g1.name = "TG_grammar_texts";
  g1.count = gram->size();
  g1.group = "TG";
  g1.chunk = 64;
  g1.rule = "every valid text of bounded token count over leaves {1,-2,1.5,1e300,\"a\",escaped string,null,true,false,2^64-1} and keys {a,b,NUL-escape,''} incl. duplicate keys";
  // T2: strings
  std::vector<unsigned> lens;
  for (unsigned l = 0; l <= 70; l++) lens.push_back(l);
  for (unsigned l = 250; l <= 260; l++) lens.push_back(l);
  t2.name = "T2_strings_all_bytes";
  t2.count = 256ull * lens.size() * 4;
  t2.group = "T2";
  t2.chunk = 64;
  t2.rule = "API-built strings of every length 0..70 and 250..260 holding byte value b (0..255, incl. NUL, controls, non-UTF-8) at the first, middle, last position or everywhere; as root, array element, and object key + value";
  // T3 numbers
  std::vector<ref::Value> nums;
  {
    for (int k = 0; k < 64; k++)
      for (int d = -1; d <= 1; d++) {
        nums.push_back(ref::Value::mkU(((uint64_t)1 << k) + (uint64_t)(int64_t)d));
        nums.push_back(ref::Value::mkI((int64_t)(0 - (((uint64_t)1 << k) + (uint64_t)(int64_t)d))));
      }
    uint64_t p = 1;
    for (int k = 0; k < 20; k++) {
      for (int d = -1; d <= 1; d++) nums.push_back(ref::Value::mkU(p + (uint64_t)(int64_t)d));
      p *= 10;
    }
    nums.push_back(ref::Value::mkU(UINT64_MAX));
    nums.push_back(ref::Value::mkI(INT64_MIN));
    nums.push_back(ref::Value::mkI(INT64_MAX));
    for (double x : {0.0, -0.0, 1.0, -1.0, 0.1, 1e21, 1e20, 1e-6, 1e-7, 5e-324, 1.7976931348623157e308, 2.2250738585072014e-308, 123456789012345680.0, 9007199254740992.0, 1.0 / 3, 2.5e-5, 1e100, 1e-100, 4.35, 0.3,
                     100.0, 1e15, 1e16, 1e17, 3.141592653589793})
      for (int d = -2; d <= 2; d++) {
        uint64_t b;
        std::memcpy(&b, &x, 8);
        b += (uint64_t)(int64_t)d;
        double y;
        std::memcpy(&y, &b, 8);
        if (std::isfinite(y)) nums.push_back(ref::Value::mkD(y));
      }
    for (int e = 0; e < 2047; e += 3) {
      uint64_t b = ((uint64_t)e << 52) | 0x8000000000001ull;
      double y;
      std::memcpy(&y, &b, 8);
      nums.push_back(ref::Value::mkD(y));
      nums.push_back(ref::Value::mkD(-y));
    }
    // doubles >= 2^54 with odd significands (interval end points are integers there: the tie rules of the
    // shortest-digit printer decide whether the text reads back), 32 patterns per binade 2^54..2^80
    for (int e = 54; e <= 80; e++)
      for (uint64_t k = 0; k < 32; k++) {
        uint64_t frac = (k * 0x9E3779B97F4A7ull + 1) & ((1ull << 52) - 1);
        frac |= 1;
        uint64_t b = ((uint64_t)(1023 + e) << 52) | frac;
        double y;
        std::memcpy(&y, &b, 8);
        nums.push_back(ref::Value::mkD(y));
      }
    // sint values must be negative to be Sint in the model
    for (auto& v : nums)
      if (v.k == ref::Sint && (int64_t)v.u >= 0) v.k = ref::Uint;
  }
  t3.name = "T3_numbers";
  t3.count = nums.size();
  t3.group = "T3";
  t3.chunk = 16;
  t3.rule = "boundary 64-bit integers (2^k+-1, 10^k+-1, extremes, both signs) and doubles (format switch points, extremes, +-2ulp neighbours, every third binary exponent, 32 odd significands in every binade 2^54..2^80) set through the API at the root, in an array and as object values: kinds must survive the round trip";
  t4.name = "T4_nonfinite";
  t4.count = 3 * 6;
  t4.group = "T4";
  t4.chunk = 1;
  t4.rule = "+inf, -inf, NaN at each of 6 positions of a small document: Serialize == kSerErrorInfinity and Dump() == \"\"";
  // T5: arrays that pack numbers of maximal text length so that every amount of free space in the
  // write buffer occurs when a long number is emitted (the serializer reserves a fixed amount per number)
  static const char* kLong[6] = {"-0.0000012345678901234567", "-1.7976931348623157e+308", "-2.2250738585072014e-308", "-9223372036854775808", "18446744073709551615", "-123456789012345680000.0"};
  vr::Family t5;
  t5.name = "T5_number_packing";
  t5.count = 6ull * 120 * 120;
  t5.group = "T5";
  t5.chunk = 64;
  t5.rule = "arrays [filler x F, L, trailer x (M-F-1)] for 1 <= M <= 120, 0 <= F < M, filler 1.2345678901234567 (18 bytes), L one of 6 longest number spellings (25-byte double in [1e-6,1e-5), extreme exponents, INT64_MIN, UINT64_MAX, 1.2e20): under ASan the exact-size write buffer makes any under-reservation a crash";
  fams.push_back(g1);
  fams.push_back(t5);
  fams.push_back(t2);
  fams.push_back(t3);
  fams.push_back(t4);

  vr::CheckFn check = [&](const vr::Family& f, uint64_t idx, vr::Ctx& ctx) {
    const std::string& nm = f.name;
    if (nm[0] == 'L' || nm == "TG_grammar_texts") {
      std::string text;
      if (nm[0] == 'L') {
        if (!byname[nm]->gen(idx, text)) {
          ctx.skip();
          return;
        }
      } else
        text = (*gram)[idx];
      ref::Result r = ref::parse(text);
      if (!r.ok) {
        ctx.skip();
        return;
      }
      if (ctx.want_sample) ctx.sample(text);
      if (r.v.isContainer()) ctx.nontriv();
      Document doc;
      doc.Parse(text);
      if (doc.HasParseError()) {
        ctx.violation("rejects_valid", "rejects_valid", text, "valid text rejected");
        return;
      }
      check_doc(doc, r.v, ctx, text);
      return;
    }
    if (nm[1] == '5') {
      unsigned F = (unsigned)(idx % 120);
      idx /= 120;
      unsigned M = (unsigned)(idx % 120) + 1;
      unsigned li = (unsigned)(idx / 120);
      if (F >= M) {
        ctx.skip();
        return;
      }
      std::string text = "[";
      for (unsigned i = 0; i < M; i++) {
        if (i) text += ",";
        text += i == F ? kLong[li] : (i < F ? "1.2345678901234567" : "0.5");
      }
      text += "]";
      ref::Result r = ref::parse(text);
      if (ctx.want_sample) ctx.sample("M=" + std::to_string(M) + " F=" + std::to_string(F) + " L=" + kLong[li]);
      ctx.nontriv();
      Document doc;
      doc.Parse(text);
      if (!r.ok || doc.HasParseError()) {
        ctx.violation("harness", "harness_generator", text.substr(0, 100), "harness error: packing text invalid");
        return;
      }
      check_doc(doc, r.v, ctx, "packing M=" + std::to_string(M) + " F=" + std::to_string(F) + " L=" + kLong[li]);
      return;
    }
    if (nm[1] == '2') {
      unsigned mode = (unsigned)(idx % 4);
      idx /= 4;
      unsigned len = lens[idx % lens.size()];
      unsigned byte = (unsigned)(idx / lens.size());
      std::string s(len, 'a');
      if (len) {
        if (mode == 0) s[0] = (char)byte;
        else if (mode == 1) s[len / 2] = (char)byte;
        else if (mode == 2) s[len - 1] = (char)byte;
        else s.assign(len, (char)byte);
      } else if (mode != 0 || byte != 0) {
        ctx.skip();
        return;
      }
      if (ctx.want_sample) ctx.sample(vr::hex(s));
      ctx.nontriv();
      std::string desc = "string " + vr::hex(s.substr(0, 80)) + (s.size() > 80 ? "..." : "") + " len " + std::to_string(len);
      {
        Document d;
        d.SetString(s.data(), s.size(), d.GetAllocator());
        check_doc(d, ref::Value::mkS(s), ctx, desc + " (root)");
      }
      {
        Document d;
        d.SetArray();
        d.PushBack(Node(s.data(), s.size()), d.GetAllocator());  // constant string node: not copied
        d.PushBack(Node(uint64_t(1)), d.GetAllocator());
        ref::Value v = ref::Value::mk(ref::Arr);
        v.a.push_back(ref::Value::mkS(s));
        v.a.push_back(ref::Value::mkU(1));
        check_doc(d, v, ctx, desc + " (array element)");
      }
      {
        Document d;
        d.SetObject();
        d.AddMember(StringView(s.data(), s.size()), Node(s.data(), s.size(), d.GetAllocator()), d.GetAllocator(), true);
        d.AddMember("z", Node(kNull), d.GetAllocator(), false);
        ref::Value v = ref::Value::mk(ref::Obj);
        v.o.emplace_back(s, ref::Value::mkS(s));
        v.o.emplace_back("z", ref::Value::mk(ref::Null));
        check_doc(d, v, ctx, desc + " (object key and value)");
      }
      return;
    }
    if (nm[1] == '3') {
      const ref::Value& nv = nums[idx];
      if (ctx.want_sample) ctx.sample(ref::show(nv));
      ctx.nontriv();
      auto mk = [&](Node& n) {
        if (nv.k == ref::Uint) n.SetUint64(nv.u);
        else if (nv.k == ref::Sint) n.SetInt64((int64_t)nv.u);
        else n.SetDouble(nv.dbl());
      };
      {
        Document d;
        mk(d);
        check_doc(d, nv, ctx, "number " + ref::show(nv) + " (root)");
      }
      {
        Document d;
        d.SetArray();
        for (int i = 0; i < 3; i++) {
          Node n;
          mk(n);
          d.PushBack(std::move(n), d.GetAllocator());
        }
        ref::Value v = ref::Value::mk(ref::Arr);
        v.a = {nv, nv, nv};
        check_doc(d, v, ctx, "number " + ref::show(nv) + " (array x3)");
      }
      {
        Document d;
        d.SetObject();
        Node n;
        mk(n);
        d.AddMember("k", std::move(n), d.GetAllocator());
        d.AddMember("t", Node(true), d.GetAllocator());
        ref::Value v = ref::Value::mk(ref::Obj);
        v.o.emplace_back("k", nv);
        v.o.emplace_back("t", ref::Value::mk(ref::True));
        check_doc(d, v, ctx, "number " + ref::show(nv) + " (object value)");
      }
      return;
    }
    {
      unsigned which = (unsigned)(idx % 3), pos = (unsigned)(idx / 3);
      double bad = which == 0 ? INFINITY : which == 1 ? -INFINITY : NAN;
      ctx.eval();
      ctx.nontriv();
      Document d;
      d.Parse("{\"a\":[1,2.5,[3]],\"b\":{\"c\":4},\"d\":5}");
      Node* slot = nullptr;
      switch (pos) {
        case 0: slot = &d; break;
        case 1: slot = &d["a"][(size_t)0]; break;
        case 2: slot = &d["a"][(size_t)2][(size_t)0]; break;
        case 3: slot = &d["b"]["c"]; break;
        case 4: slot = &d["d"]; break;
        case 5: slot = &d["a"][(size_t)1]; break;
      }
      slot->SetDouble(bad);
      if (ctx.want_sample) ctx.sample("non-finite kind " + std::to_string(which) + " at position " + std::to_string(pos));
      std::string out;
      SonicError err = kErrorNone;
      bool ok = serialize_all_states(d, out, ctx, "nonfinite", &err);
      if (ok || err != kSerErrorInfinity) ctx.violation("nonfinite_accepted", "ser_nonfinite_code", "nonfinite", "Serialize of a document holding a non-finite double returned %d (output '%s')", (int)err, out.c_str());
      if (!d.Dump().empty()) ctx.violation("nonfinite_dump", "ser_nonfinite_dump", "nonfinite", "Dump() of a document holding a non-finite double returned '%s'", d.Dump().c_str());
      // a failed serialisation must leave nothing behind: the next documents serialise normally
      {
        Document good;
        good.Parse("{\"k\":[1,2,{\"m\":[true,null]}],\"s\":\"x\"}");
        ref::Value gv = ref::parse(std::string("{\"k\":[1,2,{\"m\":[true,null]}],\"s\":\"x\"}")).v;
        check_doc(good, gv, ctx, "document serialised right after a failed (non-finite) serialisation");
        check_doc(good, gv, ctx, "second document after a failed serialisation");
      }
    }
  };
  if (args.replay) return R.replay_one(fams, check);
  const std::string only = args.get("only");
  for (auto& f : fams)
    if (only.empty() || only == f.name) R.run(f, check);
  return R.finish();
}
