// Engine serenum (C06): Serialize -> valid JSON -> equal document -> identical bytes, for every
// write-buffer start state.
//  T1 documents parsed from every accepted text of the token/leaf/wide/grammar families
//  T2 strings of every byte value at every position, lengths 0..70 and 250..260, as root / array
//     element / object key + value (built through the API: arbitrary bytes incl. NUL and non-UTF-8)
//  T3 boundary integers and doubles set through the API at the root and inside containers
//  T4 non-finite doubles at every position of a small document -> kSerErrorInfinity and Dump()==""
// (documents built by arbitrary mutation histories are checked inside the domexplore engine,
//  which C06 runs as a second job.)
#include <cmath>
#include <sys/mman.h>

#include <memory>

#include "common/families.hpp"
#include "common/fence_alloc.hpp"
#include "common/refjson.hpp"
#include "common/runner.hpp"
#include "common/sonic_cmp.hpp"
#include "sonic/sonic.h"

using namespace sonic_json;

static const int kCaps[12] = {0, 1, 2, 7, 8, 9, 31, 32, 33, 63, 64, 65};

// serialise `doc` into write buffers in several start states; all must give the same bytes
template <class D>
static bool serialize_all_states(const D& doc, std::string& out, vr::Ctx& ctx, const std::string& desc, SonicError* err_out) {
  bool first = true;
  SonicError err0 = kErrorNone;
  auto one = [&](WriteBuffer& wb, const char* state) {
    SonicError e = doc.Serialize(wb);
    std::string s;
    if (e == kErrorNone) {
      const char* p = wb.ToString();
      size_t n = wb.Size();
      if (p[n] != '\0') ctx.violation("tostring_nul", "ser_tostring_nul", desc, "[%s] ToString() is not NUL-terminated at Size()", state);
      s.assign(p, n);
    }
    if (first) {
      out = s;
      err0 = e;
      first = false;
    } else if (e != err0 || s != out) {
      ctx.violation("buffer_state_dependence", "ser_buffer_state_dependence", desc, "[%s] Serialize gives err %d '%s' but a fresh buffer gives err %d '%s'", state, (int)e, s.substr(0, 120).c_str(), (int)err0, out.substr(0, 120).c_str());
    }
  };
  {
    WriteBuffer wb;
    one(wb, "fresh");
    one(wb, "reused-same");
  }
  {
    WriteBuffer wb;
    Document big;
    big.Parse("[\"0123456789012345678901234567890123456789012345678901234567890123456789\",[1,2,3,4,5,6,7,8,9,10,11,12,13,14,15,16,17,18,19,20],{\"k\":1.5e300}]");
    big.Serialize(wb);
    one(wb, "reused-after-larger");
  }
  {
    WriteBuffer wb;
    Document small;
    small.Parse("1");
    small.Serialize(wb);
    one(wb, "reused-after-smaller");
  }
  for (int c : kCaps) {
    WriteBuffer wb((size_t)c);
    one(wb, ("WriteBuffer(" + std::to_string(c) + ")").c_str());
  }
  // buffers that have been MOVED: storage and capacity of two buffers of different sizes change hands
  {
    static Document big;
    if (big.IsNull()) big.Parse("[\"0123456789012345678901234567890123456789012345678901234567890123456789012345678901234567890123456789012345678901234567890123456789012345678901234567890123456789012345678901234567890123456789012345678901234567890123456789012345678901234567890123456789012345678901234567890123456789012345678901234567890123456789\",[1,2,3,4,5,6,7,8,9,10,11,12,13,14,15,16,17,18,19,20]]");
    {
      WriteBuffer grown, small(8);
      big.Serialize(grown);  // far beyond the default capacity
      small = std::move(grown);
      one(small, "move-assigned from a grown buffer");
      one(grown, "moved-from (was grown), reused");
    }
    {
      WriteBuffer grown, small(8);
      big.Serialize(grown);
      grown = std::move(small);
      one(grown, "grown buffer move-assigned from a small one");
      one(small, "moved-from (was small), reused");
    }
    {
      WriteBuffer grown;
      big.Serialize(grown);
      WriteBuffer ctor(std::move(grown));
      one(ctor, "move-constructed from a grown buffer");
      one(grown, "moved-from by construction, reused");
    }
    {
      WriteBuffer a(33), b;
      big.Serialize(b);
      std::swap(a, b);
      one(a, "swapped (now the grown one)");
      one(b, "swapped (now the small one)");
    }
  }
  if (err_out) *err_out = err0;
  return err0 == kErrorNone;
}

// full oracle for a document whose value is known as a reference value
template <class D>
static void check_doc(const D& doc, const ref::Value& val, vr::Ctx& ctx, const std::string& desc) {
  ctx.eval();
  std::string out;
  SonicError err;
  if (!serialize_all_states(doc, out, ctx, desc, &err)) {
    ctx.violation("serialize_error", "ser_serialize_error", desc, "Serialize of a finite document failed with code %d", (int)err);
    return;
  }
  if (doc.Dump() != out) ctx.violation("dump_differs", "ser_dump_differs", desc, "Dump() differs from Serialize()");
  ref::Result rp = ref::parse(out);  // the independent recogniser
  if (!rp.ok) {
    ctx.violation("output_not_json", "ser_output_not_json", desc, "output %s is rejected by the reference recogniser (fault %d at %zu)", vr::hex(out.substr(0, 100)).c_str(), (int)rp.fault, rp.fault_off);
    return;
  }
  if (!ref::identical(rp.v, val)) {
    ctx.violation("output_value", "ser_output_value", desc, "output %s denotes %s, expected %s", out.substr(0, 200).c_str(), ref::show(rp.v).substr(0, 200).c_str(), ref::show(val).substr(0, 200).c_str());
    return;
  }
  Document back;
  back.Parse(out);
  if (back.HasParseError()) {
    ctx.violation("reparse_fails", "ser_reparse_fails", desc, "the library rejects its own output %s (code %d)", out.substr(0, 200).c_str(), (int)back.GetParseError());
    return;
  }
  std::string d = sc::compare(back, val);
  if (!d.empty()) ctx.violation("reparse_value", "ser_reparse_value", desc, "Parse(output) differs: %s", d.c_str());
  if (!ref::has_dup_keys(val) && !(back == doc)) ctx.violation("reparse_not_equal", "ser_reparse_not_equal", desc, "Parse(output) is not == the original document");
  std::string again = back.Dump();
  if (again != out) ctx.violation("not_idempotent", "ser_not_idempotent", desc, "re-serialising the reparsed document gives %s instead of %s", again.substr(0, 200).c_str(), out.substr(0, 200).c_str());
}

int main(int argc, char** argv) {
  vr::Args args = vr::parse_args(argc, argv);
  vr::Runner R(args);
  const bool quick = R.quick();
#if defined(__SANITIZE_ADDRESS__)
  const bool asan = true;
#else
  const bool asan = false;
#endif
  sc::g_skip_lookups_on_dup_keys = false;
  std::vector<fam::TextFamily> tf;
  tf.push_back(fam::make_LA(asan ? 5 : (quick ? 6 : 7)));
  tf.push_back(fam::make_LA1(asan ? 4 : (quick ? 5 : 6)));
  tf.push_back(fam::make_LW());
  tf.push_back(fam::make_LC(1, false));            // deep documents: nesting 14..1026 (the serialiser keeps its own stack)
  tf.push_back(fam::make_LH(asan ? 16 : 17, false));  // huge ARRAYS (== on objects is quadratic): output of several megabytes, many buffer growths
  std::shared_ptr<std::vector<std::string>> gram(new std::vector<std::string>());
  {
    std::vector<std::string> leaves = {"1", "-2", "1.5", "1e300", "\"a\"", "\"\\n\\\"\"", "null", "true", "false", "18446744073709551615"};
    std::vector<std::string> keys = {"\"a\"", "\"b\"", "\"\\u0000\"", "\"\""};
    *gram = fam::valid_texts_by_budget(asan ? 8 : (quick ? 10 : 11), leaves, keys);
  }
  std::map<std::string, const fam::TextFamily*> byname;
  std::vector<vr::Family> fams;
  for (auto& f : tf) {
    byname[f.meta.name] = &f;
    fams.push_back(f.meta);
  }
  vr::Family g1, t2, t3, t4;
  g1.name = "TG_grammar_texts";
  g1.count = gram->size();
  g1.group = "TG";
  g1.chunk = 64;
  g1.rule = "every valid text of bounded token count over leaves {1,-2,1.5,1e300,\"a\",escaped string,null,true,false,2^64-1} and keys {a,b,NUL-escape,''} incl. duplicate keys";
  // T2: strings
  std::vector<unsigned> lens;
  for (unsigned l = 0; l <= 70; l++) lens.push_back(l);
  for (unsigned l = 250; l <= 260; l++) lens.push_back(l);
  for (unsigned l : {511u, 512u, 513u, 1023u, 1024u, 1025u, 4096u}) lens.push_back(l);
  t2.name = "T2_strings_all_bytes";
  t2.count = 256ull * lens.size() * 4;
  t2.group = "T2";
  t2.chunk = 64;
  t2.rule = "API-built strings of every length 0..70, 250..260 and 511..513, 1023..1025, 4096 holding byte value b (0..255, incl. NUL, controls, non-UTF-8) at the first, middle, last position or everywhere; as root, array element, and object key + value";
  // T3 numbers
  std::vector<ref::Value> nums;
  {
    for (int k = 0; k < 64; k++)
      for (int d = -1; d <= 1; d++) {
        nums.push_back(ref::Value::mkU(((uint64_t)1 << k) + (uint64_t)(int64_t)d));
        nums.push_back(ref::Value::mkI((int64_t)(0 - (((uint64_t)1 << k) + (uint64_t)(int64_t)d))));
      }
    uint64_t p = 1;
    for (int k = 0; k < 20; k++) {
      for (int d = -1; d <= 1; d++) nums.push_back(ref::Value::mkU(p + (uint64_t)(int64_t)d));
      p *= 10;
    }
    nums.push_back(ref::Value::mkU(UINT64_MAX));
    nums.push_back(ref::Value::mkI(INT64_MIN));
    nums.push_back(ref::Value::mkI(INT64_MAX));
    for (double x : {0.0, -0.0, 1.0, -1.0, 0.1, 1e21, 1e20, 1e-6, 1e-7, 5e-324, 1.7976931348623157e308, 2.2250738585072014e-308, 123456789012345680.0, 9007199254740992.0, 1.0 / 3, 2.5e-5, 1e100, 1e-100, 4.35, 0.3,
                     100.0, 1e15, 1e16, 1e17, 3.141592653589793})
      for (int d = -2; d <= 2; d++) {
        uint64_t b;
        std::memcpy(&b, &x, 8);
        b += (uint64_t)(int64_t)d;
        double y;
        std::memcpy(&y, &b, 8);
        if (std::isfinite(y)) nums.push_back(ref::Value::mkD(y));
      }
    for (int e = 0; e < 2047; e += 3) {
      uint64_t b = ((uint64_t)e << 52) | 0x8000000000001ull;
      double y;
      std::memcpy(&y, &b, 8);
      nums.push_back(ref::Value::mkD(y));
      nums.push_back(ref::Value::mkD(-y));
    }
    // doubles >= 2^54 with odd significands (interval end points are integers there: the tie rules of the
    // shortest-digit printer decide whether the text reads back), 32 patterns per binade 2^54..2^80
    for (int e = 54; e <= 80; e++)
      for (uint64_t k = 0; k < 32; k++) {
        uint64_t frac = (k * 0x9E3779B97F4A7ull + 1) & ((1ull << 52) - 1);
        frac |= 1;
        uint64_t b = ((uint64_t)(1023 + e) << 52) | frac;
        double y;
        std::memcpy(&y, &b, 8);
        nums.push_back(ref::Value::mkD(y));
      }
    // sint values must be negative to be Sint in the model
    for (auto& v : nums)
      if (v.k == ref::Sint && (int64_t)v.u >= 0) v.k = ref::Uint;
  }
  t3.name = "T3_numbers";
  t3.count = nums.size();
  t3.group = "T3";
  t3.chunk = 16;
  t3.rule = "boundary 64-bit integers (2^k+-1, 10^k+-1, extremes, both signs) and doubles (format switch points, extremes, +-2ulp neighbours, every third binary exponent, 32 odd significands in every binade 2^54..2^80) set through the API at the root, in an array and as object values: kinds must survive the round trip";
  t4.name = "T4_nonfinite";
  t4.count = 8 * 6;
  t4.group = "T4";
  t4.chunk = 1;
  t4.rule = "+inf, -inf and six NaN bit patterns (quiet / signalling / all-ones payload, both signs) at each of 6 positions of a small document: Serialize == kSerErrorInfinity and Dump() == \"\"";
  // T5: arrays that pack numbers of maximal text length so that every amount of free space in the
  // write buffer occurs when a long number is emitted (the serializer reserves a fixed amount per number)
  static const char* kLong[6] = {"-0.0000012345678901234567", "-1.7976931348623157e+308", "-2.2250738585072014e-308", "-9223372036854775808", "18446744073709551615", "-123456789012345680000.0"};
  vr::Family t5;
  t5.name = "T5_number_packing";
  t5.count = 6ull * 120 * 120;
  t5.group = "T5";
  t5.chunk = 64;
  t5.rule = "arrays [filler x F, L, trailer x (M-F-1)] for 1 <= M <= 120, 0 <= F < M, filler 1.2345678901234567 (18 bytes), L one of 6 longest number spellings (25-byte double in [1e-6,1e-5), extreme exponents, INT64_MIN, UINT64_MAX, 1.2e20): under ASan the exact-size write buffer makes any under-reservation a crash";
  // T6: every fill level of the write buffer x every length of a string that expands six-fold
  vr::Family t6;
  static unsigned T6F, T6N;
  T6F = 1101;
  T6N = 351;
  t6.name = "T6_fill_x_expanding_string";
  t6.count = (uint64_t)T6F * T6N * 2;
  t6.group = "T6";
  t6.chunk = 512;
  t6.rule = "arrays [[1,1,...],S,1]: an inner array of f in 0..1100 bytes of small numbers (which reserve little, and are not counted by the initial size estimate) brings the buffer to every fill level across its 256/512/1024 (fresh) and 100/200/.../1600 (WriteBuffer(16)) capacities, then a string S of n in 0..350 bytes, all 0x01 or alternating 0x01 / quote, asks for 6n+35 more: output compared byte for byte; under ASan any reservation that is too small is a crash";
  // T7: neighbouring numbers in one document (output of a number must not depend on its neighbours)
  vr::Family t7;
  static std::vector<ref::Value> t7v;
  if (t7v.empty()) {
    for (double d : {0.0, -0.0, 1.0, -1.0, 1.5, 0.1, 0.3, 1.0 / 3, 1e300, 5e-324, 123456789.0, 1e21, 1e-7, 1.7976931348623157e308, 2.2250738585072014e-308, 100.0, 4294967296.0}) t7v.push_back(ref::Value::mkD(d));
    t7v.push_back(ref::Value::mkU(0));
    t7v.push_back(ref::Value::mkU(1));
    t7v.push_back(ref::Value::mkI(-1));
    t7v.push_back(ref::Value::mkU(100));
  }
  t7.name = "T7_neighbouring_numbers";
  t7.count = (uint64_t)t7v.size() * t7v.size() * t7v.size();
  t7.group = "T7";
  t7.chunk = 32;
  t7.rule = "all ordered triples (x,y,z) over " + std::to_string(t7v.size()) + " numbers (+-0.0, equal values of different kinds 0 / 0.0, 1 / 1.0, 100 / 100.0, extremes) set through the API as [x,y,z], {\"a\":x,\"b\":y,\"c\":z}, [x,\"s\",[y],z]: each number must be printed as it is alone, kinds and signs kept";
  // T8: a container closes at every fill level of the write buffer, right after an empty container or
  // another closing bracket (the only places where no reservation precedes the closing bracket)
  vr::Family t8;
  static unsigned T8F;
  T8F = 1301;
  t8.name = "T8_close_at_every_fill";
  t8.count = (uint64_t)T8F * 8;
  t8.group = "T8";
  t8.chunk = 64;
  t8.rule = "documents [[1,1,...,X]] / {\"k\":[1,1,...,X]} with an inner array of f in 0..1300 bytes of literals (null / false: values that reserve almost nothing) followed by X in {[], {}, [[]], [{}]}: the closing brackets fall on every offset relative to the buffer capacities 256/512/1024 (fresh, reused) and those of WriteBuffer(8) / WriteBuffer(16); output compared byte for byte; under ASan a stale pointer across a reallocation is a crash";
  fams.push_back(g1);
  fams.push_back(t5);
  fams.push_back(t6);
  fams.push_back(t7);
  fams.push_back(t8);
  fams.push_back(t2);
  fams.push_back(t3);
  fams.push_back(t4);

  // T11: every binade. A double written by Dump() must parse back to the same bits: every biased exponent x 1024
  // significands (a fixed multiplicative sequence), light check (one Dump, one Parse)
  vr::Family t11;
  t11.name = "T11_every_binade_roundtrip";
  t11.count = (uint64_t)2047 * 1024;
  t11.group = "T11";
  t11.chunk = 8192;
  t11.rule = "for every biased exponent 0..2046 and 1024 significands (j * 0x9E3779B97F4A7C15 mod 2^52, j = 1..1024): SetDouble, Dump(), Parse: the document is a double with the same bits, and the text has at most 17 significant digits";
  fams.push_back(t11);
  // TL: LONG strings made of a plain head of h bytes and a run of r bytes that need escaping (a serialiser may
  // reserve the head and the expanding part separately): r swept from 0 to h in 24 steps +-1, three kinds of run
  static std::vector<std::pair<unsigned, unsigned>> TLhr;
  if (TLhr.empty()) {
    for (unsigned h : {1000u, 3000u, 4064u, 4096u, 5000u, 8192u, 16384u})
      for (unsigned j = 0; j <= 24; j++)
        for (int d = -1; d <= 1; d++) {
          long r = (long)h * j / 24 + d;
          if (r >= 0) TLhr.push_back({h, (unsigned)r});
        }
    for (unsigned j : {0u, 2u, 4u, 6u, 12u, 24u}) TLhr.push_back({65536u, 65536u * j / 24});
  }
  vr::Family tl;
  tl.name = "TL_long_head_x_escape_run";
  tl.count = (uint64_t)TLhr.size() * 3 * 3;
  tl.group = "TL";
  tl.chunk = 4;
  tl.rule = "strings of h plain bytes (h in {1000, 3000, 4064, 4096, 5000, 8192, 16384}; 65536 at 6 ratios) followed by r bytes that need escaping, r = h*j/24 +-1 for j = 0..24; the run made of 0x01 (six-fold), of quotes (two-fold) or alternating; as root, as the last of three array elements, and with the run in FRONT of the head; all write-buffer states";
  fams.push_back(tl);
  // TK: nodes made through every public construction route (not only the typed setters): the TypeFlag constructor
  // for every flag (a signed-kind node holding 0, a real-kind node holding 0.0, empty containers / strings without
  // storage), typed constructors and setters with zero / non-negative / negative values
  static const unsigned TK_N = 30;
  vr::Family tk;
  tk.name = "TK_construction_routes";
  tk.count = (uint64_t)TK_N * TK_N;
  tk.group = "TK";
  tk.chunk = 16;
  tk.rule = "all ordered pairs of 30 construction routes (Node(TypeFlag) for the 13 flag names, default, bool, int / unsigned / int64 / uint64 constructors and setters with 0, positive and negative values, float / double with +-0.0, strings by view / copy / empty) as [x,y], {\"k\":x,\"m\":y} and, on the diagonal, as root: exact canonical text in every write-buffer state, accepted back";
  fams.push_back(tk);
  // T10: the reservation made before each string must hold at EVERY fill level: documents in which many container
  // closes directly follow a string (nothing but strings and closes in between), serialised into a buffer of every
  // initial capacity, so that the buffer runs full at every point of the walk (exact-size reallocs under ASan)
  vr::Family t10;
  t10.name = "T10_closes_after_strings_x_capacity";
  t10.count = (uint64_t)3 * 32 * 700;
  t10.group = "T10";
  t10.chunk = 256;
  t10.rule = "d = 1..32 nested containers whose string child follows the nested child ({\"a\":{...},\"b\":\"y\"} / [[...],\"y\"] / objects with a 40-byte string) serialised into WriteBuffer(c) for every c in 0..699: output identical to that of a fresh buffer";
  fams.push_back(t10);
  // T9: documents whose every block (copied strings: exactly len+1 bytes; node arrays; the padded parse buffer) ends at
  // a PROT_NONE page (fence allocator, see common/fence_alloc.hpp) - decisive in the production builds, where
  // the in-page fast paths that sanitizer builds compile out are active
  std::vector<unsigned> t9lens;
  for (unsigned l = 0; l <= 130; l++) t9lens.push_back(l);
  for (unsigned l : {255u, 256u, 257u, 511u, 512u, 513u, 1023u, 1024u, 1025u, 4097u}) t9lens.push_back(l);
  vr::Family t9;
  t9.name = "T9_fenced_blocks";
  t9.count = (uint64_t)t9lens.size() * 8;
  t9.group = "T9";
  t9.chunk = 8;
  t9.rule = "strings of every length 0..130 and 255..257, 511..513, 1023..1025, 4097 in 8 byte patterns (plain; quote / backslash / control byte first, middle, last; all escapable) COPIED into a document whose allocator places every block directly in front of an inaccessible page: as root, array elements, object key + value, after CopyFrom of a parsed document, and parsed in place; full serialisation oracle";
  if (!asan) fams.push_back(t9);  // mprotect-based: production builds only (ASan has its own red zones)
  vr::CheckFn check = [&](const vr::Family& f, uint64_t idx, vr::Ctx& ctx) {
    if (f.name[0] == 'T' && f.name[1] == '1' && f.name[2] == '1') {
      uint64_t be = idx / 1024, j = idx % 1024 + 1;
      uint64_t bits = (be << 52) | ((j * 0x9E3779B97F4A7C15ull) & ((1ull << 52) - 1));
      if ((bits << 1) == 0) bits |= 1;
      double v;
      std::memcpy(&v, &bits, 8);
      ctx.eval();
      ctx.nontriv();
      if (ctx.want_sample) {
        char b[40];
        snprintf(b, sizeof b, "%016llx", (unsigned long long)bits);
        ctx.sample(b);
      }
      Document d;
      d.SetDouble(v);
      std::string out = d.Dump();
      Document back;
      back.Parse(out);
      uint64_t got = 0;
      if (!back.HasParseError() && back.IsDouble()) {
        double g = back.GetDouble();
        std::memcpy(&got, &g, 8);
      }
      size_t digits = 0;
      for (char c : out) {
        if (c == 'e' || c == 'E') break;
        if (c >= '0' && c <= '9') digits++;
      }
      if (back.HasParseError() || !back.IsDouble() || got != bits)
        ctx.violation("output_value", "ser_double_roundtrip", out, "double %016llx is written as %s, which parses back as %016llx (error %d)", (unsigned long long)bits, out.c_str(), (unsigned long long)got, (int)back.GetParseError());
      else if (digits > 17 + 20)
        ctx.violation("output_value", "ser_double_too_long", out, "double %016llx is written with %zu digits", (unsigned long long)bits, digits);
      return;
    }
    if (f.name[0] == 'T' && f.name[1] == '1' && f.name[2] == '0') {
      unsigned cap = (unsigned)(idx % 700);
      idx /= 700;
      unsigned d = (unsigned)(idx % 32) + 1;
      unsigned shape = (unsigned)(idx / 32);
      std::string text;
      const std::string str = shape == 2 ? "\"yyyyyyyyyyyyyyyyyyyyyyyyyyyyyyyyyyyyyyyy\"" : "\"y\"";
      for (unsigned i = 0; i < d; i++) text += shape == 1 ? "[" : "{\"a\":";
      text += shape == 1 ? "[]" : "{}";
      for (unsigned i = 0; i < d; i++) text += shape == 1 ? "," + str + "]" : ",\"b\":" + str + "}";
      ctx.eval();
      ctx.nontriv();
      if (ctx.want_sample) ctx.sample("shape " + std::to_string(shape) + " depth " + std::to_string(d) + " WriteBuffer(" + std::to_string(cap) + ")");
      Document doc;
      doc.Parse(text);
      WriteBuffer fresh, wb((size_t)cap);
      SonicError e1 = doc.Serialize(fresh), e2 = doc.Serialize(wb);
      if (e1 != kErrorNone || e2 != kErrorNone || std::string(fresh.ToString(), fresh.Size()) != text || std::string(wb.ToString(), wb.Size()) != text)
        ctx.violation("buffer_state_dependence", "ser_buffer_state_dependence", text.substr(0, 200), "depth %u shape %u WriteBuffer(%u): err %d/%d, output differs from the compact text", d, shape, cap, (int)e1, (int)e2);
      return;
    }
    if (f.name[0] == 'T' && f.name[1] == '9') {
      using FDoc = GenericDocument<DNode<fa::FenceAllocator>>;
      using FN = FDoc::NodeType;
      unsigned pat = (unsigned)(idx % 8);
      unsigned len = t9lens[idx / 8];
      std::string s9(len, 'a');
      if (len) {
        switch (pat) {
          case 0: break;
          case 1: s9[0] = '"'; break;
          case 2: s9[len / 2] = '\\'; break;
          case 3: s9[len - 1] = '"'; break;
          case 4: s9[len - 1] = '\\'; break;
          case 5: s9[len - 1] = 0x01; break;
          case 6: s9.assign(len, '"'); break;
          case 7: s9[len - 1] = (char)0xff; break;
        }
      } else if (pat) {
        ctx.skip();
        return;
      }
      if (ctx.want_sample) ctx.sample("len " + std::to_string(len) + " pattern " + std::to_string(pat));
      ctx.nontriv();
      std::string desc = "fenced blocks, string length " + std::to_string(len) + " pattern " + std::to_string(pat);
      {
        FDoc d;
        d.SetString(s9.data(), s9.size(), d.GetAllocator());
        check_doc(d, ref::Value::mkS(s9), ctx, desc + " (root, copied)");
      }
      ref::Value v = ref::Value::mk(ref::Arr);
      {
        FDoc d;
        auto& al = d.GetAllocator();
        d.SetArray();
        d.PushBack(FN(s9.data(), s9.size(), al), al);
        d.PushBack(FN(uint64_t(1)), al);
        FN o;
        o.SetObject();
        o.AddMember(StringView(s9.data(), s9.size()), FN(s9.data(), s9.size(), al), al, true);
        d.PushBack(std::move(o), al);
        v.a.push_back(ref::Value::mkS(s9));
        v.a.push_back(ref::Value::mkU(1));
        ref::Value ov = ref::Value::mk(ref::Obj);
        ov.o.emplace_back(s9, ref::Value::mkS(s9));
        v.a.push_back(ov);
        check_doc(d, v, ctx, desc + " (array element, key and value, all copied)");
        std::string text = d.Dump();
        {
          FDoc p;
          p.Parse(text);
          if (p.HasParseError())
            ctx.violation("reparse_fails", "ser_reparse_fails", desc, "fence-allocator document rejects the text (code %d)", (int)p.GetParseError());
          else
            check_doc(p, v, ctx, desc + " (parsed in place into a fenced buffer)");
          FDoc c;
          c.CopyFrom(p, c.GetAllocator(), true);
          check_doc(c, v, ctx, desc + " (deep copy of the parsed document)");
        }
      }
      if (fa::table().errors) ctx.violation("fence_free", "ser_fence_foreign_free", desc, "a pointer that the allocator never handed out was freed");
      if (!fa::table().live.empty()) ctx.violation("fence_leak", "ser_fence_leak", desc, "%zu blocks still allocated after the documents died", fa::table().live.size());
      return;
    }
    const std::string& nm = f.name;
    if (nm[0] == 'L' || nm == "TG_grammar_texts") {
      std::string text;
      if (nm[0] == 'L') {
        if (!byname[nm]->gen(idx, text)) {
          ctx.skip();
          return;
        }
      } else
        text = (*gram)[idx];
      ref::Result r = ref::parse(text);
      if (!r.ok) {
        ctx.skip();
        return;
      }
      if (ctx.want_sample) ctx.sample(text);
      if (r.v.isContainer()) ctx.nontriv();
      Document doc;
      doc.Parse(text);
      if (doc.HasParseError()) {
        ctx.violation("rejects_valid", "rejects_valid", text, "valid text rejected");
        return;
      }
      check_doc(doc, r.v, ctx, text);
      return;
    }
    if (nm[1] == '5') {
      unsigned F = (unsigned)(idx % 120);
      idx /= 120;
      unsigned M = (unsigned)(idx % 120) + 1;
      unsigned li = (unsigned)(idx / 120);
      if (F >= M) {
        ctx.skip();
        return;
      }
      std::string text = "[";
      for (unsigned i = 0; i < M; i++) {
        if (i) text += ",";
        text += i == F ? kLong[li] : (i < F ? "1.2345678901234567" : "0.5");
      }
      text += "]";
      ref::Result r = ref::parse(text);
      if (ctx.want_sample) ctx.sample("M=" + std::to_string(M) + " F=" + std::to_string(F) + " L=" + kLong[li]);
      ctx.nontriv();
      Document doc;
      doc.Parse(text);
      if (!r.ok || doc.HasParseError()) {
        ctx.violation("harness", "harness_generator", text.substr(0, 100), "harness error: packing text invalid");
        return;
      }
      check_doc(doc, r.v, ctx, "packing M=" + std::to_string(M) + " F=" + std::to_string(F) + " L=" + kLong[li]);
      return;
    }
    if (nm[1] == '6') {
      unsigned kind = (unsigned)(idx % 2);
      idx /= 2;
      unsigned n = (unsigned)(idx % T6N);
      unsigned f = (unsigned)(idx / T6N);
      // fill: an INNER array of f/2 small numbers (the serializer sizes its first reservation by the number of
      // children of the root, so the fill must not be made of root children); odd f: the first number is 10
      Document d;
      d.SetArray();
      std::string exp = "[[";
      {
        Node inner;
        inner.SetArray();
        unsigned k = f / 2;
        for (unsigned i = 0; i < k; i++) {
          bool ten = (f & 1) && i == 0;
          inner.PushBack(Node(uint64_t(ten ? 10 : 1)), d.GetAllocator());
          exp += ten ? "10" : "1";
          if (i + 1 < k) exp += ",";
        }
        d.PushBack(std::move(inner), d.GetAllocator());
        exp += "],";
      }
      std::string sv(n, '\x01');
      if (kind)
        for (unsigned i = 1; i < n; i += 2) sv[i] = '"';
      d.PushBack(Node(sv.data(), sv.size(), d.GetAllocator()), d.GetAllocator());
      exp += "\"";
      for (char c : sv) exp += c == '"' ? "\\\"" : "\\u0001";
      exp += "\",1]";
      d.PushBack(Node(uint64_t(1)), d.GetAllocator());
      ctx.eval();
      ctx.nontriv();
      std::string desc = "fill " + std::to_string(f) + " bytes, string of " + std::to_string(n) + (kind ? " alternating 0x01/quote" : " x 0x01");
      if (ctx.want_sample) ctx.sample(desc);
      auto cmp = [&](WriteBuffer& wb, const char* st) {
        SonicError e = d.Serialize(wb);
        if (e != kErrorNone || wb.Size() != exp.size() || std::memcmp(wb.ToString(), exp.data(), exp.size()) != 0)
          ctx.violation("fill_string_output", "ser_fill_string_output", desc, "[%s] Serialize gave err %d, %zu bytes; expected %zu bytes", st, (int)e, wb.Size(), exp.size());
      };
      {
        WriteBuffer wb;
        cmp(wb, "fresh");
        cmp(wb, "reused");
      }
      {
        WriteBuffer wb(16);
        cmp(wb, "WriteBuffer(16)");
      }
      {
        WriteBuffer wb(1);
        cmp(wb, "WriteBuffer(1)");
      }
      return;
    }
    if (nm[1] == '8') {
      unsigned shape = (unsigned)(idx % 8);
      unsigned f = (unsigned)(idx / 8);
      static const char* xs[4] = {"[]", "{}", "[[]]", "[{}]"};
      const char* X = xs[shape % 4];
      bool objroot = shape >= 4;
      Document d;
      auto& al = d.GetAllocator();
      std::string exp = objroot ? "{\"k\":[" : "[[";
      Node inner;
      inner.SetArray();
      // the fill is made of LITERALS (null, 5 bytes with its comma; false, 6): numbers and strings reserve 33+ bytes
      // before they are written, so a buffer can only be nearly full after literals and brackets
      unsigned nf = f % 5, nn = 0;
      if (f < 6 * nf) {
        ctx.skip();
        return;
      }
      nn = (f - 6 * nf) / 5;
      for (unsigned i = 0; i < nn + nf; i++) {
        bool fl = i < nf;
        inner.PushBack(fl ? Node(false) : Node(kNull), al);
        exp += fl ? "false," : "null,";
      }
      {
        Node x;
        if (X[0] == '[') x.SetArray(); else x.SetObject();
        if (X[1] == '[') {
          Node y;
          y.SetArray();
          x.PushBack(std::move(y), al);
        } else if (X[1] == '{') {
          Node y;
          y.SetObject();
          x.PushBack(std::move(y), al);
        }
        inner.PushBack(std::move(x), al);
        exp += X;
      }
      if (objroot) {
        d.SetObject();
        d.AddMember("k", std::move(inner), al);
        exp += "]}";
      } else {
        d.SetArray();
        d.PushBack(std::move(inner), al);
        exp += "]]";
      }
      ctx.eval();
      ctx.nontriv();
      std::string desc = std::string(objroot ? "object root, " : "array root, ") + "fill " + std::to_string(f) + " then " + X;
      if (ctx.want_sample) ctx.sample(desc);
      auto cmp = [&](WriteBuffer& wb, const char* st) {
        SonicError e = d.Serialize(wb);
        if (e != kErrorNone || wb.Size() != exp.size() || std::memcmp(wb.ToString(), exp.data(), exp.size()) != 0)
          ctx.violation("close_output", "ser_close_at_fill_output", desc, "[%s] Serialize gave err %d, %zu bytes '...%s'; expected %zu bytes '...%s'", st, (int)e, wb.Size(),
                        std::string(wb.ToString(), wb.Size()).substr(wb.Size() > 12 ? wb.Size() - 12 : 0).c_str(), exp.size(), exp.substr(exp.size() > 12 ? exp.size() - 12 : 0).c_str());
      };
      {
        WriteBuffer wb;
        cmp(wb, "fresh");
        cmp(wb, "reused");
      }
      for (size_t c : {(size_t)8, (size_t)16, (size_t)1}) {
        WriteBuffer wb(c);
        cmp(wb, ("WriteBuffer(" + std::to_string(c) + ")").c_str());
      }
      if (d.Dump() != exp) ctx.violation("close_output", "ser_close_at_fill_output", desc, "Dump() differs from the expected text");
      return;
    }
    if (nm[1] == '7') {
      size_t m = t7v.size();
      const ref::Value& x = t7v[idx / (m * m)];
      const ref::Value& y = t7v[(idx / m) % m];
      const ref::Value& z = t7v[idx % m];
      auto mk = [&](const ref::Value& nv) {
        Node n;
        if (nv.k == ref::Uint) n.SetUint64(nv.u);
        else if (nv.k == ref::Sint) n.SetInt64((int64_t)nv.u);
        else n.SetDouble(nv.dbl());
        return n;
      };
      std::string desc = "numbers " + ref::show(x) + " , " + ref::show(y) + " , " + ref::show(z);
      if (ctx.want_sample) ctx.sample(desc);
      ctx.nontriv();
      {
        Document d;
        d.SetArray();
        d.PushBack(mk(x), d.GetAllocator());
        d.PushBack(mk(y), d.GetAllocator());
        d.PushBack(mk(z), d.GetAllocator());
        ref::Value v = ref::Value::mk(ref::Arr);
        v.a = {x, y, z};
        check_doc(d, v, ctx, desc + " (array)");
      }
      {
        Document d;
        d.SetObject();
        d.AddMember("a", mk(x), d.GetAllocator());
        d.AddMember("b", mk(y), d.GetAllocator());
        d.AddMember("c", mk(z), d.GetAllocator());
        ref::Value v = ref::Value::mk(ref::Obj);
        v.o.emplace_back("a", x);
        v.o.emplace_back("b", y);
        v.o.emplace_back("c", z);
        check_doc(d, v, ctx, desc + " (object)");
      }
      {
        Document d;
        d.SetArray();
        d.PushBack(mk(x), d.GetAllocator());
        d.PushBack(Node("s"), d.GetAllocator());
        Node inner;
        inner.SetArray();
        inner.PushBack(mk(y), d.GetAllocator());
        d.PushBack(std::move(inner), d.GetAllocator());
        d.PushBack(mk(z), d.GetAllocator());
        ref::Value v = ref::Value::mk(ref::Arr);
        ref::Value in = ref::Value::mk(ref::Arr);
        in.a = {y};
        v.a = {x, ref::Value::mkS("s"), in, z};
        check_doc(d, v, ctx, desc + " (mixed)");
      }
      return;
    }
    if (nm[1] == '2') {
      unsigned mode = (unsigned)(idx % 4);
      idx /= 4;
      unsigned len = lens[idx % lens.size()];
      unsigned byte = (unsigned)(idx / lens.size());
      std::string s(len, 'a');
      if (len) {
        if (mode == 0) s[0] = (char)byte;
        else if (mode == 1) s[len / 2] = (char)byte;
        else if (mode == 2) s[len - 1] = (char)byte;
        else s.assign(len, (char)byte);
      } else if (mode != 0 || byte != 0) {
        ctx.skip();
        return;
      }
      if (ctx.want_sample) ctx.sample(vr::hex(s));
      ctx.nontriv();
      std::string desc = "string " + vr::hex(s.substr(0, 80)) + (s.size() > 80 ? "..." : "") + " len " + std::to_string(len);
      {
        Document d;
        d.SetString(s.data(), s.size(), d.GetAllocator());
        check_doc(d, ref::Value::mkS(s), ctx, desc + " (root)");
      }
      {
        // constant string nodes are not copied: each is a WINDOW into a longer caller buffer, directly followed by a
        // quote, a backslash, a control byte (a string is bytes + length: what follows it in memory must not matter)
        std::string w1 = "\"" + s + "\"\"\"", w2 = "\\" + s + "\\\\\\", w3 = "\x01" + s + "\x01\x01";
        Document d;
        d.SetArray();
        d.PushBack(Node(w1.data() + 1, s.size()), d.GetAllocator());
        d.PushBack(Node(uint64_t(1)), d.GetAllocator());
        d.PushBack(Node(w2.data() + 1, s.size()), d.GetAllocator());
        d.PushBack(Node(w3.data() + 1, s.size()), d.GetAllocator());
        ref::Value v = ref::Value::mk(ref::Arr);
        v.a.push_back(ref::Value::mkS(s));
        v.a.push_back(ref::Value::mkU(1));
        v.a.push_back(ref::Value::mkS(s));
        v.a.push_back(ref::Value::mkS(s));
        check_doc(d, v, ctx, desc + " (array elements: windows into longer buffers)");
      }
      if (len == 0) {
        // the empty string given as a default-constructed view (null data pointer) and as an empty window at the
        // first byte of an inaccessible page: zero bytes may be read from either
        static char* nopage = (char*)mmap(nullptr, 4096, PROT_NONE, MAP_PRIVATE | MAP_ANONYMOUS, -1, 0);
        Document d;
        d.SetArray();
        d.PushBack(Node(StringView()), d.GetAllocator());
        d.PushBack(Node(nopage, 0), d.GetAllocator());
        Node o;
        o.SetObject();
        o.AddMember(StringView(), Node(StringView(nopage, 0)), d.GetAllocator(), false);
        d.PushBack(std::move(o), d.GetAllocator());
        ref::Value v = ref::Value::mk(ref::Arr);
        v.a.push_back(ref::Value::mkS(""));
        v.a.push_back(ref::Value::mkS(""));
        ref::Value ov = ref::Value::mk(ref::Obj);
        ov.o.emplace_back("", ref::Value::mkS(""));
        v.a.push_back(ov);
        check_doc(d, v, ctx, desc + " (empty strings with a null / inaccessible data pointer)");
      }
      {
        Document d;
        d.SetObject();
        d.AddMember(StringView(s.data(), s.size()), Node(s.data(), s.size(), d.GetAllocator()), d.GetAllocator(), true);
        d.AddMember("z", Node(kNull), d.GetAllocator(), false);
        ref::Value v = ref::Value::mk(ref::Obj);
        v.o.emplace_back(s, ref::Value::mkS(s));
        v.o.emplace_back("z", ref::Value::mk(ref::Null));
        check_doc(d, v, ctx, desc + " (object key and value)");
      }
      return;
    }
    if (nm[1] == 'L') {
      unsigned shape = (unsigned)(idx % 3);
      idx /= 3;
      unsigned kind = (unsigned)(idx % 3);
      auto hr = TLhr[idx / 3];
      std::string head(hr.first, 'a'), run;
      for (unsigned i = 0; i < hr.second; i++) run.push_back(kind == 0 ? '\x01' : kind == 1 ? '"' : (i % 2 ? '\x1f' : '\\'));
      std::string str = shape == 2 ? run + head : head + run;
      std::string desc = "string of " + std::to_string(hr.first) + " plain bytes and " + std::to_string(hr.second) + " bytes to escape (kind " + std::to_string(kind) + ", shape " + std::to_string(shape) + ")";
      if (ctx.want_sample) ctx.sample(desc);
      ctx.nontriv();
      Document d;
      if (shape == 1) {
        d.SetArray();
        d.PushBack(Node(1), d.GetAllocator());
        d.PushBack(Node("k"), d.GetAllocator());
        Node n;
        n.SetString(str, d.GetAllocator());
        d.PushBack(std::move(n), d.GetAllocator());
        ref::Value v = ref::Value::mk(ref::Arr);
        v.a = {ref::Value::mkU(1), ref::Value::mkS("k"), ref::Value::mkS(str)};
        check_doc(d, v, ctx, desc);
      } else {
        d.SetString(str, d.GetAllocator());
        check_doc(d, ref::Value::mkS(str), ctx, desc);
      }
      return;
    }
    if (nm[1] == 'K') {
      unsigned ia = (unsigned)(idx / TK_N), ib = (unsigned)(idx % TK_N);
      ctx.nontriv();
      // route r -> (node, canonical text)
      auto make = [&](unsigned r, Node& n, Document::Allocator& a) -> std::string {
        switch (r) {
          case 0: n = Node(kNull); return "null";
          case 1: n = Node(kFalse); return "false";
          case 2: n = Node(kTrue); return "true";
          case 3: n = Node(kBool); return "false";
          case 4: n = Node(kNumber); return "0";
          case 5: n = Node(kUint); return "0";
          case 6: n = Node(kSint); return "0";
          case 7: n = Node(kReal); return "0.0";
          case 8: n = Node(kString); return "\"\"";
          case 9: n = Node(kStringCopy); return "\"\"";
          case 10: n = Node(kStringConst); return "\"\"";
          case 11: n = Node(kObject); return "{}";
          case 12: n = Node(kArray); return "[]";
          case 13: n = Node(); return "null";
          case 14: n = Node(false); return "false";
          case 15: n = Node(0); return "0";
          case 16: n = Node(-1); return "-1";
          case 17: n = Node((int64_t)0); return "0";
          case 18: n = Node((int64_t)INT64_MIN); return "-9223372036854775808";
          case 19: n = Node((uint64_t)0); return "0";
          case 20: n.SetInt64(0); return "0";
          case 21: n.SetInt64(7); return "7";
          case 22: n.SetInt64(-7); return "-7";
          case 23: n.SetUint64(UINT64_MAX); return "18446744073709551615";
          case 24: n = Node(0.0); return "0.0";
          case 25: n = Node(-0.0); return "-0.0";
          case 26: n = Node(1.5f); return "1.5";
          case 27: n.SetString("x\n"); return "\"x\\n\"";
          case 28: n.SetString(std::string("y"), a); return "\"y\"";
          default: n.SetString(StringView()); return "\"\"";
        }
      };
      std::string desc = "construction routes " + std::to_string(ia) + ", " + std::to_string(ib);
      if (ctx.want_sample) ctx.sample(desc);
      auto judge = [&](const Document& d, const std::string& want, const char* shape) {
        ctx.eval();
        std::string out;
        SonicError err;
        if (!serialize_all_states(d, out, ctx, desc + shape, &err)) {
          ctx.violation("serialize_error", "ser_serialize_error", desc + shape, "Serialize failed with code %d", (int)err);
          return;
        }
        if (out != want) ctx.violation("construction_route_text", "ser_construction_route_text", desc + shape, "Serialize gives %s, expected %s", out.c_str(), want.c_str());
        if (d.Dump() != out) ctx.violation("dump_differs", "ser_dump_differs", desc + shape, "Dump() differs from Serialize()");
        Document back;
        back.Parse(out);
        if (back.HasParseError() || back.Dump() != out) ctx.violation("reparse_fails", "ser_reparse_fails", desc + shape, "the library does not read %s back to the same text", out.c_str());
      };
      {
        Document d;
        d.SetArray();
        Node x, y;
        std::string tx = make(ia, x, d.GetAllocator()), ty = make(ib, y, d.GetAllocator());
        d.PushBack(std::move(x), d.GetAllocator());
        d.PushBack(std::move(y), d.GetAllocator());
        judge(d, "[" + tx + "," + ty + "]", " (array)");
      }
      {
        Document d;
        d.SetObject();
        Node x, y;
        std::string tx = make(ia, x, d.GetAllocator()), ty = make(ib, y, d.GetAllocator());
        d.AddMember("k", std::move(x), d.GetAllocator());
        d.AddMember("m", std::move(y), d.GetAllocator());
        judge(d, "{\"k\":" + tx + ",\"m\":" + ty + "}", " (object)");
      }
      if (ia == ib) {
        Document d;
        std::string tx = make(ia, d, d.GetAllocator());
        judge(d, tx, " (root)");
      }
      return;
    }
    if (nm[1] == '3') {
      const ref::Value& nv = nums[idx];
      if (ctx.want_sample) ctx.sample(ref::show(nv));
      ctx.nontriv();
      auto mk = [&](Node& n) {
        if (nv.k == ref::Uint) n.SetUint64(nv.u);
        else if (nv.k == ref::Sint) n.SetInt64((int64_t)nv.u);
        else n.SetDouble(nv.dbl());
      };
      {
        Document d;
        mk(d);
        check_doc(d, nv, ctx, "number " + ref::show(nv) + " (root)");
      }
      {
        Document d;
        d.SetArray();
        for (int i = 0; i < 3; i++) {
          Node n;
          mk(n);
          d.PushBack(std::move(n), d.GetAllocator());
        }
        ref::Value v = ref::Value::mk(ref::Arr);
        v.a = {nv, nv, nv};
        check_doc(d, v, ctx, "number " + ref::show(nv) + " (array x3)");
      }
      {
        Document d;
        d.SetObject();
        Node n;
        mk(n);
        d.AddMember("k", std::move(n), d.GetAllocator());
        d.AddMember("t", Node(true), d.GetAllocator());
        ref::Value v = ref::Value::mk(ref::Obj);
        v.o.emplace_back("k", nv);
        v.o.emplace_back("t", ref::Value::mk(ref::True));
        check_doc(d, v, ctx, "number " + ref::show(nv) + " (object value)");
      }
      return;
    }
    {
      unsigned which = (unsigned)(idx % 8), pos = (unsigned)(idx / 8);
      // every class of non-finite bit pattern: both infinities, quiet / signalling NaNs of both signs, with payloads
      static const uint64_t kNonFinite[8] = {0x7ff0000000000000ull, 0xfff0000000000000ull, 0x7ff8000000000000ull, 0xfff8000000000000ull, 0x7ff0000000000001ull, 0xfff0000000000001ull, 0x7fffffffffffffffull, 0xffffffffffffffffull};
      double bad;
      std::memcpy(&bad, &kNonFinite[which], 8);
      ctx.eval();
      ctx.nontriv();
      Document d;
      d.Parse("{\"a\":[1,2.5,[3]],\"b\":{\"c\":4},\"d\":5}");
      Node* slot = nullptr;
      switch (pos) {
        case 0: slot = &d; break;
        case 1: slot = &d["a"][(size_t)0]; break;
        case 2: slot = &d["a"][(size_t)2][(size_t)0]; break;
        case 3: slot = &d["b"]["c"]; break;
        case 4: slot = &d["d"]; break;
        case 5: slot = &d["a"][(size_t)1]; break;
      }
      slot->SetDouble(bad);
      if (ctx.want_sample) ctx.sample("non-finite kind " + std::to_string(which) + " at position " + std::to_string(pos));
      std::string out;
      SonicError err = kErrorNone;
      bool ok = serialize_all_states(d, out, ctx, "nonfinite", &err);
      if (ok || err != kSerErrorInfinity) ctx.violation("nonfinite_accepted", "ser_nonfinite_code", "nonfinite", "Serialize of a document holding a non-finite double returned %d (output '%s')", (int)err, out.c_str());
      if (!d.Dump().empty()) ctx.violation("nonfinite_dump", "ser_nonfinite_dump", "nonfinite", "Dump() of a document holding a non-finite double returned '%s'", d.Dump().c_str());
      // a failed serialisation must leave nothing behind: the next documents serialise normally
      {
        Document good;
        good.Parse("{\"k\":[1,2,{\"m\":[true,null]}],\"s\":\"x\"}");
        ref::Value gv = ref::parse(std::string("{\"k\":[1,2,{\"m\":[true,null]}],\"s\":\"x\"}")).v;
        check_doc(good, gv, ctx, "document serialised right after a failed (non-finite) serialisation");
        check_doc(good, gv, ctx, "second document after a failed serialisation");
      }
    }
  };
  if (args.replay) return R.replay_one(fams, check);
  const std::string only = args.get("only");
  for (auto& f : fams)
    if (only.empty() || only == f.name) R.run(f, check);
  return R.finish();
}
