// Engine strenum (C05): string literals decode exactly per RFC 8259, wherever they sit.
//  S1  atom sequences (escapes, surrogates, malformed escapes, raw bytes) at every offset 0..70
//      relative to the vector blocks, with several gaps and total lengths; three contexts:
//      value ["..."], key {"...":1}, on-demand key
//  S3  every raw byte value at every offset
//  U1  every 16-bit \uXXXX (3 hex-case variants) through Document::Parse
//  U2  ordered pairs \uH\uL through internal::parseStringInplace directly
//      (quick: all H x 64 boundary L + the full 1024x1024 surrogate square; thorough: all 2^32)
#include <memory>

#include "common/families.hpp"
#include "common/refjson.hpp"
#include <set>

#include "common/runner.hpp"
#include "common/sonic_cmp.hpp"
#include "sonic/sonic.h"

using namespace sonic_json;

static const std::vector<std::string>& atoms() {
  static const std::vector<std::string> a = {
      "z",       "\\\"",    "\\\\",        "\\/",          "\\b",          "\\f",  "\\n",     "\\r",     "\\t",          "\\u0041",
      "\\u00e9", "\\u20AC", "\\ud83d\\ude00", "\\ud83d", "\\ude00", "\\ude00\\ud83d", "\\ud83d\\u0041", "\\x", "\\u12G4", "\\U0041",
      std::string("\x01", 1), std::string("\x1f", 1), std::string("\x7f\x80\xff", 3), "\\"};
  return a;
}

struct ExactBuf {
  char* p;
  size_t n;
  explicit ExactBuf(const std::string& s) : n(s.size()) {
    p = (char*)std::malloc(n);
    if (n) std::memcpy(p, s.data(), n);
  }
  ~ExactBuf() { std::free(p); }
};

// literal body (between the quotes) -> checks in three contexts
static void check_body(const std::string& body, vr::Ctx& ctx) {
  // reference on the bare literal
  std::string lit = "\"" + body + "\"";
  ref::Result rl = ref::parse(lit);
  ctx.eval();
  if (body.find('\\') != std::string::npos || !rl.ok) ctx.nontriv();
  // context 1: value in an array
  {
    std::string text = "[" + lit + "]";
    ref::Result r = ref::parse(text);
    ExactBuf b(text);
    Document doc;
    doc.Parse(b.p, b.n);
    if (!doc.HasParseError() != r.ok) {
      ctx.violation("accept_mismatch", r.ok ? "value_rejects_valid" : "value_accepts_invalid", text, "value context: impl %s (code %d) reference %s", doc.HasParseError() ? "rejects" : "accepts",
                    (int)doc.GetParseError(), r.ok ? "accepts" : "rejects");
    } else if (r.ok) {
      ctx.count(0);
      std::string d = sc::compare(doc, r.v);
      if (!d.empty()) ctx.violation("decode_mismatch", "value_decode_mismatch", text, "value context: %s", d.c_str());
    } else if (!doc.IsNull() || doc.GetErrorOffset() > text.size()) {
      ctx.violation("failure_state", "failure_state", text, "failed parse left a non-null document or offset %zu > len", doc.GetErrorOffset());
    }
    // bare root literal as well (root strings take the pos_ > len_ check)
    ExactBuf b2(lit);
    Document d2;
    d2.Parse(b2.p, b2.n);
    if (!d2.HasParseError() != rl.ok)
      ctx.violation("accept_mismatch", rl.ok ? "root_rejects_valid" : "root_accepts_invalid", lit, "root context: impl %s (code %d) reference %s", d2.HasParseError() ? "rejects" : "accepts",
                    (int)d2.GetParseError(), rl.ok ? "accepts" : "rejects");
    else if (rl.ok) {
      std::string d = sc::compare(d2, rl.v);
      if (!d.empty()) ctx.violation("decode_mismatch", "root_decode_mismatch", lit, "root context: %s", d.c_str());
    }
  }
  // context 5: the literal is the VALUE that ParseOnDemand extracts (member value, array element, nested): the
  // document produced must be the decoded string exactly when the literal is valid, an error otherwise
  {
    static const char* pre[3] = {"{\"k\":", "[0,", "{\"a\":[{\"k\":"};
    static const char* post[3] = {",\"z\":1}", ",2]", "}]}"};
    // (a body whose quote structure does not end exactly at its last byte - an unescaped quote inside, or a trailing
    // backslash that swallows the closing quote - has a different extent inside a larger text: skipped)
    bool extent_ok = true;
    for (size_t i = 0; i < body.size(); i++) {
      if (body[i] == '\\') {
        if (i + 1 >= body.size()) extent_ok = false;
        i++;
      } else if (body[i] == '"')
        extent_ok = false;
    }
    for (int w = 0; w < 3 && extent_ok; w++) {
      std::string text = std::string(pre[w]) + lit + post[w];
      ExactBuf b(text);
      JsonPointer jp = w == 0 ? JsonPointer({JsonPointerNode("k")}) : w == 1 ? JsonPointer({JsonPointerNode(1)}) : JsonPointer({JsonPointerNode("a"), JsonPointerNode(0), JsonPointerNode("k")});
      Document od;
      od.ParseOnDemand(b.p, b.n, jp);
      if (!od.HasParseError() != rl.ok) {
        ctx.violation("accept_mismatch", rl.ok ? "ondemand_value_rejects_valid" : "ondemand_value_accepts_invalid", text, "ParseOnDemand of the literal as a value: impl %s (code %d) reference %s", od.HasParseError() ? "rejects" : "accepts",
                      (int)od.GetParseError(), rl.ok ? "accepts" : "rejects");
        break;
      }
      if (rl.ok) {
        std::string d = sc::compare(od, rl.v);
        if (!d.empty()) {
          ctx.violation("decode_mismatch", "ondemand_value_decode_mismatch", text, "ParseOnDemand of the literal as a value: %s", d.c_str());
          break;
        }
      } else if (!od.IsNull()) {
        ctx.violation("failure_state", "failure_state", text, "failed ParseOnDemand left a non-null document");
        break;
      }
    }
  }
  // context 2: key of an object; context 3: on-demand key
  {
    std::string text = "{" + lit + ":1,\"zz-other\":[2]}";
    ref::Result r = ref::parse(text);
    ExactBuf b(text);
    Document doc;
    doc.Parse(b.p, b.n);
    if (!doc.HasParseError() != r.ok) {
      ctx.violation("accept_mismatch", r.ok ? "key_rejects_valid" : "key_accepts_invalid", text, "key context: impl %s (code %d) reference %s", doc.HasParseError() ? "rejects" : "accepts",
                    (int)doc.GetParseError(), r.ok ? "accepts" : "rejects");
      return;
    }
    if (!r.ok) {
      // on-demand on an invalid text: only "no fault, slice inside" (C11); call it for the sanitizer's sake
      StringView tgt;
      (void)GetOnDemand(StringView(b.p, b.n), JsonPointer({JsonPointerNode("zz-other")}), tgt);
      return;
    }
    std::string d = sc::compare(doc, r.v);
    if (!d.empty()) {
      ctx.violation("decode_mismatch", "key_decode_mismatch", text, "key context: %s", d.c_str());
      return;
    }
    const std::string& key = r.v.o[0].first;
    StringView tgt;
    ParseResult res = GetOnDemand(StringView(b.p, b.n), JsonPointer({JsonPointerNode(key)}), tgt);
    if (res.Error() != kErrorNone || std::string(tgt.data(), tgt.size()) != "1")
      ctx.violation("ondemand_key", "ondemand_key_miss", text, "on-demand lookup by the decoded key (%s) gave code %d slice '%.*s'", vr::hex(key).c_str(), (int)res.Error(), (int)tgt.size(), tgt.data());
    res = GetOnDemand(StringView(b.p, b.n), JsonPointer({JsonPointerNode("zz-other"), JsonPointerNode(0)}), tgt);
    if (key != "zz-other" && (res.Error() != kErrorNone || std::string(tgt.data(), tgt.size()) != "2"))
      ctx.violation("ondemand_key", "ondemand_skip_over_key", text, "on-demand lookup of the following member gave code %d slice '%.*s'", (int)res.Error(), (int)tgt.size(), tgt.data());
    res = GetOnDemand(StringView(b.p, b.n), JsonPointer({JsonPointerNode(key + "#")}), tgt);
    if (res.Error() == kErrorNone) ctx.violation("ondemand_key", "ondemand_false_key", text, "on-demand lookup by a different key succeeded");
    // raw spelling must not match unless it equals the decoded form
    if (body != key) {
      res = GetOnDemand(StringView(b.p, b.n), JsonPointer({JsonPointerNode(body)}), tgt);
      if (res.Error() == kErrorNone) ctx.violation("ondemand_key", "ondemand_raw_spelling_matches", text, "on-demand lookup by the RAW spelling of an escaped key succeeded");
    }
  }
}

// fast expectation for \uH\uL" : returns false if rejected, else utf8 in out
static bool expect_pair(uint32_t H, uint32_t L, std::string& out) {
  out.clear();
  auto hi = [](uint32_t c) { return c >= 0xd800 && c < 0xdc00; };
  auto lo = [](uint32_t c) { return c >= 0xdc00 && c < 0xe000; };
  if (hi(H)) {
    if (!lo(L)) return false;
    ref::put_utf8(0x10000 + ((H - 0xd800) << 10) + (L - 0xdc00), out);
    return true;
  }
  if (lo(H)) return false;
  ref::put_utf8(H, out);
  if (hi(L) || lo(L)) return false;
  ref::put_utf8(L, out);
  return true;
}

static inline void put_hex4(char* p, uint32_t v, bool upper) {
  const char* hx = upper ? "0123456789ABCDEF" : "0123456789abcdef";
  p[0] = hx[(v >> 12) & 15];
  p[1] = hx[(v >> 8) & 15];
  p[2] = hx[(v >> 4) & 15];
  p[3] = hx[v & 15];
}

static void check_pair_direct(uint32_t H, uint32_t L, vr::Ctx& ctx, bool cross_validate) {
  alignas(64) uint8_t buf[160];
  std::memset(buf, 'p', sizeof buf);
  char* p = (char*)buf;
  p[0] = '\\';
  p[1] = 'u';
  put_hex4(p + 2, H, (H ^ L) & 1);
  p[6] = '\\';
  p[7] = 'u';
  put_hex4(p + 8, L, (H ^ L) & 2);
  p[12] = '"';
  std::string lit;
  if (cross_validate) lit.assign(p, 13);
  uint8_t* src = buf;
  SonicError err = kErrorNone;
  size_t n = internal::parseStringInplace(src, err);
  std::string exp;
  bool ok = expect_pair(H, L, exp);
  ctx.eval();
  if (!ok || exp.size() >= 4) ctx.nontriv();
  if (cross_validate) {
    std::string out, full = lit;
    size_t end = 0;
    int rc = ref::decode_string((const uint8_t*)full.data(), full.size(), 0, out, &end, nullptr, nullptr, nullptr);
    if ((rc == 1) != ok || (ok && out != exp)) {
      ctx.violation("harness_oracle", "harness_oracle", lit, "harness error: fast pair oracle disagrees with the reference decoder");
      return;
    }
  }
  char d[64];
  snprintf(d, sizeof d, "\\u%04X\\u%04X", H, L);
  if ((err == kErrorNone) != ok) {
    ctx.violation("pair_accept", ok ? "pair_rejects_valid" : "pair_accepts_invalid", d, "%s: impl %s (err %d) reference %s", d, err ? "rejects" : "accepts", (int)err, ok ? "accepts" : "rejects");
    return;
  }
  if (ok && (n != exp.size() || std::memcmp(buf, exp.data(), n) != 0 || src != buf + 13))
    ctx.violation("pair_decode", "pair_decode", d, "%s: decoded %s expected %s (consumed %td)", d, vr::hex(buf, n).c_str(), vr::hex(exp).c_str(), src - buf);
}

int main(int argc, char** argv) {
  vr::Args args = vr::parse_args(argc, argv);
  vr::Runner R(args);
  const bool quick = R.quick();
#if defined(__SANITIZE_ADDRESS__)
  const bool asan = true;
#else
  const bool asan = false;
#endif
  const auto& A = atoms();
  const uint64_t NA = A.size();
  const unsigned maxatoms = (quick || asan) ? 2 : 3;
  const uint64_t nseq = fam::count_upto(NA, maxatoms);
  static const unsigned gaps_all[] = {0, 1, 14, 15, 16, 17, 30, 31, 32, 33};
  static const unsigned totals_asan[] = {0, 33, 64};
  static const unsigned totals_quick[] = {0, 32, 33, 64};
  static const unsigned totals_thorough[] = {0, 31, 32, 33, 63, 64, 65};  // 0: no padding
  const unsigned* totals = asan ? totals_asan : quick ? totals_quick : totals_thorough;
  const unsigned NG = (quick || asan) ? 10 : 8;  // thorough uses 3-atom sequences with the 8 block-edge gaps
  const unsigned* gaps = (quick || asan) ? gaps_all : gaps_all + 2;
  const unsigned NT = asan ? 3 : (quick ? 4 : 7);
  const unsigned NP = asan && quick ? 36 : 71;

  // S1r: every sequence of exactly 3 atoms over a reduced 10-atom alphabet (so that "escape, X, escape"
  // shapes - the decoder's second scanning phase - are covered in the quick tier as well)
  static const unsigned redAtoms[10] = {0, 1, 2, 6, 9, 12, 13, 17, 20, 21};
  static const unsigned redGaps[5] = {0, 1, 15, 16, 31};
  static const unsigned redTotals[3] = {0, 33, 64};
  const unsigned RP = asan ? 20 : 41;
  vr::Family s1r;
  s1r.name = "S1r_three_atoms_reduced";
  s1r.count = 1000ull * RP * 5 * 3;
  s1r.group = "S1r";
  s1r.chunk = 512;
  s1r.rule = "all sequences of exactly 3 atoms over the reduced alphabet {plain, \\\", \\\\, \\n, \\u0041, valid pair, lone high, \\x, raw 0x01, raw 0x1f} with p in 0.." + std::to_string(RP - 1) + " plain bytes before, gap g in {0,1,15,16,31} between atoms, padded to total length class {none,33,64}; same four contexts";
  vr::Family s1, s3, u1, u2a, u2b, u2c;
  vr::Family u3;
  s1.name = "S1_atom_sequences";
  s1.count = nseq * NP * NG * NT;
  s1.group = "S1";
  s1.chunk = 512;
  s1.rule = "all sequences of <= " + std::to_string(maxatoms) + " atoms from 24 (plain, 8 short escapes, 3 BMP \\u escapes, valid pair, lone high, lone low, reversed pair, high+BMP, \\x, \\u12G4, \\U0041, raw 0x01, raw 0x1f, raw 7f/80/ff, trailing backslash) with p in 0.." +
            std::to_string(NP - 1) + " plain bytes before the first atom, gap g between atoms, literal padded to a total length class; each literal as root, array value, object key and on-demand key. Non-trivial: contains a backslash or is rejected.";
  s3.name = "S3_raw_bytes";
  s3.count = 256 * 71 * 3;
  s3.group = "S3";
  s3.chunk = 256;
  s3.rule = "every raw byte value 0..255 at every offset 0..70 in literals of length offset+1, 72 and 130";
  u1.name = "U1_single_u_escape";
  u1.count = 65536ull * 3 * 8;
  u1.group = "U1";
  u1.chunk = 1024;
  u1.rule = "every 16-bit \\uXXXX alone (lower/upper/mixed-case hex) after p in {0,5,26..31} plain bytes, through Document::Parse in all contexts";
  u3.name = "U3_hex_digit_every_byte";
  u3.count = 256ull * 4 * 71 * 3;
  u3.group = "U3";
  u3.chunk = 512;
  u3.rule = "\\u escapes in which one of the four digit positions holds every byte value 0..255 (the other digits valid, three base values 0041 / 00e9 / AbCd), after p in 0..70 plain bytes (the escape at every position relative to the 16/32-byte blocks), all contexts: accepted only for the 22 hex digits, and then decoded exactly";
  // P2: two literals in sibling positions of ONE document (a parser may remember something about the first)
  static std::vector<std::string> p2b;
  if (p2b.empty()) {
    // decoded special characters in three spellings: short escape, \u escape, raw byte
    struct Sp {
      const char* esc;
      const char* uesc;
      const char* raw;
    };
    static const Sp sps[] = {{"\\\"", "\\u0022", "\""}, {"\\\\", "\\u005c", "\\"}, {"\\n", "\\u000a", "\n"}, {"\\t", "\\u0009", "\t"}, {"\\u0000", "\\u0000", nullptr}, {"\\/", "\\u002f", "/"}, {"\\u001f", "\\u001F", "\x1f"}};
    std::set<std::string> seen;
    auto add = [&](const std::string& b) {
      if (seen.insert(b).second) p2b.push_back(b);
    };
    for (auto& sp : sps) {
      std::string raw = sp.raw ? std::string(sp.raw) : std::string(1, '\0');  // nullptr stands for a raw NUL byte
      for (const std::string& x : {std::string(sp.esc), std::string(sp.uesc), raw}) {
        add(x);
        add("a" + x);
        add(x + "b");
        add("a" + x + "b");
      }
    }
    for (const char* b : {"", "a", "ab", "a\\", "k"}) add(b);
  }
  vr::Family p2;
  p2.name = "P2_sibling_literals";
  p2.count = (uint64_t)p2b.size() * p2b.size() * 4;
  p2.group = "P2";
  p2.chunk = 256;
  p2.rule = "all ordered pairs (L1,L2) over " + std::to_string(p2b.size()) + " literal bodies (quote, backslash, LF, TAB, NUL, slash, 0x1f each as short escape / \\u escape / raw byte, alone and between plain bytes) in 4 two-literal documents ([{L1:1},{L2:2}], {x:{L1:1},y:{L2:2}}, [L1,L2], {L1:L2}): the document is accepted iff both literals are valid where they stand, and each key / value decodes exactly as it does alone";
  static const uint32_t Lb[64] = {0x0000, 0x0001, 0x001f, 0x0020, 0x0022, 0x005c, 0x007f, 0x0080, 0x00ff, 0x0100, 0x07ff, 0x0800, 0x0fff, 0x1000, 0x7fff, 0x8000,
                                  0xd7fe, 0xd7ff, 0xd800, 0xd801, 0xdbfe, 0xdbff, 0xdc00, 0xdc01, 0xdffe, 0xdfff, 0xe000, 0xe001, 0xfffe, 0xffff, 0xfeff, 0xfffd,
                                  0x0041, 0x00e9, 0x20ac, 0xd83d, 0xde00, 0xabcd, 0xABCD & 0xffff, 0x1234, 0x0a0a, 0xa0a0, 0xd900, 0xda00, 0xdb00, 0xdd00, 0xde01, 0xdf00,
                                  0xd8ff, 0xdcff, 0x0400, 0x03ff, 0xd7c0, 0xdbc0, 0xdfc0, 0x2028, 0x2029, 0x0085, 0x00a0, 0x3000, 0xff00, 0xf000, 0x0f0f, 0xf0f0};
  u2a.name = "U2a_pairs_allH_x_boundaryL";
  u2a.count = 65536ull * 64;
  u2a.group = "U2a";
  u2a.chunk = 65536;
  u2a.rule = "ordered pairs \\uH\\uL for every H in 0..ffff and 64 boundary L, directly through internal::parseStringInplace; fast oracle cross-validated against the reference decoder on every case";
  u2b.name = "U2b_surrogate_square";
  u2b.count = 2048ull * 2048;
  u2b.group = "U2b";
  u2b.chunk = 65536;
  u2b.rule = "every ordered pair with H and L in d800..dfff (all surrogate/surrogate combinations)";
  u2c.name = "U2c_all_pairs";
  u2c.count = 1ull << 32;
  u2c.group = "U2c";
  u2c.chunk = 1 << 20;
  u2c.rule = "every ordered pair \\uH\\uL, H and L in 0..ffff (2^32 literals, exhaustive) directly through internal::parseStringInplace";

  // SL: LONG literals (beyond any fixed-size scratch buffer or unrolling factor): one atom after p and before q plain bytes
  static std::vector<std::pair<uint32_t, uint32_t>> SLp;
  if (SLp.empty()) {
    std::vector<uint32_t> Ts;
    for (uint32_t t = 250; t <= 262; t++) Ts.push_back(t);
    for (uint32_t t = 440; t <= 560; t++) Ts.push_back(t);
    for (uint32_t b : {1024u, 4096u, 65536u})
      for (int d = -2; d <= 2; d++) Ts.push_back(b + d);
    for (uint32_t T : Ts)
      for (uint32_t pp : {0u, 1u, 31u, T / 2, T - 33, T - 1, T}) SLp.push_back({pp, T - pp});
  }
  vr::Family sl;
  sl.name = "SL_long_literals";
  sl.count = (uint64_t)SLp.size() * NA;
  sl.group = "SL";
  sl.chunk = 16;
  sl.rule = "each of the 24 atoms inside a literal of T plain bytes, T in 250..262, every T in 440..560, and +-2 around 1024, 4096, 65536, after 0, 1, 31, T/2, T-33, T-1, T of them; root, array value, object key and on-demand key";

  // SE: escape-DENSE literals. In-place decoding shrinks the literal: after n escapes the write position lags the read
  // position by up to 5n bytes (the decoder may switch strategy once the lag exceeds a vector); then a gap, an atom of
  // every kind, a short gap and a second atom
  static const char* kLead[4] = {"\\n", "\\u00e9", "\\u20AC", "\\ud83d\\ude00"};
  static const unsigned kSEg1[4] = {0, 1, 15, 31}, kSEg2[2] = {0, 3};
  static const unsigned kSEb[3] = {0, 6, 2};  // second atom: plain, \n, backslash-backslash
  vr::Family se;
  se.name = "SE_escape_dense";
  se.count = (uint64_t)41 * 4 * 4 * NA * 2 * 3;
  se.group = "SE";
  se.chunk = 512;
  se.rule = "n = 0..40 leading escapes of one kind (\\n, 2-byte, 3-byte, surrogate pair) then g1 in {0,1,15,31} plain bytes, one of the 24 atoms, g2 in {0,3} plain bytes and a second atom from {plain, \\n, \\\\}: five contexts";

  // SU: every byte in every digit slot of an escape, behind leads that route the escape through different code
  static std::vector<std::string> SUlead;
  if (SUlead.empty()) {
    for (const char* e : {"", "\\\"", "\\\\", "\\n", "\\u0041", "\\\"\\\\", "\\u00e9\\\""}) SUlead.push_back(e);
    for (unsigned k = 1; k <= 70; k++) SUlead.push_back(std::string(k, 'q'));
  }
  vr::Family su;
  su.name = "SU_escape_digit_bytes";
  su.count = (uint64_t)SUlead.size() * 12 * 256;
  su.group = "SU";
  su.chunk = 1024;
  su.rule = "every byte 0..255 in each of the 4 digit slots of \\u00e9 and the 8 of \\ud83d\\ude00, behind " + std::to_string(SUlead.size()) + " leads (nothing, escaped quote / backslash / \\n / \\u0041, two escapes, 1..70 plain bytes): five contexts";
  vr::CheckFn check = [&](const vr::Family& f, uint64_t idx, vr::Ctx& ctx) {
    const std::string& nm = f.name;
    if (nm[0] == 'S' && nm[1] == 'U') {
      unsigned byte = (unsigned)(idx % 256);
      idx /= 256;
      unsigned slot = (unsigned)(idx % 12);
      std::string esc = slot < 4 ? "\\u00e9" : "\\ud83d\\ude00";
      esc[slot < 4 ? 2 + slot : slot < 8 ? 2 + (slot - 4) : 8 + (slot - 8)] = (char)byte;
      std::string body = SUlead[idx / 12] + esc;
      if (ctx.want_sample) ctx.sample(vr::hex(body));
      check_body(body, ctx);
      return;
    }
    if (nm[0] == 'S' && nm[1] == 'E') {
      unsigned b = kSEb[idx % 3];
      idx /= 3;
      unsigned g2 = kSEg2[idx % 2];
      idx /= 2;
      const std::string& atom = A[idx % NA];
      idx /= NA;
      unsigned g1 = kSEg1[idx % 4];
      idx /= 4;
      const char* lead = kLead[idx % 4];
      unsigned n = (unsigned)(idx / 4);
      std::string body;
      for (unsigned i = 0; i < n; i++) body += lead;
      body.append(g1, 'q');
      body += atom;
      body.append(g2, 'r');
      body += A[b];
      if (ctx.want_sample) ctx.sample(std::to_string(n) + " x " + lead + " + " + vr::hex(atom));
      check_body(body, ctx);
      return;
    }
    if (nm[0] == 'S' && nm[1] == 'L') {
      const std::string& atom = A[idx % NA];
      auto pq = SLp[idx / NA];
      std::string body(pq.first, 'q');
      body += atom;
      body.append(pq.second, 'r');
      if (ctx.want_sample) ctx.sample("p=" + std::to_string(pq.first) + " atom " + vr::hex(atom) + " q=" + std::to_string(pq.second));
      check_body(body, ctx);
      return;
    }
    if (nm[0] == 'S' && nm[1] == '1' && nm[2] == 'r') {
      unsigned ti = (unsigned)(idx % 3);
      idx /= 3;
      unsigned gi = (unsigned)(idx % 5);
      idx /= 5;
      unsigned p = (unsigned)(idx % RP);
      idx /= RP;
      unsigned a0 = redAtoms[idx % 10], a1 = redAtoms[(idx / 10) % 10], a2 = redAtoms[(idx / 100) % 10];
      std::string body(p, 'q');
      body += A[a0];
      body.append(redGaps[gi], 'g');
      body += A[a1];
      body.append(redGaps[gi], 'g');
      body += A[a2];
      unsigned total = redTotals[ti];
      if (total) {
        if (body.size() >= total) {
          ctx.skip();
          return;
        }
        body.append(total - body.size(), 'w');
      }
      if (ctx.want_sample) ctx.sample(body);
      check_body(body, ctx);
      return;
    }
    if (nm[0] == 'S' && nm[1] == '1') {
      unsigned ti = (unsigned)(idx % NT);
      idx /= NT;
      unsigned gi = (unsigned)(idx % NG);
      idx /= NG;
      unsigned p = (unsigned)(idx % NP);
      idx /= NP;
      std::vector<unsigned> d;
      fam::decode_upto(idx, NA, maxatoms, d);
      if (d.size() < 2 && gi != 0) {
        ctx.skip();
        return;
      }
      std::string body(p, 'q');
      for (size_t j = 0; j < d.size(); j++) {
        if (j) body.append(gaps[gi], 'g');
        body += A[d[j]];
      }
      unsigned total = totals[ti];
      if (total) {
        if (body.size() >= total) {
          ctx.skip();
          return;
        }
        // pad BEFORE a trailing backslash atom would change its meaning; pad with plain bytes at the end
        // unless the last atom is the trailing backslash, in which case pad in front of it
        if (!d.empty() && A[d.back()] == "\\")
          body.insert(body.size() - 1, std::string(total - body.size(), 'w'));
        else
          body.append(total - body.size(), 'w');
      }
      if (ctx.want_sample) ctx.sample(body);
      check_body(body, ctx);
      return;
    }
    if (nm[0] == 'S') {
      unsigned li = (unsigned)(idx % 3);
      idx /= 3;
      unsigned off = (unsigned)(idx % 71);
      unsigned byte = (unsigned)(idx / 71);
      size_t len = li == 0 ? off + 1 : li == 1 ? 72 : 130;
      std::string body(len, 'r');
      body[off] = (char)byte;
      if (ctx.want_sample) ctx.sample(vr::hex(body));
      check_body(body, ctx);
      return;
    }
    if (nm[0] == 'P') {
      unsigned shape = (unsigned)(idx % 4);
      idx /= 4;
      const std::string& b1 = p2b[idx / p2b.size()];
      const std::string& b2 = p2b[idx % p2b.size()];
      std::string L1 = "\"" + b1 + "\"", L2 = "\"" + b2 + "\"";
      std::string text = shape == 0 ? "[{" + L1 + ":1},{" + L2 + ":2}]" : shape == 1 ? "{\"x\":{" + L1 + ":1},\"y\":{" + L2 + ":2}}" : shape == 2 ? "[" + L1 + "," + L2 + "]" : "{" + L1 + ":" + L2 + "}";
      ctx.eval();
      ctx.nontriv();
      if (ctx.want_sample) ctx.sample(vr::hex(text));
      ref::Result r = ref::parse(text);
      ExactBuf b(text);
      Document doc;
      doc.Parse(b.p, b.n);
      if (!doc.HasParseError() != r.ok) {
        ctx.violation("accept_mismatch", r.ok ? "siblings_reject_valid" : "siblings_accept_invalid", text, "two-literal document: impl %s (code %d) reference %s", doc.HasParseError() ? "rejects" : "accepts", (int)doc.GetParseError(), r.ok ? "accepts" : "rejects");
        return;
      }
      if (!r.ok) return;
      bool save = sc::g_skip_lookups_on_dup_keys;
      std::string d = sc::compare(doc, r.v);
      sc::g_skip_lookups_on_dup_keys = save;
      if (!d.empty()) ctx.violation("decode_mismatch", "siblings_decode_mismatch", text, "two-literal document: %s", d.c_str());
      return;
    }
    if (nm[0] == 'U' && nm[1] == '3') {
      static const char* bases[3] = {"0041", "00e9", "AbCd"};
      unsigned bi = (unsigned)(idx % 3);
      idx /= 3;
      unsigned p = (unsigned)(idx % 71);
      idx /= 71;
      unsigned pos = (unsigned)(idx % 4);
      unsigned byte = (unsigned)(idx / 4);
      std::string digits = bases[bi];
      digits[pos] = (char)byte;
      std::string body = std::string(p, 'q') + "\\u" + digits + "zz";
      if (ctx.want_sample) ctx.sample(vr::hex(body));
      check_body(body, ctx);
      return;
    }
    if (nm[1] == '1') {
      static const unsigned ps[8] = {0, 5, 26, 27, 28, 29, 30, 31};
      unsigned p = ps[idx % 8];
      idx /= 8;
      unsigned cs = (unsigned)(idx % 3);
      uint32_t cp = (uint32_t)(idx / 3);
      char h[5] = {0};
      put_hex4(h, cp, cs == 1);
      if (cs == 2)
        for (int k = 0; k < 4; k += 2)
          if (h[k] >= 'a' && h[k] <= 'f') h[k] = (char)(h[k] - 32);
      std::string body = std::string(p, 'q') + "\\u" + h + "t";
      if (ctx.want_sample) ctx.sample(body);
      check_body(body, ctx);
      return;
    }
    if (nm[2] == 'a') {
      check_pair_direct((uint32_t)(idx / 64), Lb[idx % 64], ctx, true);
      return;
    }
    if (nm[2] == 'b') {
      check_pair_direct(0xd800 + (uint32_t)(idx / 2048), 0xd800 + (uint32_t)(idx % 2048), ctx, true);
      return;
    }
    check_pair_direct((uint32_t)(idx >> 16), (uint32_t)(idx & 0xffff), ctx, false);
  };

  std::vector<vr::Family> fams = {s1, s1r, s3, u1, u3, p2, sl, se, su, u2a, u2b};
  if (!quick && !asan) fams.push_back(u2c);
  if (args.replay) {
    std::vector<vr::Family> all = {s1, s1r, s3, u1, u3, p2, u2a, u2b, u2c};
    return R.replay_one(all, check);
  }
  const std::string only = args.get("only");
  for (auto& f : fams)
    if (only.empty() || only == f.name) R.run(f, check);
  return R.finish();
}
