// Engine tsanrun (C17, monitor pass): the same thread bodies as the schedule explorer, compiled
// WITHOUT hooks under ThreadSanitizer and run free: all threads are created first and released by
// a barrier, so their accesses are concurrent in happens-before terms whatever the timing.  The
// serialising scheduler's hand-offs would hide unsynchronised accesses from a race detector; this
// pass decides them.  Any TSan report kills the worker (halt_on_error) and is attributed to the case.
#include <atomic>
#include <thread>

#include "common/runner.hpp"
#include "sonic/experiment/lazy_update.h"
#include "sonic/sonic.h"

using namespace sonic_json;

struct Barrier {
  std::atomic<int> n{0};
  int total;
  explicit Barrier(int t) : total(t) {}
  void wait() {
    n.fetch_add(1, std::memory_order_acq_rel);
    while (n.load(std::memory_order_acquire) < total) {
    }
  }
};

// a user-supplied, STATEFUL base allocator for the pool: every pool owns its own instance; an instance that is
// entered from a second thread is shared by independent documents (TSan sees the plain counters race as well)
struct CountingBase {
  size_t bytes = 0, calls = 0;
  std::thread::id owner{};
  bool foreign = false;
  void enter() {
    if (owner == std::thread::id())
      owner = std::this_thread::get_id();
    else if (owner != std::this_thread::get_id())
      foreign = true;
    calls++;
  }
  void* Malloc(size_t n) {
    enter();
    bytes += n;
    return std::malloc(n);
  }
  void* Realloc(void* p, size_t, size_t n) {
    enter();
    bytes += n;
    return std::realloc(p, n);
  }
  static void Free(void* p) { std::free(p); }
  static constexpr bool kNeedFree = true;
};
static std::atomic<int> g_foreign_entries{0};
struct CountingBaseChecked : CountingBase {
  ~CountingBaseChecked() {
    if (foreign) g_foreign_entries.fetch_add(1);
  }
};
using CountDoc = GenericDocument<DNode<MemoryPoolAllocator<CountingBaseChecked>>>;

static std::string doc_op(Document& d, int op) {
  switch (op) {
    case 8: {
      // on-demand lookups through ESCAPED keys (decoded into scratch storage) on the thread's own text
      static const char kEsc[] = "{\"p\\tq\":31,\"u\\tv\":32,\"a\\u0041b\":{\"x\\ny\":[1,{\"\\\"\":2}]},\"long\\/xxxxxxxxxxxxxxxxxxxxxxxxxxxxxxxxxxxxxxxxxxxxxxxxxxxxxxxxxxxxxxxxxxxxx\":33}";
      std::string r = "G";
      {
        StringView t;
        ParseResult pr = GetOnDemand(StringView(kEsc, sizeof(kEsc) - 1), JsonPointer({JsonPointerNode("u\tv")}), t);
        r += pr.Error() == kErrorNone ? std::string(t.data(), t.size()) : "E";
        pr = GetOnDemand(StringView(kEsc, sizeof(kEsc) - 1), JsonPointer({JsonPointerNode("aAb"), JsonPointerNode("x\ny"), JsonPointerNode(1), JsonPointerNode("\"")}), t);
        r += pr.Error() == kErrorNone ? std::string(t.data(), t.size()) : "E";
        pr = GetOnDemand(StringView(kEsc, sizeof(kEsc) - 1), JsonPointer({JsonPointerNode("long/xxxxxxxxxxxxxxxxxxxxxxxxxxxxxxxxxxxxxxxxxxxxxxxxxxxxxxxxxxxxxxxxxxxxx")}), t);
        r += pr.Error() == kErrorNone ? std::string(t.data(), t.size()) : "E";
        pr = GetOnDemand(StringView(kEsc, sizeof(kEsc) - 1), JsonPointer({JsonPointerNode("r\ts")}), t);
        r += pr.Error() == kErrorNone ? std::string(t.data(), t.size()) : "m";
      }
      Document o;
      o.ParseOnDemand(kEsc, sizeof(kEsc) - 1, JsonPointer({JsonPointerNode("p\tq")}));
      r += o.HasParseError() ? "e" : o.Dump();
      return r;
    }
    case 9: {
      // a second document type of this thread: pool over a stateful user-supplied base allocator (template argument)
      CountDoc c;
      c.Parse("{\"a\":[1,2,{\"b\":\"ssssssssssssssssssssssssssssssssssssssssssssssssssssssssssssssssssssssssssssssssssssssssss\"}],\"c\":[1.5,2.5,3.5,4.5,5.5,6.5,7.5,8.5,9.5]}");
      for (int i = 0; i < 40; i++) c["c"].PushBack(CountDoc::NodeType(i), c.GetAllocator());
      CountDoc c2;
      c2.CopyFrom(c, c2.GetAllocator(), true);
      return "C" + c2.Dump();
    }
    case 11: {
      // the caller WRITES through the reference that the non-const operator[] returns for a missing key (a placeholder
      // node), then looks up another missing key: it must read null, and so must every other thread
      if (!d.IsObject()) d.SetObject();
      d["no-such-key-w"].SetInt64(7);
      d["no-such-key-w2"] = Node("text");
      const Document& c = d;
      std::string r = std::string("w") + (c["other-missing"].IsNull() ? "n" : "x") + (d["third-missing"].IsNull() ? "n" : "x");
      return r;
    }
    case 10: {
      // freeing-allocator document, lookup map, equality, Swap, move
      GenericDocument<DNode<SimpleAllocator>> s1, s2;
      s1.Parse("{\"k1\":1,\"k2\":[true,null],\"k3\":{\"x\":\"y\"}}");
      s1.CreateMap(s1.GetAllocator());
      s2.CopyFrom(s1, s2.GetAllocator(), true);
      std::string r = std::string("X") + (s1 == s2 ? "1" : "0") + (s1.HasMember("k3") ? "h" : "m");
      s1.Swap(s2);
      GenericDocument<DNode<SimpleAllocator>> s3(std::move(s1));
      return r + s3.Dump();
    }
    case 0: {
      // a text that reaches the slow paths too: exact-tie and subnormal numbers (big-decimal fallback), more
      // than 19 digits, escapes incl. surrogate pairs, long strings, deep nesting, long whitespace
      static const char kText[] =
          "{\"a\":[1,2,{\"b\":\"s\"}],\"c\":1.5,\"n\":[1.00000000000000011102230246251565404236316680908203125,2.2250738585072011e-308,"
          "4.9406564584124654e-324,123456789012345678901234567890,1e23,-0.0,18446744073709551615,9007199254740993.5e-3],"
          "\"s\":\"\\u00e9\\ud83d\\ude00\\n\\\"xxxxxxxxxxxxxxxxxxxxxxxxxxxxxxxxxxxxxxxxxxxxxxxxxxxxxxxxxxxxxxxxxxxxxxxxxx\","
          "\"d\":[[[[[[[[[[[[[[[[[[[[1]]]]]]]]]]]]]]]]]]]],                                                                          \"z\":null}";
      d.Parse(kText, sizeof(kText) - 1);
      std::string r = d.HasParseError() ? "E" : "P";
      if (!d.HasParseError()) {
        char b[64];
        snprintf(b, sizeof b, "%.17g", d["n"][(size_t)0].GetDouble());
        r += b;
      }
      return r;
    }
    case 1: {
      if (!d.IsObject()) d.SetObject();
      d.AddMember("k", Node(7), d.GetAllocator());
      d.RemoveMember("c");
      return "M";
    }
    case 2: return std::string("L") + (d.IsObject() && d["missing"].IsNull() ? "n" : "x");
    case 3: return "D" + d.Dump();
    case 4: {
      const Document& c = d;
      return std::string("l") + (c.IsObject() && c["missing"].IsNull() ? "n" : "x");
    }
    case 5: {
      Document o;
      o.ParseOnDemand("{\"x\":{\"y\":[1,2,3]}}", JsonPointer({JsonPointerNode("x"), JsonPointerNode("y"), JsonPointerNode(1)}));
      return o.HasParseError() ? "e" : "o";
    }
    case 6: {
      d.ParseSchema("{\"a\":[5],\"c\":2.5}");
      return "S";
    }
    default: {
      std::string r = UpdateLazy("{\"a\":1}", "{\"b\":2}");
      return "U" + r;
    }
  }
}
static const char kSharedText[] =
    "{\"a\":[1,2,{\"b\":\"s\"}],\"c\":1.5,\"w\":{\"k0\":0,\"k1\":1,\"k2\":2,\"k3\":3,\"k4\":4,\"k5\":5,\"k6\":6,\"k7\":7,\"k8\":8,\"k9\":9,\"k10\":10,\"k11\":11,\"k12\":12,"
    "\"k13\":13,\"k14\":14,\"k15\":15,\"k16\":16,\"k17\":17,\"k18\":18,\"k19\":19,\"k20\":20,\"k21\":21,\"k22\":22,\"k23\":23}}";
static const char kSharedOther[] =
    "{\"w\":{\"k23\":23,\"k0\":0,\"k1\":1,\"k2\":2,\"k3\":3,\"k4\":4,\"k5\":5,\"k6\":6,\"k7\":7,\"k8\":8,\"k9\":9,\"k10\":10,\"k11\":11,\"k12\":12,"
    "\"k13\":13,\"k14\":14,\"k15\":15,\"k16\":16,\"k17\":17,\"k18\":18,\"k19\":19,\"k20\":20,\"k21\":21,\"k22\":22},\"c\":1.5,\"a\":[1,2,{\"b\":\"s\"}]}";
static std::string ro_op(const Document& d, int op) {
  switch (op) {
    case 0: return std::string("T") + (d.IsObject() ? "o" : "-") + std::to_string(d.Size()) + (d.FindMember("c")->value.IsDouble() ? "d" : "-") + std::to_string(d.FindMember("c")->value.GetDouble());
    case 1: {
      std::string s = "I";
      for (auto it = d.MemberBegin(); it != d.MemberEnd(); ++it) s += std::string(it->name.GetStringView().data(), it->name.Size());
      for (auto it = d["a"].Begin(); it != d["a"].End(); ++it) s += it->IsNumber() ? "n" : "_";
      return s;
    }
    case 2: return std::string("F") + (d.FindMember("a") != d.MemberEnd() ? "h" : "m") + (d.FindMember("zz") != d.MemberEnd() ? "h" : "m") + (d.HasMember("c") ? "h" : "m");
    case 3: return std::string("O") + (d["a"].IsArray() ? "a" : "-") + (d["nope"].IsNull() ? "n" : "x");
    case 4: {
      const Node* n = d.AtPointer(JsonPointer({JsonPointerNode("a"), JsonPointerNode(2), JsonPointerNode("b")}));
      return std::string("P") + (n && n->IsString() ? std::string(n->GetStringView().data(), n->Size()) : "?");
    }
    case 5: {
      WriteBuffer wb;
      d.Serialize(wb);
      return std::string("S") + wb.ToString();
    }
    case 6: return "D" + d.Dump();
    case 7: {
      Document other;
      other.Parse(kSharedOther);
      return std::string("E") + (d == other ? "1" : "0");
    }
    case 8: {
      // keyed lookups that HIT at different positions of a wide object (a per-object lookup cache would be written here)
      const Node& w = d["w"];
      std::string s = "W";
      for (const char* k : {"k3", "k17", "k23", "k0", "k17"}) {
        auto it = w.FindMember(k);
        s += it != w.MemberEnd() ? std::to_string(it->value.GetInt64()) : "m";
      }
      return s;
    }
    default: {
      const Node& w = d["w"];
      std::string s = "w";
      for (const char* k : {"k22", "k1", "k16", "nope", "k9"}) s += w.HasMember(k) ? std::to_string(w[k].GetInt64()) : "m";
      const Node* n = d.AtPointer(JsonPointer({JsonPointerNode("w"), JsonPointerNode("k12")}));
      s += n ? std::to_string(n->GetInt64()) : "?";
      return s;
    }
  }
}

int main(int argc, char** argv) {
  vr::Args args = vr::parse_args(argc, argv);
  vr::Runner R(args);
  const bool quick = R.quick();
  const int rounds = quick ? 20 : 200;
  const int NA = 12, NB = 10;
  vr::Family fa, fb, fbm, fc;
  fa.name = "TA_independent_documents";
  fa.count = (uint64_t)NA * NA * rounds;
  fa.chunk = 4;
  fa.group = "TA";
  fa.rule = "scenario A under TSan, free-running: 2-3 threads each working on their OWN document; every ordered pair of operations from {Parse, mutate, operator[] miss (non-const), Dump, operator[] miss (const), ParseOnDemand, ParseSchema, UpdateLazy, GetOnDemand / ParseOnDemand through escaped keys, a document over a pool with a stateful user-supplied base allocator, a freeing-allocator document with map / == / Swap / move, writes through the operator[] miss placeholder} x rounds; an allocator instance entered by two threads is reported even without an overlap";
  fb.name = "TB_shared_readonly_document";
  fb.count = (uint64_t)NB * NB * rounds;
  fb.chunk = 4;
  fb.group = "TB";
  fb.rule = "scenario B under TSan: 3 threads performing read-only operations on ONE shared document; every ordered pair of operations from {type tests/getters, iteration, FindMember/HasMember hit+miss, operator[] hit+miss, AtPointer, Serialize into own buffer, Dump, ==, keyed lookups hitting different positions of a 24-member object (two sets)} x rounds";
  fbm = fb;
  fbm.name = "TB_shared_readonly_document_with_map";
  fbm.group = "TBm";
  fc.name = "TC_shared_locked_allocator";
  fc.count = (uint64_t)rounds * 9;
  fc.chunk = 1;
  fc.group = "TC";
  fc.rule = "scenario C under TSan (built with SONIC_LOCKED_ALLOCATOR only): 2-4 threads x 50 Malloc / Realloc / Realloc(null) on one shared pool with a 64-byte chunk capacity, in 3 pool configurations (default; adaptive chunk policy; user buffer without base allocator, overflowing); blocks must also be disjoint and intact";

  // Quote's source range under TSan: the serialised string is a window into an arena whose NEXT bytes another thread is
  // writing (next record of a log buffer, neighbouring field). Reading one byte beyond the string is a data race.
  vr::Family fq;
  fq.name = "TQ_quote_next_to_foreign_writes";
  fq.count = (uint64_t)100 * 4;
  fq.chunk = 4;
  fq.group = "TQ";
  fq.rule = "thread A serialises a document holding a constant string of n bytes (n = 1..100) that is a window into an arena at 4 alignments, thread B concurrently overwrites the 64 bytes that follow the window: no report, output correct";

  // the on-demand entry points alone (run as a job of C10: a lookup's result must not depend on what other threads look up)
  vr::Family fao;
  fao.name = "TAo_ondemand_in_threads";
  fao.count = (uint64_t)4 * rounds * 3;
  fao.chunk = 4;
  fao.group = "TAo";
  fao.rule = "3 threads, each looking up members of its OWN text through GetOnDemand / ParseOnDemand (plain and escaped keys, hits and misses), every ordered pair of the two on-demand operations x rounds, under TSan; results equal to the sequential run";

  // documents of several threads over ONE locked pool: every Parse path (success, failure early / late, ParseOnDemand,
  // ParseSchema, mutation) goes through the shared allocator; anything it touches without the lock is a race
  vr::Family fp;
  fp.name = "TP_documents_over_shared_locked_pool";
  fp.count = (uint64_t)rounds * 6;
  fp.chunk = 1;
  fp.group = "TP";
  fp.rule = "built with SONIC_LOCKED_ALLOCATOR: 2-4 threads, each running 40 operations on its OWN documents that all sit on ONE shared pool: Parse of valid texts, of texts failing early / late (truncated literal, truncated object, garbage after a complete container), ParseOnDemand hit / miss, ParseSchema, AddMember / PushBack growth, CopyFrom; every successful result must read back intact after all threads finished";

  vr::CheckFn check = [&](const vr::Family& f, uint64_t idx, vr::Ctx& ctx) {
    ctx.eval();
    ctx.nontriv();
    if (f.name[1] == 'P') {
#ifdef SONIC_LOCKED_ALLOCATOR
      const int T = 2 + (int)(idx % 3);
      const int variant = (int)((idx / 3) % 2);
      if (ctx.want_sample) ctx.sample(std::to_string(T) + " threads, variant " + std::to_string(variant));
      static const char* kValid[3] = {"{\"a\":[1,2],\"b\":\"s\"}", "[[3],\"tt\",{\"k\":4}]", "{\"k\":{\"x\":[true,null]},\"m\":\"0123456789012345678901234567890123456789\"}"};
      static const char* kBad[4] = {"[1, 2, tru", "{\"a\":", "nul", "{\"a\":[1,2,{\"b\":[3]}],\"c\":x}"};
      MemoryPoolAllocator<> pool(variant ? 256 : 4096);
      Barrier bar(T);
      std::vector<std::vector<std::unique_ptr<Document>>> docs(T);
      std::vector<std::vector<std::string>> want(T);
      std::vector<std::thread> th;
      for (int t = 0; t < T; t++)
        th.emplace_back([&, t] {
          bar.wait();
          for (int k = 0; k < 40; k++) {
            std::unique_ptr<Document> d(new Document(&pool));
            std::string w;
            switch ((k + t) % 8) {
              case 0: case 1: case 2: {
                const char* v = kValid[(k + t) % 3];
                d->Parse(v, std::strlen(v));
                w = v;
                break;
              }
              case 3: case 4: {
                const char* b = kBad[(k / 2 + t) % 4];
                d->Parse(b, std::strlen(b));
                w = "";
                // the same document object is used again after the failure
                if (k % 3 == 0) {
                  d->Parse(kValid[1], std::strlen(kValid[1]));
                  w = kValid[1];
                }
                break;
              }
              case 5: {
                d->ParseOnDemand(kValid[0], std::strlen(kValid[0]), JsonPointer({JsonPointerNode(k % 2 ? "a" : "zz")}));
                w = k % 2 ? "[1,2]" : "";
                break;
              }
              case 6: {
                d->Parse("{\"a\":null,\"b\":1}", 16);
                d->ParseSchema(kValid[0], std::strlen(kValid[0]));
                w = kValid[0];
                break;
              }
              default: {
                d->SetObject();
                for (int i = 0; i < 5; i++) d->AddMember("k" + std::to_string(i), Node(i), d->GetAllocator());
                w = "{\"k0\":0,\"k1\":1,\"k2\":2,\"k3\":3,\"k4\":4}";
                break;
              }
            }
            docs[t].push_back(std::move(d));
            want[t].push_back(w);
          }
        });
      for (auto& x : th) x.join();
      for (int t = 0; t < T; t++)
        for (size_t k = 0; k < docs[t].size(); k++) {
          const Document& d = *docs[t][k];
          if (want[t][k].empty()) {
            if (!d.HasParseError() || !d.IsNull()) ctx.violation("observation", "tsan_pool_documents_error_state", "P", "thread %d op %zu: a rejected parse left error=%d isnull=%d", t, k, (int)d.GetParseError(), (int)d.IsNull());
          } else if (d.HasParseError() || d.Dump() != want[t][k])
            ctx.violation("observation", "tsan_pool_documents_disturbed", "P", "thread %d op %zu: document reads back as %s, expected %s", t, k, d.HasParseError() ? "(parse error)" : d.Dump().substr(0, 100).c_str(), want[t][k].c_str());
        }
#else
      ctx.skip();
#endif
      return;
    }
    if (f.name[1] == 'Q') {
      const unsigned n = (unsigned)(idx % 100) + 1, al = (unsigned)(idx / 100);
      static const unsigned offs[4] = {0, 1, 17, 33};
      if (ctx.want_sample) ctx.sample("n=" + std::to_string(n) + " offset " + std::to_string(offs[al]));
      alignas(64) static char arena[1024];
      char* win = arena + 256 + offs[al];
      for (unsigned i = 0; i < n; i++) win[i] = (char)('a' + i % 26);
      if (n > 2) win[n / 2] = '"';
      std::string expect = "[\"";
      for (unsigned i = 0; i < n; i++) expect += win[i] == '"' ? std::string("\\\"") : std::string(1, win[i]);
      expect += "\"]";
      Barrier bar(2);
      std::string got;
      std::thread a([&] {
        Document d;
        d.SetArray();
        d.PushBack(Node(StringView(win, n)), d.GetAllocator());
        bar.wait();
        for (int r = 0; r < 100; r++) got = d.Dump();
      });
      std::thread b([&] {
        bar.wait();
        // byte stores (a vectorised memset would be a 16/32-byte access, which ThreadSanitizer does not track)
        for (int r = 0; r < 200; r++)
          for (unsigned i = 0; i < 64; i++) ((volatile char*)win)[n + i] = (char)('A' + (r + i) % 20);
      });
      a.join();
      b.join();
      if (got != expect) ctx.violation("observation", "tsan_observation_differs", "Q", "Dump gave %s expected %s", got.substr(0, 80).c_str(), expect.substr(0, 80).c_str());
      return;
    }
    if (f.name[1] == 'A') {
      int o1 = (int)(idx % NA), o2 = (int)((idx / NA) % NA);
      if (f.name[2] == 'o') {
        static const int od[2] = {5, 8};
        o1 = od[idx % 2];
        o2 = od[(idx / 2) % 2];
      }
      if (ctx.want_sample) ctx.sample("ops " + std::to_string(o1) + "," + std::to_string(o2));
      const int T = 3;
      Barrier bar(T);
      std::string obs[3], seq[3];
      for (int t = 0; t < T; t++) {
        Document d;
        seq[t] = doc_op(d, 0) + doc_op(d, t == 0 ? o1 : o2) + doc_op(d, t == 0 ? o2 : o1);
      }
      std::vector<std::thread> th;
      for (int t = 0; t < T; t++)
        th.emplace_back([&, t] {
          Document d;
          bar.wait();
          obs[t] = doc_op(d, 0) + doc_op(d, t == 0 ? o1 : o2) + doc_op(d, t == 0 ? o2 : o1);
        });
      for (auto& x : th) x.join();
      for (int t = 0; t < T; t++)
        if (obs[t] != seq[t]) ctx.violation("observation", "tsan_observation_differs", "A", "thread %d observed %s, sequential run %s", t, obs[t].substr(0, 100).c_str(), seq[t].substr(0, 100).c_str());
      if (g_foreign_entries.exchange(0))
        ctx.violation("shared_instance", "tsan_allocator_instance_shared", "A", "a base-allocator instance belonging to one thread's document was entered from another thread: independent documents share hidden state");
      return;
    }
    if (f.name[1] == 'B') {
      int o1 = (int)(idx % NB), o2 = (int)((idx / NB) % NB);
      if (ctx.want_sample) ctx.sample("ops " + std::to_string(o1) + "," + std::to_string(o2));
      Document shared;
      shared.Parse(kSharedText);
      if (f.name.size() > 30) {
        shared.CreateMap(shared.GetAllocator());
        shared["w"].CreateMap(shared.GetAllocator());
      }
      const Document& cd = shared;
      const int T = 3;
      Barrier bar(T);
      std::string obs[3], seq[3];
      for (int t = 0; t < T; t++) seq[t] = ro_op(cd, t == 1 ? o2 : o1) + ro_op(cd, t == 1 ? o1 : o2);
      std::vector<std::thread> th;
      for (int t = 0; t < T; t++)
        th.emplace_back([&, t] {
          bar.wait();
          obs[t] = ro_op(cd, t == 1 ? o2 : o1) + ro_op(cd, t == 1 ? o1 : o2);
        });
      for (auto& x : th) x.join();
      for (int t = 0; t < T; t++)
        if (obs[t] != seq[t]) ctx.violation("observation", "tsan_observation_differs", "B", "thread %d observed %s, sequential run %s", t, obs[t].substr(0, 100).c_str(), seq[t].substr(0, 100).c_str());
      return;
    }
    {
#ifdef SONIC_LOCKED_ALLOCATOR
      const int T = 2 + (int)(idx % 3);
      const int cfg = (int)((idx / 3) % 3);
      static const char* cfgn[3] = {"default pool (simple policy, own base allocator), chunk 64", "adaptive chunk policy starting at 64", "pool over a 512-byte user buffer without base allocator (overflows into its own)"};
      if (ctx.want_sample) ctx.sample(std::to_string(T) + " threads, " + cfgn[cfg]);
      auto run_pool = [&](auto& pool) {
      Barrier bar(T);
      struct Blk {
        char* p;
        size_t n;
        uint8_t pat;
      };
      std::vector<std::vector<Blk>> mine(T);
      std::vector<std::thread> th;
      for (int t = 0; t < T; t++)
        th.emplace_back([&, t] {
          bar.wait();
          uint8_t pat = (uint8_t)(1 + 60 * t);
          for (int k = 0; k < 50; k++) {
            size_t n = (k % 3 == 0) ? 24 : (k % 3 == 1 ? 48 : 8);
            // every 5th allocation goes through Realloc(null, 0, n), as the first growth of an empty container does
            char* p = k % 5 == 2 ? (char*)pool.Realloc(nullptr, 0, n) : (char*)pool.Malloc(n);
            std::memset(p, pat, n);
            if (k % 4 == 1) {
              size_t nn = k % 8 == 1 ? 40 : 200;
              char* q = (char*)pool.Realloc(p, n, n + nn);
              std::memset(q, pat, n + nn);
              p = q;
              n += nn;
            }
            mine[t].push_back({p, n, pat});
            pat++;
            if (pat == 0) pat = 1;
          }
        });
      for (auto& x : th) x.join();
      std::vector<Blk> all;
      for (auto& v : mine)
        for (auto& b : v) all.push_back(b);
      for (size_t i = 0; i < all.size(); i++) {
        for (size_t k = 0; k < all[i].n; k++)
          if ((uint8_t)all[i].p[k] != all[i].pat) {
            ctx.violation("contents", "tsan_block_disturbed", "C", "block %zu disturbed", i);
            i = all.size() - 1;
            break;
          }
      }
      std::sort(all.begin(), all.end(), [](const Blk& a, const Blk& b) { return a.p < b.p; });
      for (size_t i = 0; i + 1 < all.size(); i++)
        if (all[i].p + all[i].n > all[i + 1].p) {
          ctx.violation("overlap", "tsan_blocks_overlap", "C", "blocks overlap");
          break;
        }
      };
      if (cfg == 0) {
        MemoryPoolAllocator<> pool(64);
        run_pool(pool);
      } else if (cfg == 1) {
        MemoryPoolAllocator<SimpleAllocator, AdaptiveChunkPolicy> pool(64);
        run_pool(pool);
      } else {
        alignas(16) static thread_local char ubuf[512];
        MemoryPoolAllocator<> pool(ubuf, sizeof ubuf, 64, nullptr);
        run_pool(pool);
      }
#else
      ctx.skip();
#endif
    }
  };
  std::vector<vr::Family> fams;
#ifdef SONIC_LOCKED_ALLOCATOR
  fams = {fc, fp};
#else
  fams = {fa, fb, fbm, fq};
  if (args.get("only") == fao.name) fams = {fao};
  if (args.get("only") == fq.name) fams = {fq};
#endif
  if (args.replay) {
    std::vector<vr::Family> all = {fa, fb, fbm, fc, fao, fq, fp};
    return R.replay_one(all, check);
  }
  for (auto& f : fams) R.run(f, check);
  return R.finish();
}
