#!/usr/bin/env python3
"""Driver for every check in /verif (see DESIGN.md section 8).

  run.py <PROP> --tier quick|thorough     rebuild from /repo's working tree, explore,
                                          confirm violations by replay, write evidence
  run.py replay <file>                    re-run one recorded case
  run.py setup                            tool presence check, directories
  run.py build <engine> <config>          (debug) build one binary
"""
import hashlib
import json
import os
import shutil
import subprocess
import sys
import time

VERIF = os.path.dirname(os.path.abspath(__file__))
REPO = os.environ.get("VERIF_REPO", "/repo")
BUILD = os.path.join(VERIF, "build")
EVID = os.path.join(VERIF, "evidence")
REPLAYS = os.path.join(VERIF, "replays")
NPROC = os.cpu_count() or 8

HSW = ["-mavx2", "-mpclmul", "-mbmi", "-mlzcnt"]
WSM = ["-msse4.2", "-mpclmul"]
COMMON = ["-std=c++17", "-I" + os.path.join(REPO, "include"), "-I" + os.path.join(VERIF, "engines"), "-Wno-deprecated-declarations"]
ASAN = ["-O1", "-g", "-fsanitize=address", "-fno-omit-frame-pointer"]
PROD = ["-O2", "-DNDEBUG"]
CONFIGS = {
    "asan-hsw": ("g++", ASAN + HSW),
    "prod-hsw": ("g++", PROD + HSW),
    "asan-wsm": ("g++", ASAN + WSM),
    # a second compiler: argument evaluation order and other unspecified behaviour differ between g++ and clang++
    "prod-hsw-clang": ("clang++", PROD + HSW),
    "prod-wsm-clang": ("clang++", PROD + WSM),
    "prod-wsm": ("g++", PROD + WSM),
    # the library is header-only: a user who compiles with -ffast-math compiles the library with it (finite-math-only lets
    # the compiler fold isinf / isnan; the start-up code of such a program also sets the FTZ / DAZ bits)
    "prod-hsw-fastmath": ("g++", PROD + HSW + ["-ffast-math"]),
    # two more points of the configuration space the library distinguishes: C++14 (StringView is the bundled
    # string-view-lite instead of std::string_view) and AVX2 without BMI (the non-BMI bit tricks of the AVX2 kernels)
    "prod-hsw-cxx14": ("g++", PROD + HSW + ["-std=c++14"]),
    "prod-hsw-nobmi": ("g++", PROD + ["-mavx2", "-mpclmul"]),
    # the adaptive chunk policy clamps its growth at SONIC_ALLOCATOR_MAX_CHUNK_CAPACITY (64 KiB by default, far above the
    # explorer's 200-byte requests); the macro is user-overridable, so a build with a cap of 128 brings the clamp into range
    "asan-hsw-cap128": ("g++", ASAN + HSW + ["-DSONIC_ALLOCATOR_MAX_CHUNK_CAPACITY=128"]),
    "asan-dyn": ("g++", ASAN + WSM + ["-DSONIC_DYNAMIC_DISPATCH"]),
    "prod-dyn": ("g++", PROD + WSM + ["-DSONIC_DYNAMIC_DISPATCH"]),
    "tsan": ("clang++", ["-O1", "-g", "-fsanitize=thread"] + HSW),
    # plain char unsigned (the ABI default on ARM / PowerPC, -funsigned-char on x86): code that tests "c >= 0" or indexes a table with a plain char
    "asan-hsw-uchar": ("g++", ASAN + HSW + ["-funsigned-char"]),
    # g++'s ThreadSanitizer also instruments 32-byte vector loads (clang's ignores them)
    "tsan-gcc": ("g++", ["-O1", "-g", "-fsanitize=thread", "-pthread"] + HSW),
    "tsan-locked": ("clang++", ["-O1", "-g", "-fsanitize=thread", "-DSONIC_LOCKED_ALLOCATOR"] + HSW),
    "sched": ("g++", ASAN + HSW + ["-DBYTEDANCE_SONIC_CPP_VERIF", "-DSONIC_LOCKED_ALLOCATOR", "-pthread"]),
    "sched-prod": ("g++", ["-O1", "-g"] + HSW + ["-DBYTEDANCE_SONIC_CPP_VERIF", "-DSONIC_LOCKED_ALLOCATOR", "-pthread"]),
}
ASAN_BASE = "detect_leaks=0:max_malloc_fill_size=100000000:allocator_may_return_null=1:detect_stack_use_after_return=0"


def asan_env(fill):
    return {"ASAN_OPTIONS": ASAN_BASE + ":malloc_fill_byte=%d" % fill}


def J(engine, config, args=None, env=None, label=None, fills=None):
    """A job; fills -> one job per ASan malloc fill byte."""
    out = []
    if fills:
        for f in fills:
            e = dict(env or {})
            e.update(asan_env(f))
            out.append(dict(engine=engine, config=config, args=list(args or []), env=e, label="%s/fill%02x" % (label or config, f)))
    else:
        e = dict(env or {})
        if config.startswith("asan") or config == "sched":
            e.update(asan_env(0xbe))
        out.append(dict(engine=engine, config=config, args=list(args or []), env=e, label=label or config))
    return out


TSAN_ENV = {"TSAN_OPTIONS": "halt_on_error=1:exitcode=66:report_signal_unsafe=0"}
FILLS_Q = [0x06, 0x0c]
FILLS_T = [0xbe, 0x06, 0x07, 0x0c]

# property -> description of its check
CHECKS = {
    "C01": dict(level="exploration", engine="jsonenum",
                jobs=lambda t: J("jsonenum", "prod-hsw", ["--prop", "C01"]) + J("jsonenum", "asan-hsw", ["--prop", "C01"]) +
                J("jsonenum", "prod-hsw-fastmath", ["--prop", "C01", "--skip", "L0_,LA_,LA2_,LB2_"], label="prod-hsw-fastmath/structured-families") +
                J("numenum", "prod-hsw", ["--only", "N9_exponent_wraparound"], label="prod-hsw/exponent-wraparound") +
                (J("jsonenum", "prod-wsm", ["--prop", "C01"]) if t == "thorough" else []),
                rule="Document::Parse(data,len) from an exact-size buffer vs the reference RFC 8259 recogniser: accept <=> reference accepts; success => code 0, offset==len; failure => null document, parse code, offset<=len, fault class where unambiguous. Non-trivial: the reference consumed >= 2 tokens or accepted."),
    "C02": dict(level="exploration", engine="jsonenum",
                jobs=lambda t: J("deepnest", "prod-hsw", [], label="prod-hsw/very-deep") + J("jsonenum", "asan-hsw", ["--prop", "C02"], fills=FILLS_Q if t == "quick" else FILLS_T) +
                J("sched", "sched-prod", ["--only", "SP_documents_over_shared_pool"], label="sched-prod/documents-over-one-shared-pool"),
                budget=dict(quick=300, thorough=3000),
                rule="Parse under ASan for pool / freeing / ledger-tracking allocators, malloc fill bytes making unconstructed nodes decode as object/array/owned string; survive, heap balance restored after the document dies, ledger exact, reuse and reparse behave like fresh. Non-trivial: text of >= 2 bytes. Second job: texts nested 2*10^4 and 10^6 deep on an 8 MiB stack (production build), results known by construction, stack exhaustion attributed to the call in progress."),
    "C03": dict(level="exploration", engine="jsonenum",
                jobs=lambda t: J("jsonenum", "prod-hsw", ["--prop", "C03"]) + J("jsonenum", "asan-wsm" if t == "thorough" else "prod-wsm", ["--prop", "C03"]),
                rule="every accepted text: document compared with the reference tree through the public accessors only (type tests, Size, iteration order incl. duplicates, string bytes, number kind and bits, FindMember first match, operator[], AtPointer). Non-trivial: accepted text whose root is a container or longer than 4 bytes."),
    "C10": dict(level="exploration", engine="ondemand",
                jobs=lambda t: J("ondemand", "prod-hsw", ["--prop", "C10"]) + J("ondemand", "asan-hsw", ["--prop", "C10"]) + J("ondemand", "prod-wsm", ["--prop", "C10"]) + J("ondemand", "prod-dyn", ["--prop", "C10"]) +
                J("tsanrun", "tsan", ["--only", "TAo_ondemand_in_threads"], env={"TSAN_OPTIONS": "halt_on_error=1:exitcode=66:report_signal_unsafe=0"}, label="tsan/on-demand-in-threads"),
                budget=dict(quick=300, thorough=5000),
                rule="differential: for every valid text x pointer path, GetOnDemand succeeds <=> AtPointer on the fully parsed document resolves (and the reference lookup agrees); on success the slice lies inside the input and parses to the identical value, ParseOnDemand yields it; on failure error != 0, slice empty, ParseOnDemand errors and stays null; every path is also given as a JsonPointerView (identical outcome); a last job runs on-demand lookups through escaped keys from three threads under ThreadSanitizer. Evaluations count (text,path) pairs."),
    "C11": dict(level="exploration", engine="ondemand",
                jobs=lambda t: J("ondemand", "asan-hsw", ["--prop", "C11"]) + J("ondemand", "prod-hsw", ["--prop", "C11"]) + J("ondemand", "prod-wsm", ["--prop", "C11"]) +
                (J("ondemand", "asan-wsm", ["--prop", "C11"]) + J("ondemand", "prod-dyn", ["--prop", "C11"]) if t == "thorough" else []),
                rule="every text (valid or not, incl. empty and every truncation) x path: GetOnDemand/ParseOnDemand on an exact-size heap block (ASan) and on a buffer ending on the last mapped byte / starting right after a PROT_NONE page (production build): no fault; success => slice is a sub-range of the input and offset <= len; failure => slice empty; and with the input placed as a view in front of readable quotes / closers / backslashes / openers the outcome must be the one of the exact-size placement. Evaluations count (text,path,placement) calls; non-trivial: text of >= 2 bytes."),
    "C19": dict(level="exploration", engine="schemaenum", budget=dict(quick=420, thorough=3000),
                jobs=lambda t: J("schemaenum", "prod-hsw", []) + J("schemaenum", "asan-hsw", [], fills=[0x06, 0x0c] if t == "quick" else FILLS_T),
                rule="all pairs (existing document E, valid text T) of duplicate-free values up to a token budget, plus re-spaced texts and repeated application (E,T1,T2): result of ParseSchema read back through the accessors must equal merge(E,T) (E's key set and order at every level where both sides are non-empty objects, T's value elsewhere); no error; ASan-clean for pool and freeing allocators under several heap-fill bytes."),
    "C20": dict(level="exploration", engine="lazyenum",
                jobs=lambda t: J("lazyenum", "prod-hsw", []) + J("lazyenum", "asan-hsw", []) + (J("lazyenum", "prod-wsm", []) if t == "thorough" else []),
                rule="all ordered pairs (target, source) of valid duplicate-free texts up to a token budget, keys spelled with and without escapes, plus re-spaced variants: Parse(UpdateLazy(t,s)) succeeds and is value-equal to the recursive merge model with keys matched by decoded value; inputs in exact-size heap buffers under ASan."),
    "C05": dict(level="exploration", engine="strenum",
                jobs=lambda t: J("strenum", "prod-hsw", []) + J("strenum", "prod-wsm", []) + J("strenum", "asan-hsw", []) + J("strenum", "asan-hsw-uchar", ["--only", "S3_raw_bytes"], label="asan-hsw-uchar/raw-bytes") +
                (J("strenum", "prod-hsw-clang", []) if t == "thorough" else []),
                rule="string literals built from atom sequences / raw bytes / \\u escapes at every offset relative to the 16/32-byte blocks, as root, array value, object key and on-demand key, against the scalar reference decoder: accepted <=> reference accepts, decoded bytes equal; plus \\uH\\uL pairs directly through parseStringInplace (thorough: all 2^32)."),
    "C08": dict(level="exploration", engine="kernels",
                jobs=lambda t: J("kernels", "prod-hsw", ["--prop", "C08"]) + J("kernels", "asan-hsw", ["--prop", "C08"]) + J("kernels", "prod-hsw-clang", ["--prop", "C08"]) +
                J("serenum", "asan-hsw", ["--only", "TK_construction_routes"], label="asan-hsw/serialize-construction-routes") +
                (J("kernels", "prod-wsm", ["--prop", "C08"]) + J("kernels", "prod-wsm-clang", ["--prop", "C08"]) if t == "thorough" else []),
                budget=dict(quick=300, thorough=3000),
                rule="U64toa/I64toa output == snprintf(%llu/%lld), returned length exact, nothing written before the buffer or beyond out+32: every value below 10^8 (whole 1-8 digit kernel), every low 8-digit group under boundary high parts (whole vectorised splitter), all composed boundary values h*10^16+a*10^8+b, powers of 2 and 10 +-2, extremes; Serialize+Parse keeps the integer kind."),
    "C09": dict(level="exploration", engine="kernels",
                jobs=lambda t: J("kernels", "prod-hsw", ["--prop", "C09"]) + J("kernels", "prod-wsm", ["--prop", "C09"]) + J("kernels", "asan-hsw", ["--prop", "C09"]) +
                J("kernels", "asan-dyn", ["--prop", "C09", "--kernel", "sse"], label="asan-dyn/sse-kernel") + J("kernels", "asan-dyn", ["--prop", "C09", "--kernel", "avx2"], label="asan-dyn/avx2-kernel") +
                J("kernels", "prod-dyn", ["--prop", "C09", "--kernel", "sse"], label="prod-dyn/sse-kernel") + J("kernels", "prod-dyn", ["--prop", "C09", "--kernel", "avx2"], label="prod-dyn/avx2-kernel") +
                J("serenum", "prod-hsw", ["--only", "T9_fenced_blocks"], label="prod-hsw/serialize-fenced-strings") + J("serenum", "prod-wsm", ["--only", "T9_fenced_blocks"], label="prod-wsm/serialize-fenced-strings") +
                J("serenum", "prod-dyn", ["--only", "T9_fenced_blocks"], label="prod-dyn/serialize-fenced-strings") +
                J("serenum", "asan-hsw", ["--only", "T10_closes_after_strings_x_capacity"], label="asan-hsw/serialize-capacity-sweep") +
                J("serenum", "asan-dyn", ["--only", "T10_closes_after_strings_x_capacity"], label="asan-dyn/serialize-capacity-sweep") +
                J("serenum", "asan-hsw", ["--only", "TL_long_head_x_escape_run"], label="asan-hsw/serialize-long-head-x-escape-run") +
                J("kernels", "asan-hsw-uchar", ["--prop", "C09"], label="asan-hsw-uchar/unsigned-plain-char") +
                J("tsanrun", "tsan", ["--only", "TQ_quote_next_to_foreign_writes"], env={"TSAN_OPTIONS": "halt_on_error=1:exitcode=66:report_signal_unsafe=0"}, label="tsan/quote-next-to-foreign-writes") +
                J("tsanrun", "tsan-gcc", ["--only", "TQ_quote_next_to_foreign_writes"], env={"TSAN_OPTIONS": "halt_on_error=1:exitcode=66:report_signal_unsafe=0"}, label="tsan-gcc/quote-next-to-foreign-writes") +
                (J("kernels", "asan-wsm", ["--prop", "C09"]) + J("kernels", "prod-dyn", ["--prop", "C09"], label="prod-dyn/dispatched") if t == "thorough" else []),
                budget=dict(quick=640, thorough=3000),
                rule="internal::Quote on every length 0..100 with every byte value at every position and two special bytes at all position pairs; output validated byte by byte (verbatim copies, correct escapes, length <= 6n+2); production build: source ending 0..64 bytes before an unmapped page with three different in-page tails (output must not depend on them), destination exactly 6n+35 bytes before an unmapped page; ASan: exact-size heap source and destination. Long strings (one special byte at every position up to 4097 bytes). Three further jobs serialise documents whose allocator places every block (copied strings own exactly len+1 bytes) directly in front of an inaccessible page. Two ThreadSanitizer jobs (clang and gcc builds): one thread serialises a string view of n bytes (n in 0..99, four alignments) of a shared arena while another thread stores to the bytes right behind it - any read outside the view is a reported race."),
    "C14": dict(level="exploration", engine="kernels",
                jobs=lambda t: J("kernels", "prod-hsw", ["--prop", "C14"]) + J("kernels", "asan-hsw", ["--prop", "C14"]) + J("kernels", "prod-wsm", ["--prop", "C14"]) + (J("kernels", "prod-dyn", ["--prop", "C14"]) if t == "thorough" else []),
                rule="InlinedMemcmpEq == (memcmp==0) and sign(InlinedMemcmp)==sign(memcmp) for every length, every first-difference index, sign-sensitive byte pairs, a later opposite difference, both operands placed independently 0..40 bytes before an unmapped page / at every start offset mod 32; FindMember/HasMember with and without the lookup map agree with byte equality."),
    "C04": dict(level="exploration", engine="numenum",
                jobs=lambda t: J("numenum", "prod-hsw", []) + J("numenum", "asan-hsw", []) + J("schemaenum", "prod-hsw", ["--only", "SZ_scalar_over_scalar"], label="prod-hsw/numbers-through-ParseSchema") +
                (J("numenum", "prod-wsm", []) + J("numenum", "prod-hsw-clang", []) if t == "thorough" else []),
                rule="number spellings of families N1..N6 parsed as root, array element and object member: integer that fits -> exact integer kind; otherwise IsDouble with the bit pattern of glibc strtod; overflow -> kParseErrorInfinity. For the halfway families (exact midpoints between adjacent doubles, one unit below/above, re-spelled with the point at every position and up to 1100 mantissa digits) the expected double is computed exactly by big-integer arithmetic in the harness and glibc is cross-checked against it."),
    "C07": dict(level="exploration", engine="ftoaenum",
                jobs=lambda t: J("ftoaenum", "prod-hsw", []) + (J("ftoaenum", "prod-hsw-clang", ["--only", "D1_exponent_x_pattern"], label="prod-hsw-clang/D1") if t == "thorough" else []) + (J("ftoaenum", "asan-hsw", ["--only", "D2_decimal_table_rows"]) + J("ftoaenum", "asan-hsw", ["--only", "D3b_format_switch_points"], label="asan-hsw/D3b") +
                J("serenum", "asan-hsw", ["--only", "T5_number_packing"], label="asan-hsw/serializer-number-reserve") +
                J("serenum", "prod-hsw", ["--only", "T7_neighbouring_numbers"], label="prod-hsw/serializer-neighbouring-numbers") +
                J("serenum", "asan-hsw", ["--only", "T4_nonfinite"], label="asan-hsw/numbers-after-a-failed-serialize")),
                budget=dict(quick=200, thorough=4000),
                rule="F64toa output per double: JSON number with fraction or exponent, <= 32 bytes, sign kept; strtod(out)==v and this library parses it back to the same bits; minimal digit count (neither (n-1)-digit grid neighbour reads back); closest among the shortest (exact big-integer comparison, ties accept either). Families: every binary exponent x boundary significand patterns, every decimal table row (d*10^k +-3ulp), all small integers, format switch points, single-precision values (thorough: all 2^32)."),
    "C16": dict(level="model_checking", engine="allocexplore",
                jobs=lambda t: J("allocexplore", "asan-hsw", []) + J("allocexplore", "prod-hsw", []) +
                J("allocexplore", "asan-hsw-cap128", ["--only", "A_adaptive_base,A_adaptive_chunk100,A_adaptive_userbuf64"], label="asan-hsw/max-chunk-capacity-128"),
                budget=dict(quick=120, thorough=2400),
                rule="explicit-state BFS over operation histories of the real pool allocator (8 configurations: simple/adaptive policy, tracking base, own base, user buffers of several sizes/alignments); every transition executed on the implementation and checked: 8-byte alignment, containment in one chunk, pairwise disjointness, contents intact, Realloc prefix and in-place growth, zero size -> null, Size()/Capacity() accounting, copies share one pool, chunks returned exactly once and only when the last copy dies, user buffer never freed or overrun. Further configurations: requests around 2^31 / 2^32 / 2^33 bytes, and a base allocator that refuses a chunk at any point of the history (null result accepted only then; the pool must stay consistent)."),
    "C12": dict(level="model_checking", engine="domexplore",
                jobs=lambda t: J("domexplore", "prod-hsw", []) + J("domexplore", "asan-hsw", []) + J("domsweep", "asan-hsw", [], label="asan-hsw/size-sweep") + J("domsweep", "prod-hsw", [], label="prod-hsw/size-sweep"),
                budget=dict(quick=150, thorough=3000),
                rule="explicit-state BFS over mutation-API histories of a real document (pool allocator and ledger-tracking freeing allocator) against a plain-container model (vector of values / vector of pairs, RemoveMember moving the last member into the hole); after every transition Dump() equals the model serialisation, every accessor agrees, toggling the lookup map on objects with distinct keys changes nothing, the serialised text round-trips; every transition is executed on the implementation by replaying the history on fresh objects. Two further jobs (domsweep) sweep every container size x build history x map state x single operation."),
    "C13": dict(level="model_checking", engine="docexplore",
                jobs=lambda t: J("docexplore", "asan-hsw", [], fills=[0x06] if t == "quick" else [0xbe, 0x06, 0x0c]) + J("domexplore", "asan-hsw", ["--only", "M_track_nestedmap"], label="asan-hsw/domexplore-track") +
                J("domsweep", "asan-hsw", [], label="asan-hsw/size-sweep"),
                budget=dict(quick=150, thorough=3000),
                rule="explicit-state BFS over histories of two documents using a ledger-tracking allocator that really frees (Parse valid/invalid/deep, ParseOnDemand, ParseSchema, document move/swap, cross-document CopyFrom, node mutations, destroy/recreate at any point) under ASan: every block obtained from the allocator is returned exactly once (no double or foreign free, no use after free), nothing is left allocated when the last owner dies (ledger empty, heap at baseline), and each document's Dump() equals its own model after every step so that a deep copy is independent of its source. The mutation-API explorer with the same tracking allocator (domexplore, one start state) is run as a second job."),
    "C18": dict(level="exploration", engine="eqenum",
                jobs=lambda t: J("eqenum", "prod-hsw", []) + J("eqenum", "asan-hsw", []) + J("domsweep", "asan-hsw", ["--only", "W_duplicate_histories"], label="asan-hsw/duplicate-key-histories"),
                budget=dict(quick=200, thorough=3000),
                rule="all ordered pairs of a value set x all 25 pairs of realisations through different histories and allocators: operator== agrees with reference JSON value equality (objects order-insensitive, number kinds and bit patterns distinguished), != is its negation, symmetric, reflexive; transitivity on all triples of a subset. Evaluations count (pair, realisation pair) comparisons."),
    "C06": dict(level="exploration", engine="serenum",
                jobs=lambda t: J("serenum", "prod-hsw", []) + J("serenum", "asan-hsw", []) + J("domexplore", "prod-hsw", ["--only", "M_pool_nestedmap"], label="prod-hsw/domexplore-states") +
                J("serenum", "asan-dyn", ["--only", "T6_fill_x_expanding_string"], label="asan-dyn/fill-x-expanding-string") + J("serenum", "asan-dyn", ["--only", "T10_closes_after_strings_x_capacity"], label="asan-dyn/capacity-sweep") +
                J("serenum", "asan-hsw-uchar", ["--only", "T2_strings_all_bytes"], label="asan-hsw-uchar/strings-all-bytes") +
                (J("serenum", "prod-wsm", []) if t == "thorough" else []),
                budget=dict(quick=240, thorough=3000),
                rule="documents parsed from every accepted text of the families, API-built strings of every byte value/length/position, boundary integers and doubles, and non-finite doubles at every position, each serialised into 25 write-buffer start states (fresh, reused, reused after larger/smaller output, WriteBuffer(c) for 12 small capacities, move-assigned / moved-from / move-constructed / swapped buffers of different capacities; exact-size reallocs under ASan): Serialize succeeds, all states give identical bytes, the output is accepted by the independent reference recogniser and denotes the same value with the same number kinds, Parse(output) is == the original, re-serialising gives identical bytes, ToString is NUL-terminated; non-finite -> kSerErrorInfinity and Dump()==''. Every state reached by the mutation-API BFS is round-tripped too (second job)."),
    "C17": dict(level="model_checking", engine="sched",
                jobs=lambda t: J("sched", "sched-prod", []) + J("sched", "sched", ["--only", "SC_alloc_2threads_x2ops", "--bound", "1"], label="sched-asan/2threads-bound1") +
                J("tsanrun", "tsan", [], env=TSAN_ENV) + J("tsanrun", "tsan-locked", [], env=TSAN_ENV) +
                J("rodoc", "prod-hsw", [], label="prod-hsw/write-protected-document") + J("rodoc", "prod-wsm", [], label="prod-wsm/write-protected-document"),
                budget=dict(quick=300, thorough=3000),
                rule="preemption-bounded exhaustive schedule exploration of the real code under a serialising scheduler (hooked lock/shared-access points + operation boundaries); see per-family rules. States/transitions report the number of complete schedules executed."),
    "C15": dict(level="exploration", engine="cfgdigest", mode="digest_compare",
                jobs=lambda t: J("cfgdigest", "prod-hsw", []) + J("cfgdigest", "prod-wsm", []) + J("cfgdigest", "prod-dyn", []) + J("cfgdigest", "asan-hsw", []) + J("cfgdigest", "asan-wsm", []) + J("cfgdigest", "asan-dyn", []) +
                J("cfgdigest", "prod-hsw-cxx14", []) + J("cfgdigest", "prod-hsw-nobmi", []) +
                J("dynkernels", "asan-dyn", [], label="asan-dyn/sse-vs-avx2-kernels") + J("dynkernels", "prod-dyn", [], label="prod-dyn/sse-vs-avx2-kernels"),
                budget=dict(quick=300, thorough=3000),
                rule="differential across build configurations {static haswell, static westmere, runtime dispatch} x {production, ASan} plus haswell compiled as C++14 (bundled string_view) and haswell without BMI: every case of the families gets a digest (accept/reject; parsed value and Dump() bytes; for failures outside string literals the error code; on-demand slice offset/length or error class for 8 paths; Serialize bytes of strings with every special byte at every position) and all six configurations must produce identical digests for every case. Error code/offset inside malformed string literals and all failure offsets are excluded, as the statement allows. Two further jobs call the sse:: and avx2:: kernels of the runtime-dispatch build directly (string decoding, string / container / whitespace skipping, quoting) and demand identical results, because on this machine the dispatched entry points only ever select AVX2."),
}


def sh(cmd, **kw):
    return subprocess.run(cmd, stdout=subprocess.PIPE, stderr=subprocess.STDOUT, text=True, **kw)


def tree_hash():
    h = hashlib.sha1()
    for root in (os.path.join(REPO, "include"), os.path.join(VERIF, "engines")):
        for dp, dn, fn in sorted(os.walk(root)):
            dn.sort()
            for f in sorted(fn):
                p = os.path.join(dp, f)
                h.update(p.encode())
                with open(p, "rb") as fh:
                    h.update(fh.read())
    h.update(json.dumps(CONFIGS, sort_keys=True).encode())
    return h.hexdigest()[:16]


_HASH = None


def build_dir():
    global _HASH
    if _HASH is None:
        _HASH = tree_hash()
    d = os.path.join(BUILD, _HASH)
    os.makedirs(d, exist_ok=True)
    # drop stale build directories (disk is limited); keep the two most recent others
    try:
        others = sorted((x for x in os.listdir(BUILD) if x != _HASH and x != "scratch" and os.path.isdir(os.path.join(BUILD, x))),
                        key=lambda x: os.path.getmtime(os.path.join(BUILD, x)))
        for x in others[:-2]:
            # another check may be running out of a directory that is not the newest: only remove what has been idle for a while
            if time.time() - os.path.getmtime(os.path.join(BUILD, x)) > 5400:
                shutil.rmtree(os.path.join(BUILD, x), ignore_errors=True)
    except OSError:
        pass
    return d


def build_cmd(engine, config):
    cc, flags = CONFIGS[config]
    out = os.path.join(build_dir(), "%s-%s" % (engine, config))
    src = os.path.join(VERIF, "engines", engine + ".cpp")
    extra = []
    if os.path.exists(os.path.join(VERIF, "engines", engine + ".flags")):
        extra = open(os.path.join(VERIF, "engines", engine + ".flags")).read().split()
    return out, [cc] + COMMON + flags + extra + [src, "-o", out + ".tmp%d" % os.getpid()]


def build_many(pairs):
    """Build (engine, config) pairs in parallel; returns {pair: path}."""
    procs = {}
    res = {}
    for pr in sorted(set(pairs)):
        out, cmd = build_cmd(*pr)
        res[pr] = out
        if os.path.exists(out):
            continue
        procs[pr] = (subprocess.Popen(cmd, stdout=subprocess.PIPE, stderr=subprocess.STDOUT, text=True), out, cmd)
    for pr, (p, out, cmd) in procs.items():
        o, _ = p.communicate()
        tmp = cmd[cmd.index("-o") + 1]
        if p.returncode != 0:
            sys.stdout.write(o[-6000:])
            print("BUILD-FAILED engine=%s config=%s" % pr)
            sys.exit(2)
        os.replace(tmp, out)
    return res


def load_known():
    p = os.path.join(VERIF, "known_findings.json")
    if not os.path.exists(p):
        return []
    return json.load(open(p))["findings"]


def match_known(prop, cls, known):
    for k in known:
        if k.get("property") == prop and k.get("status") == "open" and cls in k.get("classes", []):
            return k
    return None


def run_job(job, binpath, tier, deadline, outpath):
    env = dict(os.environ)
    env.update(job["env"])
    cmd = [binpath, "--tier", tier, "--out", outpath, "--workers", str(NPROC)] + job["args"]
    if deadline:
        cmd += ["--deadline", str(deadline)]
    t0 = time.time()
    p = subprocess.run(cmd, env=env, stdout=subprocess.PIPE, stderr=subprocess.PIPE, text=True)
    dt = time.time() - t0
    if p.returncode != 0 or not os.path.exists(outpath):
        sys.stdout.write(p.stdout[-3000:])
        sys.stdout.write(p.stderr[-3000:])
        print("ENGINE-FAILED %s rc=%d" % (" ".join(cmd), p.returncode))
        sys.exit(2)
    sys.stderr.write(p.stderr)
    return json.load(open(outpath)), dt


def replay_case(binpath, job, tier, family, idx, replay_from=None):
    env = dict(os.environ)
    env.update(job["env"])
    cmd = [binpath, "--tier", tier] + job["args"] + ["--replay", family, str(idx)]
    if replay_from is not None:
        cmd += ["--replay-from", str(replay_from)]
    try:
        p = subprocess.run(cmd, env=env, stdout=subprocess.PIPE, stderr=subprocess.STDOUT, text=True, timeout=float(os.environ.get("VERIF_REPLAY_TIMEOUT_S", "900")))
    except subprocess.TimeoutExpired as e:
        # a case that never returns is a reproduced failure of that case (hang), not a harness error
        return 124, "REPLAY-TIMEOUT: the case did not finish within %s s (hang)\n%s" % (e.timeout, (e.stdout or b"").decode("utf-8", "replace")[-2000:] if isinstance(e.stdout, bytes) else (e.stdout or "")[-2000:])
    return p.returncode, p.stdout


def write_replay(prop, job, tier, v, output):
    os.makedirs(REPLAYS, exist_ok=True)
    key = hashlib.sha1(("%s|%s|%s|%s|%s" % (prop, job["label"], v["family"], v["idx"], v["class"])).encode()).hexdigest()[:12]
    path = os.path.join(REPLAYS, "%s-%s.json" % (prop, key))
    rec = dict(property=prop, engine=job["engine"], config=job["config"], label=job["label"], tier=tier, args=job["args"], env=job["env"],
               family=v["family"], index=v["idx"], kind=v["kind"], cls=v["class"], input_hex=v.get("input_hex", ""), detail=v["detail"],
               replay_output_tail=output[-3000:], ref_job=v.get("ref_job"), replay_from=v.get("replay_from"))
    json.dump(rec, open(path, "w"), indent=1)
    return path


def compare_digests(prop, tier, jobs, bins, dirs, class_counts):
    """All configurations must have byte-identical digest files; report the first differing case per family and pair."""
    out = []
    ref_dir, ref_job = dirs[0], jobs[0]
    for fn in sorted(os.listdir(ref_dir)):
        fam = fn[:-4]
        a = open(os.path.join(ref_dir, fn), "rb").read()
        for d, job in zip(dirs[1:], jobs[1:]):
            pth = os.path.join(d, fn)
            b = open(pth, "rb").read() if os.path.exists(pth) else b""
            if a == b:
                continue
            n = min(len(a), len(b)) // 8
            # first differing index (chunked search)
            idx = None
            step = 1 << 16
            for off in range(0, n * 8, step):
                if a[off:off + step] != b[off:off + step]:
                    for k in range(off, min(off + step, n * 8), 8):
                        if a[k:k + 8] != b[k:k + 8]:
                            idx = k // 8
                            break
                    break
            if idx is None:
                idx = n
            ndiff = sum(1 for k in range(0, n * 8, 8) if a[k:k + 8] != b[k:k + 8]) if n < 40000000 else -1
            da = replay_case(bins[(ref_job["engine"], ref_job["config"])], ref_job, tier, fam, idx)[1]
            db = replay_case(bins[(job["engine"], job["config"])], job, tier, fam, idx)[1]
            cls = "config_disagree"
            class_counts[(job["label"], cls)] = class_counts.get((job["label"], cls), 0) + max(ndiff, 1)
            out.append((job, dict(family=fam, idx=idx, kind="config_disagree", **{"class": cls}, input_hex="",
                                  detail="configuration %s and %s disagree on %d case(s) of family %s; first at index %d: [%s] %s  vs  [%s] %s" %
                                  (ref_job["label"], job["label"], ndiff, fam, idx, ref_job["label"], da.strip()[-700:], job["label"], db.strip()[-700:]),
                                  no_replay=True, ref_job=dict(engine=ref_job["engine"], config=ref_job["config"], args=ref_job["args"], env=ref_job["env"], label=ref_job["label"]))))
    return out


def do_check(prop, tier):
    spec = CHECKS[prop]
    t0 = time.time()
    seed = int(os.environ.get("VERIF_SEED", "0") or 0)
    jobs = spec["jobs"](tier)
    bins = build_many([(j["engine"], j["config"]) for j in jobs])
    t_build = time.time() - t0
    known = load_known()
    budget = float(os.environ.get("VERIF_BUDGET_S", "0") or 0) or (spec.get("budget", {}).get(tier) or (240 if tier == "quick" else 2400))
    per_job = max(10.0, budget / max(1, len(jobs)))
    tmpdir = os.path.join(build_dir(), "out")
    os.makedirs(tmpdir, exist_ok=True)
    fam_rows = []
    violations = []   # (job, v)
    class_counts = {}
    digest_dirs = []
    digest_jobs = []
    for ji, job in enumerate(jobs):
        outp = os.path.join(tmpdir, "%s-%s-%d-%d.json" % (prop, tier, ji, os.getpid()))
        if spec.get("mode") == "digest_compare" and job["engine"] == "cfgdigest":
            dd = os.path.join(tmpdir, "dig-%s-%d-%d" % (prop, ji, os.getpid()))
            os.makedirs(dd, exist_ok=True)
            digest_dirs.append(dd)
            digest_jobs.append(ji)
            job = dict(job)
            job["args"] = list(job["args"]) + ["--digest-dir", dd]
            jobs[ji] = job
        # a job may use what earlier jobs left over, but never less than its equal share
        t_used = time.time() - t0 - t_build
        this_job = max(per_job, budget - t_used - 45.0 * (len(jobs) - ji - 1))
        res, dt = run_job(job, bins[(job["engine"], job["config"])], tier, this_job, outp)
        os.unlink(outp)
        for f in res["families"]:
            f = dict(f)
            f["job"] = job["label"]
            fam_rows.append(f)
        for cls, n in res.get("violation_classes", {}).items():
            class_counts[(job["label"], cls)] = n
        for v in res["violations"]:
            violations.append((job, v))
        job["extra"] = {k: v for k, v in res.items() if k not in ("families", "violations", "violation_classes", "violations_total", "tier", "engine_wall_s")}

    # confirm violations by replay, classify
    lines = []
    rc = 0
    if spec.get("mode") == "digest_compare":
        violations += compare_digests(prop, tier, [jobs[i] for i in digest_jobs], bins, digest_dirs, class_counts)
        for dd in digest_dirs:
            shutil.rmtree(dd, ignore_errors=True)
    n_known = 0
    n_viol = 0
    seen_known = set()
    reported = set()
    unconfirmed = []
    for job, v in violations:
        k = match_known(prop, v["class"], known)
        if not k and (v["class"], job["label"]) in reported:
            n_viol += 1  # same class in the same job already reported with a replay file
            continue
        if v.get("no_replay"):
            code, out = 1, v["detail"]
        else:
            code, out = replay_case(bins[(job["engine"], job["config"])], job, tier, v["family"], v["idx"]) if v["idx"] != 18446744073709551615 else (1, "(crash outside a case)")
        if code == 0 and not v.get("no_replay") and v.get("chunk_begin") is not None and v["chunk_begin"] < v["idx"] and v["idx"] - v["chunk_begin"] <= 1 << 20:
            # not reproducible alone: a defect that carries state from one call to the next needs the
            # cases that ran before it in the same worker chunk; replay that sequence in one process
            code, out = replay_case(bins[(job["engine"], job["config"])], job, tier, v["family"], v["idx"], replay_from=v["chunk_begin"])
            if code != 0:
                v = dict(v)
                v["replay_from"] = v["chunk_begin"]
                v["detail"] = "[needs the preceding cases %d..%d of its chunk in the same process] " % (v["chunk_begin"], v["idx"] - 1) + v["detail"]
        if code == 0:
            # replay must reproduce, otherwise this is a harness problem, not a verdict
            unconfirmed.append("property=%s violation did not reproduce on replay: %s %s idx=%s class=%s" % (prop, job["label"], v["family"], v["idx"], v["class"]))
            continue
        if k:
            n_known += 1
            if k["id"] not in seen_known:
                seen_known.add(k["id"])
                lines.append("KNOWN-FINDING: property=%s %s: %s (e.g. %s idx %s; class %s)" % (prop, k["id"], k["summary"], v["family"], v["idx"], v["class"]))
            continue
        n_viol += 1
        tag = (v["class"], job["label"])
        if tag in reported:
            continue
        reported.add(tag)
        path = write_replay(prop, job, tier, v, out)
        lines.append("VIOLATION property=%s replay=%s" % (prop, path))
        lines.append("  class=%s job=%s family=%s idx=%s input=%r" % (v["class"], job["label"], v["family"], v["idx"], bytes.fromhex(v.get("input_hex", ""))[:120]))
        lines.append("  " + v["detail"][:600])
        rc = max(rc, 1)

    # a recorded violation that does not reproduce is not a verdict.  When other violations of the same run
    # DO reproduce (typical for a defect that reads bytes it does not own: some witnesses depend on what happens
    # to lie there) the confirmed ones decide and the rest are listed; when none does, the run is an internal error.
    for u in unconfirmed:
        print(("UNCONFIRMED " if rc == 1 else "INTERNAL-ERROR ") + u)
    if unconfirmed and rc == 0:
        rc = 2

    # evidence
    total_eval = sum(f["evaluations"] for f in fam_rows)
    # distinct: inside one (job, group) only the largest family counts; across jobs the same
    # inputs are re-run in another configuration, so distinct inputs = max over jobs per group
    groups = {}
    for f in fam_rows:
        g = f.get("group") or f["name"]
        groups.setdefault(g, 0)
        groups[g] = max(groups[g], f["nontrivial"])
    distinct = sum(groups.values())
    samples = []
    for f in fam_rows:
        for s in f.get("samples", [])[:3]:
            samples.append({"job": f["job"], "family": f["name"], "idx": s["idx"], "case": s["case"]})
    exhaustive = all(f["exhaustive"] for f in fam_rows)
    cov = dict(evaluations=total_eval, distinct_nontrivial=distinct,
               rule=spec["rule"] + " Cases are enumerated in mixed-radix order per family (distinct by construction inside a family); families of the same group and the same family re-run under another build/fill byte are counted once (maximum), groups are summed.",
               samples=samples[:60], exhaustive=exhaustive,
               families=[{k: f[k] for k in ("job", "name", "count", "evaluations", "nontrivial", "skipped", "exhaustive", "completed_upto", "crashes", "wall_s", "rule")} for f in fam_rows],
               jobs=[dict(label=j["label"], engine=j["engine"], config=j["config"], args=j["args"], env=j["env"], extra=j.get("extra", {})) for j in jobs],
               violation_classes={"%s|%s" % k: n for k, n in class_counts.items()},
               known_findings_matched=sorted(seen_known), build_s=round(t_build, 1))
    if spec["level"] == "model_checking":
        st = max(j.get("extra", {}).get("states", 0) for j in jobs)
        tr = sum(j.get("extra", {}).get("transitions", 0) for j in jobs)
        cov.update(states=st, transitions=tr, traces_validated_against_impl=tr)
    ev = dict(property_id=prop, tier=tier, seed=seed, level=spec["level"], coverage=cov,
              assumptions=spec.get("assumptions", ["g++ 12 / clang 14 and sanitizer runtimes", "glibc strtod/snprintf/memcmp are correct", "the harness reference models (engines/common) are correct", "the CPU implements AVX2/SSE4.2 as documented"]),
              wall_s=round(time.time() - t0, 2), violations=n_viol)
    os.makedirs(EVID, exist_ok=True)
    json.dump(ev, open(os.path.join(EVID, prop + ".json"), "w"), indent=1)
    for ln in lines:
        print(ln)
    print("SUMMARY property=%s tier=%s evaluations=%d distinct_nontrivial=%d exhaustive=%s violations=%d known=%d wall=%.1fs" %
          (prop, tier, total_eval, distinct, exhaustive, n_viol, n_known, time.time() - t0))
    return rc


def do_replay(path):
    rec = json.load(open(path))
    job = dict(engine=rec["engine"], config=rec["config"], args=rec["args"], env=rec["env"], label=rec["label"])
    if rec.get("ref_job"):
        # differential replay: the same case in both configurations; digests must be identical
        rj = rec["ref_job"]
        strip = lambda a: [x for i, x in enumerate(a) if x != "--digest-dir" and (i == 0 or a[i - 1] != "--digest-dir")]
        job["args"] = strip(job["args"])
        rj["args"] = strip(rj["args"])
        bins = build_many([(job["engine"], job["config"]), (rj["engine"], rj["config"])])
        o1 = replay_case(bins[(job["engine"], job["config"])], job, rec["tier"], rec["family"], rec["index"])[1]
        o2 = replay_case(bins[(rj["engine"], rj["config"])], rj, rec["tier"], rec["family"], rec["index"])[1]
        d1 = [l for l in o1.splitlines() if l.startswith("DIGEST")]
        d2 = [l for l in o2.splitlines() if l.startswith("DIGEST")]
        print("[%s] %s" % (job["label"], d1))
        print("[%s] %s" % (rj["label"], d2))
        differ = d1 != d2
        print("REPLAY exit=%d (non-zero: the two configurations still disagree on this case)" % (1 if differ else 0))
        return 1 if differ else 0
    bins = build_many([(job["engine"], job["config"])])
    code, out = replay_case(bins[(job["engine"], job["config"])], job, rec["tier"], rec["family"], rec["index"], replay_from=rec.get("replay_from"))
    sys.stdout.write(out[-6000:])
    print("REPLAY exit=%d (non-zero: the recorded case still violates property %s)" % (code, rec["property"]))
    return 1 if code != 0 else 0


def do_setup():
    ok = True
    for tool in ("g++", "clang++", "python3", "cmake"):
        if not shutil.which(tool):
            print("missing tool", tool)
            ok = False
    for d in (BUILD, EVID, REPLAYS):
        os.makedirs(d, exist_ok=True)
    return 0 if ok else 1


def main():
    a = sys.argv[1:]
    if not a:
        print(__doc__)
        return 2
    if a[0] == "setup":
        return do_setup()
    if a[0] == "replay":
        return do_replay(a[1])
    if a[0] == "build":
        print(build_many([(a[1], a[2])])[(a[1], a[2])])
        return 0
    prop = a[0]
    tier = os.environ.get("VERIF_TIER", "quick")
    if "--tier" in a:
        tier = a[a.index("--tier") + 1]
    if prop not in CHECKS:
        print("unknown property", prop)
        return 2
    return do_check(prop, tier)


if __name__ == "__main__":
    sys.exit(main())
