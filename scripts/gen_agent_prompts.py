#!/usr/bin/env python3
"""Write one prompt file per property for a new round of independently seeded changes.

  gen_agent_prompts.py <round-number> <outdir>

The prompt gives a sub-agent ONLY the property text, the changes earlier participants made for
that property (taken from seeded/*/meta.json) and the path of its own scratch worktree; nothing
from /verif.  seeded/agent_prompt_example_r5_C16.txt is a complete example of the text."""
import glob
import json
import os
import sys

VERIF = os.path.dirname(os.path.dirname(os.path.abspath(__file__)))


def main():
    rnd, out = sys.argv[1], sys.argv[2]
    os.makedirs(out, exist_ok=True)
    example = open(os.path.join(VERIF, "seeded", "agent_prompt_example_r5_C16.txt")).read()
    head_end = example.index("## The property you must break")
    good = example[example.index("## What a good change looks like"):]
    kinds = example[example.index("Earlier participants have, between them"):example.index("## What a good change looks like")]
    props = {}
    for l in open(os.path.join(VERIF, "properties.jsonl")):
        p = json.loads(l)
        props[p["id"]] = p
    prev = {}
    for f in sorted(glob.glob(os.path.join(VERIF, "seeded", "*", "meta.json"))):
        m = json.load(open(f))
        prev.setdefault(m["breaks_property"], []).append((m.get("change"), m.get("needs_to_manifest")))
    # rounds whose seeds are described but not yet filed as seeded/<id>/meta.json
    for f in sorted(glob.glob(os.path.join(VERIF, "seeded", "r*_descriptions.json"))):
        r = os.path.basename(f)[1:].split("_")[0]
        for pid, d in json.load(open(f)).items():
            if not os.path.exists(os.path.join(VERIF, "seeded", "%s-r%s" % (pid, r), "meta.json")):
                prev.setdefault(pid, []).append((d["change"], d["needs"]))
    for pid, p in props.items():
        wt = "/tmp/seed-r%s-%s" % (rnd, pid)
        a = p["anchors"]
        anch = "files: " + ", ".join(a.get("files", [])) + "; mechanisms: " + "; ".join("%s (%s)" % (m["name"], m.get("where", "")) for m in a.get("mechanism", []))
        s = example[:head_end].replace("/tmp/seed-r5-C16", wt)
        s += "## The property you must break (%s: %s)\nStatement: %s\nQuantifier: %s\nWhy the unit tests cannot settle it: %s\nCode anchors (files / mechanisms the property lives in): %s\n\n" % (
            pid, p["title"], p["statement"], p["quantifier"]["text"], p["why_tests_cant"], anch)
        s += "## Changes made by earlier participants for this property (do NOT repeat these; choose a different site, a different mechanism, a different clause of the statement if possible, and above all a different KIND of trigger)\n"
        s += "\n".join("- change: %s\n  needed: %s" % (c, n) for c, n in prev.get(pid, [])) + "\n\n"
        s += kinds + good.replace("/tmp/seed-r5-C16", wt)
        open(os.path.join(out, "r%s-%s.txt" % (rnd, pid)), "w").write(s)
    print("wrote %d prompts to %s" % (len(props), out))


if __name__ == "__main__":
    main()
