#!/usr/bin/env python3
"""Generate /verif/MANIFEST.json from the table below (kept in one place so the
manifest always validates and stays in sync with run.py)."""
import json
import os
import sys

VERIF = os.path.dirname(os.path.dirname(os.path.abspath(__file__)))
sys.path.insert(0, VERIF)
import run  # noqa: E402

TB = "Trusted base: g++ 12 / clang 14 and their sanitizer runtimes, glibc (strtod, snprintf, memcmp, mmap/mprotect), the harness reference models under engines/common (each small and scalar), the CPU executing AVX2/SSE4.2 as documented."

CLAIMS = {
    "C01": dict(cat="exploration", ref="4/C01", technique="exhaustive bounded enumeration of input texts (token/byte alphabets, whitespace placement, deep prefixes, mutation closure) executed on the real parser against a reference recogniser",
                text="Every text of the finite families L0/LA/LA+1/LA+2/LB/LC/LM/LW (all byte strings over a 19-byte alphabet up to length 5-6, all token strings up to 7-8 tokens, leaf deviations, whitespace runs over every block offset, node-stack-limit prefixes, single-byte mutation closure) is parsed by the real Document::Parse from an exact-size buffer and compared with a scalar RFC 8259 reference: accept/reject, error code class, offset bounds. Exhaustive within those bounds, not a sample."),
    "C02": dict(cat="exploration", ref="4/C02", technique="exhaustive bounded enumeration of input texts and of reuse histories (pairs/triples) on the real parser under ASan with several heap-fill environments and three allocator kinds; sanitizer, heap-balance and allocation ledger as oracle",
                text="The same families under AddressSanitizer for the pool, freeing and ledger-tracking allocators, repeated for malloc fill bytes that make unconstructed nodes decode as object/array/owned string; plus all ordered pairs (thorough: triples) of a text set parsed into one reused document. Oracle: process survives, heap returns to its baseline after the document dies, ledger sees every block freed exactly once, reuse/reparse behave like a fresh document."),
    "C03": dict(cat="exploration", ref="4/C03", technique="exhaustive bounded enumeration of accepted texts executed on the real parser, document read back through the public accessor API and compared with the reference tree",
                text="Every accepted text of the families is parsed and the document is compared, through the public accessors only, with the tree produced by the reference parser (nesting, order, duplicates, string bytes, number kind and bit pattern, lookups)."),
}

NOT_YET = {}


def main():
    props = [json.loads(l) for l in open(os.path.join(VERIF, "properties.jsonl"))]
    checks = []
    na = []
    for p in props:
        pid = p["id"]
        if pid in CLAIMS and pid in run.CHECKS:
            c = CLAIMS[pid]
            checks.append(dict(
                property_id=pid,
                quick_cmd="python3 run.py %s --tier quick" % pid,
                thorough_cmd="python3 run.py %s --tier thorough" % pid,
                evidence_file="evidence/%s.json" % pid,
                replay_cmd_template="python3 run.py replay {path}",
                engine=run.CHECKS[pid]["engine"],
                level_claimed=dict(category=c["cat"], text=c["text"], design_ref="DESIGN.md section " + c["ref"]),
                level_note=TB + " " + c.get("note", "Bounds are stated per family in the evidence file; nothing outside them is decided."),
                technique=c["technique"],
            ))
        else:
            na.append(dict(property_id=pid, reason=NOT_YET.get(pid, "check not built yet in this session (planned in DESIGN.md section 4); not claimed until its quick and thorough tiers have run to completion")))
    engines = {}
    for pid, spec in run.CHECKS.items():
        engines.setdefault(spec["engine"], []).append(pid)
    m = dict(
        version=1,
        setup_cmd="python3 run.py setup",
        hooks=dict(guard="BYTEDANCE_SONIC_CPP_VERIF", enable="checks that need hooks compile their engine with -DBYTEDANCE_SONIC_CPP_VERIF (run.py config 'sched'); all other checks use no source hook",
                   baseline_off_cmd="python3 scripts/baseline.py", source_commits=HOOK_COMMITS, add_only=True),
        engines=[dict(name=e, path="engines/%s.cpp" % e, serves_properties=sorted(ps), kind_free_text=ENGINE_KIND.get(e, "bounded exhaustive explorer")) for e, ps in sorted(engines.items())],
        checks=checks,
        notes="All checks are bounded exhaustive explorations executed on the real implementation (model-checking family); see DESIGN.md. Genuine defects found are either repaired by 'fix:' commits in /repo or listed in known_findings.json.",
        not_applicable=na,
    )
    json.dump(m, open(os.path.join(VERIF, "MANIFEST.json"), "w"), indent=1)
    print("MANIFEST.json: %d checks, %d not_applicable" % (len(checks), len(na)))


HOOK_COMMITS = []
ENGINE_KIND = {
    "jsonenum": "input-space explorer: exhaustive JSON-text families through Document::Parse (fork workers, crash attribution, replay)",
}

if __name__ == "__main__":
    main()
