#!/usr/bin/env python3
"""Print the DESIGN.md table of one seeding round from seeded/<id>-r<N>/meta.json.  gen_round_table.py <round>"""
import glob
import json
import os
import sys

VERIF = os.path.dirname(os.path.dirname(os.path.abspath(__file__)))


def cell(s):
    return str(s or "").replace("|", "\\|").replace("\n", " ").strip()


rnd = sys.argv[1]
print("| seed | change | needs | first run | added / caught by |")
print("|---|---|---|---|---|")
for f in sorted(glob.glob(os.path.join(VERIF, "seeded", "C??-r%s" % rnd, "meta.json"))):
    m = json.load(open(f))
    first = m.get("first_measurement", "")
    now = all(r.get("detected") for r in (m.get("check_results") or {}).values())
    print("| %s | %s | %s | %s | %s%s |" % (m["id"], cell(m.get("change")), cell(m.get("needs_to_manifest")), "**missed**" if first == "missed" else first, cell(m.get("detection_history")), "" if now else " **(still missed)**"))
