#!/usr/bin/env python3
"""Merge seeded/r<N>_descriptions.json and the first-measurement results into seeded/<id>-r<N>/meta.json.

  merge_seed_meta.py <round> <first-measurement verif dir> "<machinery text>" "<origin text>"

The first-measurement directory is a snapshot (git worktree) of /verif as it stood when the round's
changes were delivered; its seeded/<id>-r<N>/meta.json holds what THAT machinery reported."""
import json
import os
import sys

VERIF = os.path.dirname(os.path.dirname(os.path.abspath(__file__)))


def main():
    rnd, first_dir, machinery, origin = sys.argv[1:5]
    desc = json.load(open(os.path.join(VERIF, "seeded", "r%s_descriptions.json" % rnd)))
    n = 0
    for pid, d in sorted(desc.items()):
        sid = "%s-r%s" % (pid, rnd)
        f = os.path.join(VERIF, "seeded", sid, "meta.json")
        if not os.path.exists(f):
            print("no meta for", sid)
            continue
        m = json.load(open(f))
        ff = os.path.join(first_dir, "seeded", sid, "meta.json")
        first = json.load(open(ff)).get("check_results", {}) if os.path.exists(ff) else {}
        m["first_measurement_results"] = {p: dict(detected=r.get("detected"), classes=r.get("classes", [])) for p, r in first.items()}
        caught = any(r.get("detected") for r in first.values())
        m["change"] = d["change"]
        m["needs_to_manifest"] = d["needs"]
        m["detection_history"] = d["how"]
        m["first_measurement"] = "caught" if caught else "missed"
        m["first_measurement_machinery"] = machinery
        m["origin"] = origin
        json.dump(m, open(f, "w"), indent=1, ensure_ascii=False)
        n += 1
    print("merged %d metas of round %s" % (n, rnd))


if __name__ == "__main__":
    main()
