#!/usr/bin/env python3
"""Evaluate one independently seeded property-breaking change.

  seed_eval.py <seed-id> <patch.diff> <demo.cpp> [--props C01,C03] [--tier quick]

1. confirms in a scratch worktree of /repo (under /tmp, removed afterwards) that the patch
   applies, that the 173 pinned unit tests still pass with it, and that the demonstration
   passes without the patch and fails with it (build command taken from the demo's first
   comment line starting with 'BUILD:' or a default ASan/AVX2 command);
2. applies the patch to /repo itself, runs the named checks, records which of them report a
   VIOLATION, and undoes the patch (git checkout -- .) whatever happens;
3. writes /verif/seeded/<seed-id>/{patch.diff, demo.cpp, meta.json}.
"""
import json
import os
import re
import shutil
import subprocess
import sys
import time

VERIF = os.path.dirname(os.path.dirname(os.path.abspath(__file__)))
REPO = "/repo"


def sh(cmd, **kw):
    return subprocess.run(cmd, shell=isinstance(cmd, str), stdout=subprocess.PIPE, stderr=subprocess.STDOUT, text=True, **kw)


def demo_cmds(demo_path, inc):
    txt = open(demo_path).read()
    m = re.search(r"BUILD:\s*(.+)", txt)
    if m:
        cmd = m.group(1).strip()
    else:
        cmd = "g++ -std=c++17 -O1 -g -fsanitize=address -mavx2 -mpclmul -mbmi -mlzcnt -pthread -I INC demo.cpp -o demo"
    r = re.search(r"RUN:\s*(.+)", txt)
    run = r.group(1).strip() if r else "./demo"
    return cmd, run


def main():
    a = sys.argv[1:]
    sid, patch, demo = a[0], os.path.abspath(a[1]), os.path.abspath(a[2])
    props = []
    tier = "quick"
    build = None
    runcmd = None
    reuse = None
    i = 3
    while i < len(a):
        if a[i] == "--props":
            props = a[i + 1].split(",")
        elif a[i] == "--tier":
            tier = a[i + 1]
        elif a[i] == "--build":
            build = a[i + 1]
        elif a[i] == "--run":
            runcmd = a[i + 1]
        elif a[i] == "--reuse":
            reuse = a[i + 1]  # meta.json of an earlier evaluation of the same patch: its confirmation step is taken over
        i += 2
    meta = dict(id=sid, breaks_property=props[0] if props else None, checks_run=props, tier=tier, at=time.strftime("%Y-%m-%d %H:%M:%S"))
    wt = "/tmp/seedwt-%s-%d" % (sid, os.getpid())
    if reuse:
        old = json.load(open(reuse))
        for k in ("demo_unchanged_exit", "demo_changed_exit", "demo_changed_output_tail", "demo_build_cmd", "demo_run_cmd", "unit_tests_with_change", "unit_tests_pass_with_change"):
            meta[k] = old.get(k)
        meta["confirmation_reused_from"] = old.get("at")
        meta["first_measurement_results"] = {k: dict(detected=v.get("detected"), classes=v.get("classes")) for k, v in (old.get("check_results") or {}).items()}
    try:
        if reuse:
            raise StopIteration
        r = sh(["git", "-C", REPO, "worktree", "add", "-q", "--detach", wt, "HEAD"])
        if r.returncode:
            print(r.stdout)
            return 2
        # demo on the unchanged tree
        ddir = os.path.join(wt, "_demo")
        os.makedirs(ddir)
        shutil.copy(demo, os.path.join(ddir, "demo.cpp"))
        bcmd, rcmd = demo_cmds(demo, os.path.join(wt, "include"))
        if build:
            bcmd = build
        if runcmd:
            rcmd = runcmd
        bcmd = bcmd.replace("INC", os.path.join(wt, "include"))
        r0 = sh(bcmd, cwd=ddir)
        if r0.returncode:
            print("demo does not build on the unchanged tree:\n" + r0.stdout[-2000:])
            return 2
        e0 = sh(rcmd, cwd=ddir, timeout=600)
        meta["demo_unchanged_exit"] = e0.returncode
        # apply
        r = sh(["git", "-C", wt, "apply", patch])
        if r.returncode:
            print("patch does not apply:\n" + r.stdout)
            return 2
        r1 = sh(bcmd, cwd=ddir)
        if r1.returncode:
            print("demo does not build on the changed tree:\n" + r1.stdout[-2000:])
            return 2
        e1 = sh(rcmd, cwd=ddir, timeout=600)
        meta["demo_changed_exit"] = e1.returncode
        meta["demo_changed_output_tail"] = e1.stdout[-600:]
        meta["demo_build_cmd"] = bcmd.replace(wt, "<worktree>")
        meta["demo_run_cmd"] = rcmd
        env = dict(os.environ, VERIF_REPO=wt)
        t = sh([sys.executable, os.path.join(VERIF, "scripts", "baseline.py")], env=env)
        meta["unit_tests_with_change"] = t.stdout.strip().splitlines()[-1] if t.stdout.strip() else ""
        meta["unit_tests_pass_with_change"] = t.returncode == 0
        print("demo unchanged exit=%s changed exit=%s ; unit tests: %s" % (e0.returncode, e1.returncode, meta["unit_tests_with_change"]))
    except StopIteration:
        pass
    finally:
        sh(["git", "-C", REPO, "worktree", "remove", "--force", wt])
        shutil.rmtree(wt, ignore_errors=True)
    confirmed = meta.get("demo_unchanged_exit") == 0 and meta.get("demo_changed_exit") not in (0, None) and meta.get("unit_tests_pass_with_change")
    meta["confirmed"] = bool(confirmed)
    results = {}
    if confirmed and props:
        st = sh(["git", "-C", REPO, "status", "--porcelain", "--untracked-files=no"]).stdout.strip()
        if st:
            print("refusing to touch /repo: working tree not clean:\n" + st)
            return 2
        try:
            r = sh(["git", "-C", REPO, "apply", patch])
            if r.returncode:
                print("patch does not apply to /repo:\n" + r.stdout)
                return 2
            for p in props:
                t0 = time.time()
                rr = sh([sys.executable, os.path.join(VERIF, "run.py"), p, "--tier", tier], cwd=VERIF)
                lines = [l for l in rr.stdout.splitlines() if l.startswith("VIOLATION") or l.startswith("  class=") or l.startswith("SUMMARY") or l.startswith("INTERNAL")]
                classes = sorted(set(re.findall(r"class=(\S+)", rr.stdout)))
                results[p] = dict(exit=rr.returncode, detected=rr.returncode == 1 and "VIOLATION" in rr.stdout, classes=classes, wall_s=round(time.time() - t0, 1), lines=lines[:8])
                print(p, "exit", rr.returncode, "classes", classes)
        finally:
            sh(["git", "-C", REPO, "checkout", "--", "."])
            # evidence files were rewritten by runs on a modified tree: regenerate later from the clean tree
    meta["check_results"] = results
    out = os.path.join(VERIF, "seeded", sid)
    os.makedirs(out, exist_ok=True)
    shutil.copy(patch, os.path.join(out, "patch.diff"))
    shutil.copy(demo, os.path.join(out, os.path.basename(demo)))
    notes = os.path.join(os.path.dirname(patch), "notes.md")
    if os.path.exists(notes):
        shutil.copy(notes, os.path.join(out, "notes.md"))
    json.dump(meta, open(os.path.join(out, "meta.json"), "w"), indent=1)
    print("confirmed=%s results=%s" % (confirmed, {k: v["detected"] for k, v in results.items()}))
    return 0


if __name__ == "__main__":
    sys.exit(main())
