#!/bin/bash
# usage: eval_batch5.sh <verifdir> id...
V=$1; shift 1
for p in "$@"; do
  S=/tmp/seed-r9-$p/_seed
  if [ ! -f $S/patch.diff ]; then echo "$p: no seed"; continue; fi
  echo "=== $p $(date +%T)"
  python3 $V/scripts/seed_eval.py $p-r9 $S/patch.diff $S/demo.cpp --props $p 2>&1 | tail -4
done
