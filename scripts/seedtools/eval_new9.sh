#!/bin/bash
for p in "$@"; do
  S=/tmp/seed-r9-$p/_seed
  echo "=== $p $(date +%T)"
  python3 /verif/scripts/seed_eval.py $p-r9 $S/patch.diff $S/demo.cpp --props $p --reuse /tmp/verif-r8/seeded/$p-r9/meta.json 2>&1 | tail -3
done
