#!/bin/bash
# re-run a sample of earlier seeds against the current machinery; keep the descriptive fields of their metas
cd /verif
for id in "$@"; do
  p=${id%%-*}
  mkdir -p /tmp/q/rg/$id; cp seeded/$id/patch.diff seeded/$id/demo.cpp /tmp/q/rg/$id/; cp seeded/$id/meta.json /tmp/q/rg/$id/meta.old.json
  echo "=== $id $(date +%T)"
  timeout 900 python3 scripts/seed_eval.py $id /tmp/q/rg/$id/patch.diff /tmp/q/rg/$id/demo.cpp --props $p --reuse /tmp/q/rg/$id/meta.old.json 2>&1 | tail -2
  git -C /repo checkout -- . 2>/dev/null
  python3 - "$id" <<'PY'
import json,sys
i=sys.argv[1]
old=json.load(open('/tmp/q/rg/%s/meta.old.json'%i)); f='/verif/seeded/%s/meta.json'%i
try: m=json.load(open(f))
except Exception: m=old
for k in ('first_measurement_results','change','needs_to_manifest','detection_history','first_measurement','first_measurement_machinery','first_measurement_note','origin'):
    if k in old: m[k]=old[k]
m['rerun_after_round']=9
json.dump(m,open(f,'w'),indent=1,ensure_ascii=False)
PY
done
