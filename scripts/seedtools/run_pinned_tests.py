#!/usr/bin/env python3
"""Rebuild /repo/_build (hooks guard OFF: the define is never passed by the
repository's own build) and run the pinned unit-test binary; succeed iff every
test of BASELINE.json's stable_pass list passes."""
import json
import os
import subprocess
import sys
import tempfile
import xml.etree.ElementTree as ET

REPO = os.environ.get("VERIF_REPO", "/repo")
BUILD = os.path.join(REPO, "_build")


def main():
    base = json.load(open("/root/.vp/BASELINE.json"))
    stable = set(base["stable_pass"])
    if not os.path.exists(os.path.join(BUILD, "build.ninja")):
        subprocess.check_call(["cmake", "-G", "Ninja", "-B", BUILD, "-S", REPO, "-DBUILD_UNITTEST=ON", "-DCMAKE_BUILD_TYPE=RelWithDebInfo", "-DCMAKE_CXX_FLAGS=-Wno-error",
                               "-DFETCHCONTENT_SOURCE_DIR_GOOGLETEST=/usr/src/googletest"], stdout=subprocess.DEVNULL)
    r = subprocess.run(["cmake", "--build", BUILD], stdout=subprocess.PIPE, stderr=subprocess.STDOUT, text=True)
    if r.returncode != 0:
        print(r.stdout[-4000:])
        print("BASELINE: build failed")
        return 1
    with tempfile.TemporaryDirectory() as td:
        xml = os.path.join(td, "r.xml")
        subprocess.run([os.path.join(BUILD, "tests", "unittest"), "--gtest_output=xml:" + xml], cwd=BUILD,
                       stdout=subprocess.DEVNULL, stderr=subprocess.DEVNULL)
        if not os.path.exists(xml):
            print("BASELINE: unittest produced no report (crashed?)")
            return 1
        root = ET.parse(xml).getroot()
    passed = set()
    failed = set()
    for tc in root.iter("testcase"):
        name = tc.get("classname") + "::" + tc.get("name")
        if tc.find("failure") is None and tc.find("error") is None:
            passed.add(name)
        else:
            failed.add(name)
    missing = sorted(stable - passed)
    print("BASELINE: stable=%d passed_of_stable=%d other_failed=%d" % (len(stable), len(stable & passed), len(failed - stable)))
    if missing:
        print("BASELINE: stable tests not passing:", missing)
        return 1
    return 0


if __name__ == "__main__":
    sys.exit(main())
