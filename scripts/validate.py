#!/usr/bin/env python3
import glob, json, sys
import jsonschema
m = json.load(open('/verif/MANIFEST.json'))
jsonschema.validate(m, json.load(open('/root/.vp/MANIFEST.schema.json')))
es = json.load(open('/root/.vp/EVIDENCE.schema.json'))
for f in sorted(glob.glob('/verif/evidence/*.json')):
    jsonschema.validate(json.load(open(f)), es)
    print('ok', f)
print('manifest ok:', len(m['checks']), 'checks')
